//! Rename domain (C16): rename preserves program meaning and is reversible.
//!
//! A script is an abstract project in the vocabulary of `spec/Rename.tla` — a typed *skeleton*
//! (scope forest: global / namespace / program / function / function block / method / struct;
//! declaration slots with kinds; reference slots with the declaration they are meant to denote,
//! lexical or member lookups; the statements the references sit in), the NAMES of the
//! declarations (chosen by TLC from the model or by the seeded generator here, so that
//! collisions, shadowing and case variants occur), and a list of rename requests (occurrence,
//! new name, class of the new name).
//!
//! `run` renders the project as a multi-file Structured Text project in which every
//! declaration feeds an observable program output, and executes every request on the REAL code
//! through its public API only: `trust_ide::rename::rename` on a `trust_hir::Database`, the
//! edits applied to the texts, re-analysis of the edited project (`Database::diagnostics`),
//! execution of both projects with `TestHarness::from_sources` on an input trace, and a rename
//! back to the old name.  One ndjson event per specification action is recorded
//! (`Reset` / `Check` / `Rename` / `Back`); `RenameTrace.tla` judges them.
//!
//! Process structure: the parent splits the scripts over child processes of this same binary
//! (address-space rlimit); a panic of the code under test is caught in the child
//! (`catch_unwind`) and recorded as data (`"res":"panic"`); a child killed by a signal (abort,
//! stack overflow) is recorded by the parent as `{"a":"Panic",..}` for the script that was
//! running and the remaining scripts are resumed in a new child.
use crate::util::*;
use rand::{rngs::StdRng, seq::SliceRandom, Rng, SeedableRng};
use serde::{Deserialize, Serialize};
use serde_json::{json, Value as J};
use std::collections::{BTreeMap, BTreeSet};
use std::panic::{catch_unwind, AssertUnwindSafe};
use std::sync::Mutex;
use text_size::TextSize;
use trust_hir::db::{Database, FileId, SemanticDatabase, SourceDatabase};
use trust_runtime::harness::TestHarness;
use trust_runtime::value::Value;

// ------------------------------------------------------------------ skeleton
// ids are 1-based; element i of a vector is id i + 1 (JSON arrays are 1-based sequences in TLA+)
#[derive(Clone, Debug, Serialize, Deserialize)]
pub struct Sc {
    pub parent: usize, // 0: root
    pub kind: String,  // global namespace program function fb method struct
    pub decl: usize,   // the declaration that owns the scope (0: global)
    pub file: usize,   // file of a top-level unit (inner scopes: the file of the unit around them)
}
#[derive(Clone, Debug, Serialize, Deserialize)]
pub struct De {
    pub scope: usize,
    pub kind: String, // gvar var param outvar svar inst field function method fb program struct namespace
    pub owns: usize,  // scope owned (0: none)
    pub ty: Vec<usize>, // references spelling the type of an svar / inst declaration
    pub init: i64,
}
#[derive(Clone, Debug, Serialize, Deserialize)]
pub struct Re {
    pub site: usize, // lex: the scope the lookup starts in; mem: the only scope looked at
    pub tgt: usize,  // the declaration the reference is meant to denote
    pub mode: String, // lex | mem
    pub role: String, // value call ret type qual qcall qtype field member mcall namedarg extdecl cfgprog base
}
#[derive(Clone, Debug, Serialize, Deserialize)]
pub struct St {
    pub scope: usize,
    pub form: String, // value call callnamed qcall fset fget fbcall fbout mcall oset ret ext cfgprog
    pub refs: Vec<usize>,
    pub k: i64,
}
#[derive(Clone, Debug, Default, Serialize, Deserialize)]
pub struct Skel {
    pub scopes: Vec<Sc>,
    pub decls: Vec<De>,
    pub refs: Vec<Re>,
    pub stmts: Vec<St>,
    pub nfiles: usize,
    pub cfgfile: usize,
}

impl Skel {
    fn sc(&self, id: usize) -> &Sc {
        &self.scopes[id - 1]
    }
    fn de(&self, id: usize) -> &De {
        &self.decls[id - 1]
    }
    fn re(&self, id: usize) -> &Re {
        &self.refs[id - 1]
    }
    fn add_scope(&mut self, parent: usize, kind: &str, decl: usize, file: usize) -> usize {
        self.scopes.push(Sc { parent, kind: kind.into(), decl, file });
        self.scopes.len()
    }
    fn add_decl(&mut self, scope: usize, kind: &str, init: i64) -> usize {
        self.decls.push(De { scope, kind: kind.into(), owns: 0, ty: vec![], init });
        self.decls.len()
    }
    fn add_ref(&mut self, site: usize, tgt: usize, mode: &str, role: &str) -> usize {
        self.refs.push(Re { site, tgt, mode: mode.into(), role: role.into() });
        self.refs.len()
    }
    fn add_stmt(&mut self, scope: usize, form: &str, refs: Vec<usize>, k: i64) {
        self.stmts.push(St { scope, form: form.into(), refs, k });
    }
    /// A unit (POU / type / namespace): declaration in `parent` owning a new scope.
    fn add_unit(&mut self, parent: usize, kind: &str, file: usize) -> (usize, usize) {
        let d = self.add_decl(parent, kind, 0);
        let s = self.add_scope(parent, kind, d, file);
        self.decls[d - 1].owns = s;
        (d, s)
    }
    fn decls_in(&self, scope: usize, kind: &str) -> Vec<usize> {
        (1..=self.decls.len()).filter(|&i| self.de(i).scope == scope && self.de(i).kind == kind).collect()
    }
    fn chain(&self, mut s: usize) -> Vec<usize> {
        let mut v = vec![];
        while s != 0 {
            v.push(s);
            s = self.sc(s).parent;
        }
        v
    }
}

// ------------------------------------------------------------------ the model's lookup (for the generator only)
/// The declaration a reference named `name` denotes under the naming `names` (0: none):
/// Rename!Resolve.  Used only to generate fully resolved projects; the verdicts are TLC's.
fn resolve(sk: &Skel, names: &[String], site: usize, mode: &str, ns: char, name: &str) -> usize {
    if mode == "mem" {
        return (1..=sk.decls.len()).find(|&d| sk.de(d).scope == site && ns_d(&sk.de(d).kind) == ns && names[d - 1] == name).unwrap_or(0);
    }
    for s in sk.chain(site) {
        if let Some(d) = (1..=sk.decls.len()).find(|&d| sk.de(d).scope == s && ns_d(&sk.de(d).kind) == ns && names[d - 1] == name) {
            return d;
        }
    }
    0
}
/// Rename!NsD / Rename!NsR: type names and all other names live in two name spaces
fn ns_d(kind: &str) -> char {
    if kind == "struct" || kind == "fb" { 't' } else { 'v' }
}
fn ns_r(role: &str) -> char {
    if role == "type" || role == "qtype" || role == "base" { 't' } else { 'v' }
}
fn well_formed(sk: &Skel, names: &[String]) -> bool {
    let mut seen = BTreeSet::new();
    // one table of names per scope, whatever is declared (Rename!WellFormed)
    (1..=sk.decls.len()).all(|d| seen.insert((sk.de(d).scope, names[d - 1].clone())))
}
fn intended(sk: &Skel, names: &[String]) -> bool {
    (1..=sk.refs.len()).all(|r| {
        let x = sk.re(r);
        // a reference and the declaration it is meant for are of one name space (a skeleton invariant)
        ns_r(&x.role) == ns_d(&sk.de(x.tgt).kind) && resolve(sk, names, x.site, &x.mode, ns_r(&x.role), &names[x.tgt - 1]) == x.tgt
    })
}

// ------------------------------------------------------------------ generation of skeletons
const POOL: [&str; 10] = ["a", "b", "c", "d", "e", "f", "g", "h", "i", "j"];

fn body_stmts(sk: &mut Skel, rng: &mut StdRng, scope: usize, n: usize, funcs: &[usize], nsfuncs: &[(usize, usize)], gvars: &[usize]) {
    // what is structurally visible from `scope`
    let kind = sk.sc(scope).kind.clone();
    let mut values: Vec<usize> = vec![];
    for s in sk.chain(scope) {
        if s == 1 {
            break;
        }
        if sk.sc(s).kind == "namespace" {
            continue;
        }
        for k in ["var", "param", "outvar"] {
            values.extend(sk.decls_in(s, k));
        }
    }
    let can_ext = kind == "program" || kind == "fb";
    let svars: Vec<usize> = sk.decls_in(scope, "svar");
    let insts: Vec<usize> = sk.decls_in(scope, "inst");
    let own_methods: Vec<usize> = match kind.as_str() {
        "fb" => sk.decls_in(scope, "method"),
        _ => vec![],
    };
    let mut used_g: Vec<usize> = vec![];
    for i in 0..n {
        let k = (i as i64) + 2;
        let mut forms: Vec<&str> = vec![];
        if !values.is_empty() {
            forms.extend(["value", "value"]);
        }
        if !funcs.is_empty() {
            forms.extend(["call", "callnamed"]);
        }
        if !nsfuncs.is_empty() && kind != "method" {
            forms.push("qcall");
        }
        if can_ext && !gvars.is_empty() {
            forms.push("gvalue");
        }
        if !svars.is_empty() {
            forms.extend(["fset", "fget"]);
        }
        if !insts.is_empty() {
            forms.extend(["fbcall", "fbout", "mcall"]);
        }
        if !own_methods.is_empty() {
            forms.push("owncall");
        }
        if forms.is_empty() {
            return;
        }
        let pick = |rng: &mut StdRng, v: &[usize]| v[rng.gen_range(0..v.len())];
        match *forms.choose(rng).unwrap() {
            "value" => {
                let t = pick(rng, &values);
                let r = sk.add_ref(scope, t, "lex", "value");
                sk.add_stmt(scope, "value", vec![r], k);
            }
            "gvalue" => {
                let t = pick(rng, gvars);
                if !used_g.contains(&t) {
                    used_g.push(t);
                    let e = sk.add_ref(scope, t, "lex", "extdecl");
                    sk.add_stmt(scope, "ext", vec![e], 0);
                }
                let r = sk.add_ref(scope, t, "lex", "value");
                sk.add_stmt(scope, "value", vec![r], k);
            }
            f @ ("call" | "callnamed" | "owncall") => {
                let t = if f == "owncall" { pick(rng, &own_methods) } else { pick(rng, funcs) };
                let mut refs = vec![sk.add_ref(scope, t, "lex", "call")];
                let named = f == "callnamed" || (f == "owncall" && rng.gen_bool(0.4));
                if named {
                    let owned = sk.de(t).owns;
                    for p in sk.decls_in(owned, "param") {
                        refs.push(sk.add_ref(owned, p, "mem", "namedarg"));
                    }
                }
                sk.add_stmt(scope, if named { "callnamed" } else { "call" }, refs, k);
            }
            "qcall" => {
                let (nsd, f) = nsfuncs[rng.gen_range(0..nsfuncs.len())];
                let q = sk.add_ref(scope, nsd, "lex", "qual");
                let c = sk.add_ref(sk.de(nsd).owns, f, "mem", "qcall");
                sk.add_stmt(scope, "qcall", vec![q, c], k);
            }
            f @ ("fset" | "fget") => {
                let v = pick(rng, &svars);
                // the struct type of v: target of the last reference of its type path
                let st = sk.re(*sk.de(v).ty.last().unwrap()).tgt;
                let fields = sk.decls_in(sk.de(st).owns, "field");
                let fld = pick(rng, &fields);
                let b = sk.add_ref(scope, v, "lex", "base");
                let m = sk.add_ref(sk.de(st).owns, fld, "mem", "field");
                sk.add_stmt(scope, f, vec![b, m], k);
            }
            f @ ("fbcall" | "fbout" | "mcall") => {
                let v = pick(rng, &insts);
                let fb = sk.re(*sk.de(v).ty.last().unwrap()).tgt;
                let fbs = sk.de(fb).owns;
                let outs = sk.decls_in(fbs, "outvar");
                let meths = sk.decls_in(fbs, "method");
                let params = sk.decls_in(fbs, "param");
                match f {
                    "fbout" if !outs.is_empty() => {
                        let b = sk.add_ref(scope, v, "lex", "base");
                        let m = sk.add_ref(fbs, outs[0], "mem", "member");
                        sk.add_stmt(scope, "fbout", vec![b, m], k);
                    }
                    "mcall" if !meths.is_empty() => {
                        let b = sk.add_ref(scope, v, "lex", "base");
                        let m = sk.add_ref(fbs, pick(rng, &meths), "mem", "mcall");
                        sk.add_stmt(scope, "mcall", vec![b, m], k);
                    }
                    _ => {
                        let b1 = sk.add_ref(scope, v, "lex", "base");
                        let b2 = sk.add_ref(scope, v, "lex", "base");
                        let mut refs = vec![b1, b2];
                        if !params.is_empty() {
                            refs.push(sk.add_ref(fbs, params[0], "mem", "namedarg"));
                        }
                        sk.add_stmt(scope, "fbcall", refs, k);
                    }
                }
            }
            _ => unreachable!(),
        }
    }
}

fn callable(sk: &mut Skel, rng: &mut StdRng, parent: usize, kind: &str, file: usize, small: bool) -> (usize, usize) {
    let (d, s) = sk.add_unit(parent, kind, file);
    for _ in 0..rng.gen_range(1..=if small { 1 } else { 2 }) {
        sk.add_decl(s, "param", 0);
    }
    for _ in 0..rng.gen_range(0..=if small { 1 } else { 2 }) {
        let init = rng.gen_range(1..40);
        sk.add_decl(s, "var", init);
    }
    (d, s)
}

/// A random typed skeleton.  `small`: few declarations (for the TLC catalogue, where the
/// specification enumerates the namings).
pub fn gen_skeleton(rng: &mut StdRng, small: bool) -> Skel {
    let mut sk = Skel::default();
    sk.nfiles = rng.gen_range(1..=3);
    sk.cfgfile = rng.gen_range(0..sk.nfiles);
    let nf = sk.nfiles;
    sk.add_scope(0, "global", 0, 0);
    let few = |rng: &mut StdRng, lo: usize, hi: usize| rng.gen_range(lo..=if small { lo.max(hi.saturating_sub(1)) } else { hi });
    // global variables
    let mut gvars = vec![];
    if rng.gen_bool(if small { 0.3 } else { 0.4 }) {
        for _ in 0..few(rng, 1, 2) {
            let init = rng.gen_range(1..40);
            gvars.push(sk.add_decl(1, "gvar", init));
        }
    }
    // global functions (a function only calls functions created before it: no recursion)
    let mut funcs: Vec<usize> = vec![];
    let mut bodies: Vec<(usize, Vec<usize>, Vec<(usize, usize)>)> = vec![];
    for _ in 0..few(rng, 1, 2) {
        let file = rng.gen_range(0..nf);
        let (d, s) = callable(&mut sk, rng, 1, "function", file, small);
        bodies.push((s, funcs.clone(), vec![]));
        funcs.push(d);
    }
    // a namespace with functions and possibly a structure type
    let mut nsfuncs: Vec<(usize, usize)> = vec![];
    let mut structs: Vec<(usize, usize)> = vec![]; // (namespace decl or 0, struct decl)
    if rng.gen_bool(if small { 0.35 } else { 0.5 }) {
        let file = rng.gen_range(0..nf);
        let (nsd, nss) = sk.add_unit(1, "namespace", file);
        let file = sk.sc(nss).file;
        for _ in 0..few(rng, 1, 2) {
            let (d, s) = callable(&mut sk, rng, nss, "function", file, small);
            bodies.push((s, funcs.clone(), vec![]));
            nsfuncs.push((nsd, d));
        }
        if rng.gen_bool(0.5) {
            let (d, s) = sk.add_unit(nss, "struct", file);
            for _ in 0..few(rng, 1, 2) {
                sk.add_decl(s, "field", 0);
            }
            structs.push((nsd, d));
        }
    }
    if rng.gen_bool(if small { 0.35 } else { 0.6 }) {
        let (d, s) = sk.add_unit(1, "struct", rng.gen_range(0..nf));
        for _ in 0..few(rng, 1, 2) {
            sk.add_decl(s, "field", 0);
        }
        structs.push((0, d));
    }
    // a function block with an optional method
    let mut fbs: Vec<usize> = vec![];
    if rng.gen_bool(if small { 0.4 } else { 0.7 }) {
        let (d, s) = sk.add_unit(1, "fb", rng.gen_range(0..nf));
        let file = sk.sc(s).file;
        if rng.gen_bool(0.6) {
            sk.add_decl(s, "param", 0);
        }
        if rng.gen_bool(0.6) {
            sk.add_decl(s, "outvar", 0);
        }
        for _ in 0..few(rng, 0, 2) {
            let init = rng.gen_range(1..40);
            sk.add_decl(s, "var", init);
        }
        if rng.gen_bool(0.7) {
            let (_, ms) = callable(&mut sk, rng, s, "method", file, small);
            bodies.push((ms, funcs.clone(), vec![]));
        }
        bodies.push((s, funcs.clone(), nsfuncs.clone()));
        fbs.push(d);
    }
    // programs
    for _ in 0..few(rng, 1, 2) {
        let (_, s) = sk.add_unit(1, "program", rng.gen_range(0..nf));
        for _ in 0..few(rng, 0, 3) {
            let init = rng.gen_range(1..40);
            sk.add_decl(s, "var", init);
        }
        if !structs.is_empty() && rng.gen_bool(0.7) {
            let (nsd, st) = structs[rng.gen_range(0..structs.len())];
            let v = sk.add_decl(s, "svar", 0);
            let ty = if nsd != 0 {
                vec![sk.add_ref(s, nsd, "lex", "qual"), sk.add_ref(sk.de(nsd).owns, st, "mem", "qtype")]
            } else {
                vec![sk.add_ref(s, st, "lex", "type")]
            };
            sk.decls[v - 1].ty = ty;
        }
        if !fbs.is_empty() && rng.gen_bool(0.8) {
            let v = sk.add_decl(s, "inst", 0);
            let ty = vec![sk.add_ref(s, fbs[0], "lex", "type")];
            sk.decls[v - 1].ty = ty;
        }
        bodies.push((s, funcs.clone(), nsfuncs.clone()));
    }
    // statements
    for (s, fs, nfs) in bodies {
        let kind = sk.sc(s).kind.clone();
        let n = match kind.as_str() {
            "program" => few(rng, 2, 6),
            _ => few(rng, 1, 3),
        };
        body_stmts(&mut sk, rng, s, n, &fs, &nfs, &gvars);
        match kind.as_str() {
            "function" | "method" => {
                let d = sk.sc(s).decl;
                let r = sk.add_ref(s, d, "lex", "ret");
                sk.add_stmt(s, "ret", vec![r], 0);
            }
            "fb" => {
                if let Some(&o) = sk.decls_in(s, "outvar").first() {
                    let r = sk.add_ref(s, o, "lex", "value");
                    sk.add_stmt(s, "oset", vec![r], 5);
                }
            }
            _ => {}
        }
    }
    // a configuration is needed as soon as there are global variables: it names the programs
    if !gvars.is_empty() {
        for p in sk.decls_in(1, "program") {
            let r = sk.add_ref(1, p, "lex", "cfgprog");
            sk.add_stmt(1, "cfgprog", vec![r], 0);
        }
    }
    sk
}

// ------------------------------------------------------------------ generation of scripts
const KEYWORDS: [&str; 14] = ["IF", "PROGRAM", "INT", "VAR", "END_VAR", "FUNCTION", "TRUE", "WHILE", "RETURN", "DINT", "AND", "MOD", "end_if", "Then"];
const INVALID: [&str; 9] = ["1x", "a-b", "a b", "", "x$y", "n\u{e9}", "a__b", "a_", "9"];

/// The name of a unit (a declaration that owns a scope: POU, method, type, namespace) is also
/// the name of another declaration somewhere in the project (PROGRAM P and METHOD P, FUNCTION
/// F and FUNCTION Ns.F, FUNCTION F and a variable F).
fn homonyms(sk: &Skel, names: &[String]) -> bool {
    (1..=sk.decls.len()).filter(|&d| sk.de(d).owns != 0).any(|d| {
        (1..=sk.decls.len()).any(|e| d != e && names[d - 1] == names[e - 1] && !(sk.de(d).kind == "struct" && sk.de(e).owns == 0))
    })
}

fn random_names(sk: &Skel, rng: &mut StdRng, allow_homonyms: bool) -> Option<Vec<String>> {
    for attempt in 0..400 {
        // unit names are unique in the project (unless homonyms are wanted): the other names come
        // from a small pool, so that variables, parameters and fields collide and shadow a lot
        let nunits = (1..=sk.decls.len()).filter(|&d| sk.de(d).owns != 0).count();
        let npool = if allow_homonyms { 4 + attempt / 100 } else { nunits + 3 + attempt / 100 };
        let pool = &POOL[..npool.min(POOL.len())];
        let mut names: Vec<String> = vec![];
        let mut ok = true;
        for d in 1..=sk.decls.len() {
            let unit = sk.de(d).owns != 0;
            let used: Vec<&String> = (1..d)
                .filter(|&e| sk.de(e).scope == sk.de(d).scope || (!allow_homonyms && (unit || sk.de(e).owns != 0)))
                .map(|e| &names[e - 1])
                .collect();
            let free: Vec<&&str> = pool.iter().filter(|n| !used.iter().any(|u| u == *n)).collect();
            if free.is_empty() {
                ok = false;
                break;
            }
            names.push(free[rng.gen_range(0..free.len())].to_string());
        }
        // a variable spelled like its own structure type (`limits : Limits`), a field like the type of
        // another structure: legal, and the two name spaces must be kept apart by every lookup
        if ok {
            for d in 1..=sk.decls.len() {
                if sk.de(d).owns == 0 && !sk.de(d).ty.is_empty() && rng.gen_range(0..4) == 0 {
                    let t = sk.re(*sk.de(d).ty.last().unwrap()).tgt;
                    if sk.de(t).kind == "struct" && !(1..=sk.decls.len()).any(|e| e != d && sk.de(e).scope == sk.de(d).scope && names[e - 1] == names[t - 1]) {
                        names[d - 1] = names[t - 1].clone();
                    }
                }
            }
        }
        if ok && well_formed(sk, &names) && intended(sk, &names) && (allow_homonyms || !homonyms(sk, &names)) {
            return Some(names);
        }
    }
    None
}

fn random_reqs(sk: &Skel, names: &[String], rng: &mut StdRng, n: usize) -> Vec<J> {
    let mut reqs = vec![];
    for _ in 0..n {
        let nd = sk.decls.len();
        let nr = sk.refs.len();
        let (t, id) = if nr == 0 || rng.gen_bool(0.45) { ("d", rng.gen_range(1..=nd)) } else { ("r", rng.gen_range(1..=nr)) };
        let old = if t == "d" { names[id - 1].clone() } else { names[sk.re(id).tgt - 1].clone() };
        let r = rng.gen_range(0..100);
        let (new, cls) = if r < 50 {
            (names[rng.gen_range(0..names.len())].clone(), "name") // a name used somewhere in the project
        } else if r < 62 {
            ("fresh".to_string(), "name")
        } else if r < 72 {
            (old, "name") // only the spelling changes
        } else if r < 86 {
            ("kw".to_string(), "keyword")
        } else {
            ("bad".to_string(), "invalid")
        };
        reqs.push(json!({"t": t, "id": id, "new": new, "cls": cls}));
    }
    reqs
}

pub fn gen(args: &[String]) -> i32 {
    let seed = arg_u64(args, "--seed", 1);
    let mut rng = StdRng::seed_from_u64(seed ^ 0xc16_5eed);
    let mut o = Out::create(arg(args, "--out").expect("--out"));
    if let Some(n) = arg(args, "--skeletons") {
        // the catalogue of small typed skeletons the specification names (TLC: IOEnv.SKEL)
        let n: usize = n.parse().expect("--skeletons N");
        let mut k = 0;
        while k < n {
            let sk = gen_skeleton(&mut rng, true);
            if sk.decls.len() <= arg_u64(args, "--max-decls", 11) as usize && random_names(&sk, &mut rng, false).is_some() {
                o.line(&serde_json::to_value(&sk).unwrap());
                k += 1;
            }
        }
        o.flush();
        return 0;
    }
    let runs = arg_u64(args, "--runs", 100) as usize;
    let nreq = arg_u64(args, "--reqs", 10) as usize;
    let mut k = 0;
    while k < runs {
        let sk = gen_skeleton(&mut rng, false);
        // one project in seven may have homonymous scope owners
        let hom = k % 7 == 3;
        let Some(names) = random_names(&sk, &mut rng, hom) else { continue };
        let reqs = random_reqs(&sk, &names, &mut rng, nreq);
        o.line(&json!({"sk": sk, "names": names, "reqs": reqs, "seed": rng.gen::<u32>(), "from": "random"}));
        k += 1;
    }
    o.flush();
    0
}

// ------------------------------------------------------------------ rendering
fn ident_of(model: &str) -> String {
    match model {
        "a" => "na".into(),
        "b" => "nbb".into(),
        "c" => "ncx".into(),
        "d" => "nd_4".into(),
        "e" => "ne5e".into(),
        "f" => "nff".into(),
        "g" => "ng".into(),
        "h" => "nh_h".into(),
        "i" => "ni2".into(),
        "j" => "njjjj".into(),
        "fresh" => "nfresh9".into(),
        o => format!("n_{o}"),
    }
}
fn spell(id: &str, cs: u8) -> String {
    match cs {
        1 => id.to_ascii_uppercase(),
        2 => {
            let mut c = id.chars();
            match c.next() {
                Some(f) => f.to_ascii_uppercase().to_string() + c.as_str(),
                None => String::new(),
            }
        }
        _ => id.to_string(),
    }
}

#[derive(Clone, Debug, PartialEq, Eq, PartialOrd, Ord)]
pub enum Occ {
    D(usize),
    R(usize),
}
#[derive(Clone, Debug)]
pub struct Site {
    pub occ: Occ,
    pub file: usize,
    pub start: usize,
    pub end: usize,
}
pub struct Rendered {
    pub texts: Vec<String>,
    pub sites: Vec<Site>,
    pub outs: Vec<String>, // observable program outputs
    pub ins: Vec<String>,  // program inputs
}

struct Rn<'a> {
    sk: &'a Skel,
    sp_d: Vec<String>,
    sp_r: Vec<String>,
    texts: Vec<String>,
    sites: Vec<Site>,
}
impl<'a> Rn<'a> {
    fn put(&mut self, f: usize, s: &str) {
        self.texts[f].push_str(s);
    }
    fn d(&mut self, f: usize, d: usize) {
        let start = self.texts[f].len();
        let s = self.sp_d[d - 1].clone();
        self.texts[f].push_str(&s);
        self.sites.push(Site { occ: Occ::D(d), file: f, start, end: start + s.len() });
    }
    fn r(&mut self, f: usize, r: usize) {
        let start = self.texts[f].len();
        let s = self.sp_r[r - 1].clone();
        self.texts[f].push_str(&s);
        self.sites.push(Site { occ: Occ::R(r), file: f, start, end: start + s.len() });
    }
    fn nparams(&self, callee: usize) -> usize {
        self.sk.decls_in(self.sk.de(callee).owns, "param").len()
    }
    fn type_path(&mut self, f: usize, d: usize) {
        let ty = self.sk.de(d).ty.clone();
        for (i, r) in ty.iter().enumerate() {
            if i > 0 {
                self.put(f, ".");
            }
            self.r(f, *r);
        }
    }
    /// Declarations of one type: one per line, or -- for every other group -- as one comma list
    /// (`a, b, c : DINT;`), where each name is still its own declaration occurrence.
    fn decl_group(&mut self, f: usize, ids: &[usize], ty: &str) {
        if ids.len() >= 2 && (ids[0] + ids.len()) % 2 == 0 {
            self.put(f, "  ");
            for (k, d) in ids.iter().enumerate() {
                if k > 0 {
                    self.put(f, ", ");
                }
                self.d(f, *d);
            }
            self.put(f, &format!(" : {ty};\n"));
        } else {
            for d in ids {
                self.put(f, "  ");
                self.d(f, *d);
                self.put(f, &format!(" : {ty};\n"));
            }
        }
    }
    fn var_blocks(&mut self, f: usize, s: usize, fixed: &str) {
        let sk = self.sk;
        let exts: Vec<usize> = sk.stmts.iter().filter(|st| st.scope == s && st.form == "ext").map(|st| st.refs[0]).collect();
        if !exts.is_empty() {
            self.put(f, "VAR_EXTERNAL\n");
            for e in exts {
                self.put(f, "  ");
                self.r(f, e);
                self.put(f, " : DINT;\n");
            }
            self.put(f, "END_VAR\n");
        }
        let params = sk.decls_in(s, "param");
        let is_fb = sk.sc(s).kind == "fb";
        if !params.is_empty() || is_fb {
            self.put(f, "VAR_INPUT\n");
            if is_fb {
                self.put(f, "  zin : DINT;\n"); // (the run-time refuses a call without any argument)
            }
            self.decl_group(f, &params, "DINT");
            self.put(f, "END_VAR\n");
        }
        if sk.sc(s).kind == "fb" {
            self.put(f, "VAR_OUTPUT\n  zo : DINT;\n");
            let outs = sk.decls_in(s, "outvar");
            self.decl_group(f, &outs, "DINT");
            self.put(f, "END_VAR\n");
        }
        self.put(f, "VAR\n");
        self.put(f, fixed);
        for d in 1..=sk.decls.len() {
            let de = sk.de(d);
            if de.scope != s {
                continue;
            }
            match de.kind.as_str() {
                "var" => {
                    self.put(f, "  ");
                    self.d(f, d);
                    self.put(f, &format!(" : DINT := {};\n", de.init));
                }
                "svar" | "inst" => {
                    self.put(f, "  ");
                    self.d(f, d);
                    self.put(f, " : ");
                    self.type_path(f, d);
                    self.put(f, ";\n");
                }
                _ => {}
            }
        }
        self.put(f, "END_VAR\n");
    }
    fn args(&mut self, f: usize, st: &St, named_from: usize, n: usize) {
        self.put(f, "(");
        for i in 0..n {
            if i > 0 {
                self.put(f, ", ");
            }
            if named_from > 0 {
                self.r(f, st.refs[named_from + i]);
                self.put(f, " := ");
            }
            self.put(f, &format!("{}", st.k + i as i64));
        }
        self.put(f, ")");
    }
    fn body(&mut self, f: usize, s: usize, acc: &str) {
        let sk = self.sk;
        for st in sk.stmts.iter().filter(|st| st.scope == s) {
            let lead = format!("{acc} := {acc} * 3 + ");
            match st.form.as_str() {
                "value" => {
                    self.put(f, &lead);
                    self.r(f, st.refs[0]);
                    self.put(f, ";\n");
                }
                "call" | "callnamed" => {
                    self.put(f, &lead);
                    self.r(f, st.refs[0]);
                    let n = self.nparams(sk.re(st.refs[0]).tgt);
                    self.args(f, st, if st.form == "callnamed" { 1 } else { 0 }, n);
                    self.put(f, ";\n");
                }
                "qcall" => {
                    self.put(f, &lead);
                    self.r(f, st.refs[0]);
                    self.put(f, ".");
                    self.r(f, st.refs[1]);
                    let n = self.nparams(sk.re(st.refs[1]).tgt);
                    self.args(f, st, 0, n);
                    self.put(f, ";\n");
                }
                "fset" => {
                    self.r(f, st.refs[0]);
                    self.put(f, ".");
                    self.r(f, st.refs[1]);
                    self.put(f, &format!(" := {};\n", st.k + 10));
                }
                "fget" | "fbout" => {
                    self.put(f, &lead);
                    self.r(f, st.refs[0]);
                    self.put(f, ".");
                    self.r(f, st.refs[1]);
                    self.put(f, ";\n");
                }
                "mcall" => {
                    self.put(f, &lead);
                    self.r(f, st.refs[0]);
                    self.put(f, ".");
                    self.r(f, st.refs[1]);
                    let n = self.nparams(sk.re(st.refs[1]).tgt);
                    self.args(f, st, 0, n);
                    self.put(f, ";\n");
                }
                "fbcall" => {
                    self.r(f, st.refs[0]);
                    self.put(f, &format!("(zin := {}", st.k + 1));
                    if st.refs.len() > 2 {
                        self.put(f, ", ");
                        self.r(f, st.refs[2]);
                        self.put(f, &format!(" := {}", st.k));
                    }
                    self.put(f, ");\n");
                    self.put(f, &lead);
                    self.r(f, st.refs[1]);
                    self.put(f, ".zo;\n");
                }
                "oset" => {
                    self.r(f, st.refs[0]);
                    self.put(f, &format!(" := {acc} + {};\n", st.k));
                }
                "ret" => {
                    self.r(f, st.refs[0]);
                    self.put(f, &format!(" := {acc};\n"));
                }
                _ => {}
            }
        }
    }
    fn callable(&mut self, f: usize, d: usize, kw: &str, end: &str) {
        let s = self.sk.de(d).owns;
        self.put(f, kw);
        self.d(f, d);
        self.put(f, " : DINT\n");
        self.var_blocks(f, s, "  zacc : DINT;\n");
        self.put(f, &format!("zacc := {};\n", 1 + (d as i64 % 7)));
        self.body(f, s, "zacc");
        self.put(f, end);
    }
    fn unit(&mut self, d: usize) {
        let sk = self.sk;
        let de = sk.de(d);
        let s = de.owns;
        if s == 0 {
            return; // not a unit (a global variable: rendered in the configuration)
        }
        let f = sk.sc(s).file;
        match de.kind.as_str() {
            "function" => self.callable(f, d, "FUNCTION ", "END_FUNCTION\n\n"),
            "struct" => {
                self.put(f, "TYPE ");
                self.d(f, d);
                self.put(f, " :\nSTRUCT\n");
                let fields = sk.decls_in(s, "field");
                self.decl_group(f, &fields, "DINT");
                self.put(f, "END_STRUCT\nEND_TYPE\n\n");
            }
            "namespace" => {
                self.put(f, "NAMESPACE ");
                self.d(f, d);
                self.put(f, "\n");
                for e in 1..=sk.decls.len() {
                    if sk.de(e).scope == s {
                        self.unit(e);
                    }
                }
                self.put(f, "END_NAMESPACE\n\n");
            }
            "fb" => {
                self.put(f, "FUNCTION_BLOCK ");
                self.d(f, d);
                self.put(f, "\n");
                self.var_blocks(f, s, "");
                for m in sk.decls_in(s, "method") {
                    self.callable(f, m, "METHOD PUBLIC ", "END_METHOD\n");
                }
                self.put(f, &format!("zo := zin + {};\n", 2 + (d as i64 % 5)));
                self.body(f, s, "zo");
                self.put(f, "END_FUNCTION_BLOCK\n\n");
            }
            "program" => {
                self.put(f, "PROGRAM ");
                self.d(f, d);
                self.put(f, "\n");
                self.var_blocks(f, s, &format!("  zq{s} : DINT;\n  zi{s} : DINT;\n"));
                self.put(f, &format!("zq{s} := zi{s};\n"));
                self.body(f, s, &format!("zq{s}"));
                self.put(f, "END_PROGRAM\n\n");
            }
            _ => {}
        }
    }
}

/// The Structured Text project of a script.  `cs_seed` fixes the spelling (case variants).
pub fn render(sk: &Skel, names: &[String], cs_seed: u64) -> Rendered {
    let mut rng = StdRng::seed_from_u64(cs_seed ^ 0x5be11);
    let cs_d: Vec<u8> = (0..sk.decls.len()).map(|_| if rng.gen_bool(0.5) { 0 } else { rng.gen_range(1..3) }).collect();
    let sp_d: Vec<String> = (0..sk.decls.len()).map(|i| spell(&ident_of(&names[i]), cs_d[i])).collect();
    // Most projects spell every occurrence of a symbol like its declaration: the run-time
    // resolves some names case-sensitively, so a project with mixed spellings usually stops
    // with a run-time error in the first cycle (its behaviour is then compared all the same).
    let mixed = rng.gen_bool(0.2);
    let sp_r: Vec<String> = sk
        .refs
        .iter()
        .map(|r| {
            let cs = if !mixed || rng.gen_bool(0.6) { cs_d[r.tgt - 1] } else { rng.gen_range(0..3) };
            spell(&ident_of(&names[r.tgt - 1]), cs)
        })
        .collect();
    let mut rn = Rn { sk, sp_d, sp_r, texts: vec![String::new(); sk.nfiles.max(1)], sites: vec![] };
    for f in 0..rn.texts.len() {
        rn.put(f, &format!("(* C16 scenario, file {f} *)\n"));
    }
    let gvars = sk.decls_in(1, "gvar");
    if !gvars.is_empty() {
        let f = sk.cfgfile;
        rn.put(f, "CONFIGURATION ZConf\nVAR_GLOBAL\n");
        for g in gvars {
            rn.put(f, "  ");
            rn.d(f, g);
            rn.put(f, &format!(" : DINT := {};\n", sk.de(g).init));
        }
        rn.put(f, "END_VAR\n");
        for (i, st) in sk.stmts.iter().filter(|st| st.form == "cfgprog").enumerate() {
            rn.put(f, &format!("PROGRAM zI{i} : "));
            rn.r(f, st.refs[0]);
            rn.put(f, ";\n");
        }
        rn.put(f, "END_CONFIGURATION\n\n");
    }
    for d in 1..=sk.decls.len() {
        if sk.de(d).scope == 1 {
            rn.unit(d);
        }
    }
    let progs: Vec<usize> = sk.decls_in(1, "program").iter().map(|&p| sk.de(p).owns).collect();
    Rendered { texts: rn.texts, sites: rn.sites, outs: progs.iter().map(|s| format!("zq{s}")).collect(), ins: progs.iter().map(|s| format!("zi{s}")).collect() }
}

// ------------------------------------------------------------------ observation of the real code
static LAST_PANIC: Mutex<String> = Mutex::new(String::new());

fn guarded<R>(f: impl FnOnce() -> R) -> Result<R, String> {
    catch_unwind(AssertUnwindSafe(f)).map_err(|e| {
        let msg = e.downcast_ref::<&str>().map(|s| s.to_string()).or_else(|| e.downcast_ref::<String>().cloned()).unwrap_or_default();
        let loc = LAST_PANIC.lock().map(|s| s.clone()).unwrap_or_default();
        format!("{msg} @ {loc}")
    })
}

fn database(texts: &[String]) -> Database {
    let mut db = Database::new();
    for (i, t) in texts.iter().enumerate() {
        db.set_source_text(FileId(i as u32), t.clone());
    }
    db
}

/// One diagnostic, with the renamed identifier abstracted away: (file, start, end, code,
/// severity, message with every spelling of the old / new name replaced).
type Diag = (usize, usize, usize, String, String, String);

fn strip_names(msg: &str, names: &[&str]) -> String {
    let mut out = String::new();
    let mut tok = String::new();
    let flush = |tok: &mut String, out: &mut String| {
        if !tok.is_empty() {
            if names.iter().any(|n| !n.is_empty() && n.eq_ignore_ascii_case(tok)) {
                out.push('\u{a7}');
            } else {
                out.push_str(tok);
            }
            tok.clear();
        }
    };
    for c in msg.chars() {
        if c.is_ascii_alphanumeric() || c == '_' {
            tok.push(c);
        } else {
            flush(&mut tok, &mut out);
            out.push(c);
        }
    }
    flush(&mut tok, &mut out);
    out
}

fn diagnostics(db: &Database, nfiles: usize, names: &[&str], map: &dyn Fn(usize, usize) -> usize) -> (Vec<Diag>, usize) {
    let mut v = vec![];
    let mut errors = 0;
    for f in 0..nfiles {
        for d in db.diagnostics(FileId(f as u32)).iter() {
            if d.is_error() {
                errors += 1;
            }
            let (a, b): (u32, u32) = (d.range.start().into(), d.range.end().into());
            v.push((f, map(f, a as usize), map(f, b as usize), format!("{:?}", d.code), format!("{:?}", d.severity), strip_names(&d.message, names)));
        }
    }
    v.sort();
    (v, errors)
}

/// Observed behaviour: per cycle the cycle errors (names abstracted) and every program output.
#[derive(Clone, Debug, PartialEq)]
struct Beh {
    compile_error: Option<String>,
    cycles: Vec<(String, Vec<Option<i64>>)>,
}
impl Beh {
    fn clean(&self) -> bool {
        self.compile_error.is_none() && self.cycles.iter().all(|(e, v)| e == "[]" && v.iter().all(Option::is_some))
    }
    fn outputs(&self) -> Vec<Vec<Option<i64>>> {
        self.cycles.iter().map(|c| c.1.clone()).collect()
    }
    fn text(&self) -> String {
        match &self.compile_error {
            Some(e) => format!("compile error: {e}"),
            None => self.cycles.iter().enumerate().map(|(c, (e, v))| format!("cycle {c}: errors={e} outputs={v:?}\n")).collect(),
        }
    }
}
const CYCLES: i32 = 3;
fn input_of(cycle: i32, prog: usize) -> i32 {
    cycle * 7 + prog as i32 + 1
}

/// Behaviour of the real run-time on the input trace.
fn behaviour(texts: &[String], r: &Rendered, names: &[&str]) -> Beh {
    let refs: Vec<&str> = texts.iter().map(String::as_str).collect();
    let mut h = match TestHarness::from_sources(&refs) {
        Ok(h) => h,
        Err(e) => return Beh { compile_error: Some(strip_names(&e.to_string(), names)), cycles: vec![] },
    };
    let mut cycles = vec![];
    for c in 0..CYCLES {
        for (i, n) in r.ins.iter().enumerate() {
            h.set_input(n, Value::DInt(input_of(c, i)));
        }
        let res = h.cycle();
        let outs = r
            .outs
            .iter()
            .map(|o| match h.get_output(o) {
                Some(Value::DInt(v)) => Some(v as i64),
                _ => None,
            })
            .collect();
        cycles.push((strip_names(&format!("{:?}", res.errors), names), outs));
    }
    Beh { compile_error: None, cycles }
}

/// Reference evaluation of the rendered project under the specification's semantics: every
/// reference denotes the declaration it is meant to denote (lexical scoping, member lookup),
/// DINT arithmetic.  Used ONLY to decide whether the behaviour oracle applies to a project:
/// where the real run-time does not execute the ORIGINAL project like this (it resolves some
/// names case-sensitively or by name alone, and does not execute namespace-qualified calls),
/// outputs before and after a rename are not compared.  `None`: arithmetic overflow.
struct RefEval<'a> {
    sk: &'a Skel,
    fields: BTreeMap<(usize, usize), i64>,
    fb_out: BTreeMap<(usize, usize), i64>,
    fb_par: BTreeMap<(usize, usize), i64>,
    fb_zo: BTreeMap<usize, i64>,
}
impl<'a> RefEval<'a> {
    fn step(acc: i64, x: i64) -> Option<i64> {
        let v = (acc as i32).checked_mul(3)?.checked_add(i32::try_from(x).ok()?)?;
        Some(v as i64)
    }
    fn value(&self, d: usize, locals: &BTreeMap<usize, i64>, inst: Option<usize>) -> i64 {
        let de = self.sk.de(d);
        match de.kind.as_str() {
            "param" if self.sk.sc(de.scope).kind == "fb" => inst.and_then(|i| self.fb_par.get(&(i, d)).copied()).unwrap_or(0),
            "param" => locals.get(&d).copied().unwrap_or(0),
            "outvar" => inst.and_then(|i| self.fb_out.get(&(i, d)).copied()).unwrap_or(0),
            _ => de.init, // var / gvar: never assigned
        }
    }
    fn type_of(&self, v: usize) -> usize {
        self.sk.re(*self.sk.de(v).ty.last().unwrap()).tgt
    }
    /// The statements of `scope` applied to `acc`; `inst`: the FB instance whose body / method runs.
    fn body(&mut self, scope: usize, mut acc: i64, locals: &BTreeMap<usize, i64>, inst: Option<usize>) -> Option<i64> {
        let sk = self.sk;
        for st in sk.stmts.iter().filter(|st| st.scope == scope) {
            let tgt = |i: usize| sk.re(st.refs[i]).tgt;
            let args = |callee: usize| -> Vec<i64> { (0..sk.decls_in(sk.de(callee).owns, "param").len()).map(|i| st.k + i as i64).collect() };
            match st.form.as_str() {
                "value" => acc = Self::step(acc, self.value(tgt(0), locals, inst))?,
                "call" | "callnamed" => {
                    let f = tgt(0);
                    // a method called from its own function block runs on the same instance
                    let v = self.call(f, &args(f), if sk.de(f).kind == "method" { inst } else { None })?;
                    acc = Self::step(acc, v)?;
                }
                "qcall" => {
                    let f = tgt(1);
                    let v = self.call(f, &args(f), None)?;
                    acc = Self::step(acc, v)?;
                }
                "fset" => {
                    self.fields.insert((tgt(0), tgt(1)), st.k + 10);
                }
                "fget" => acc = Self::step(acc, self.fields.get(&(tgt(0), tgt(1))).copied().unwrap_or(0))?,
                "fbout" => acc = Self::step(acc, self.fb_out.get(&(tgt(0), tgt(1))).copied().unwrap_or(0))?,
                "mcall" => {
                    let m = tgt(1);
                    let v = self.call(m, &args(m), Some(tgt(0)))?;
                    acc = Self::step(acc, v)?;
                }
                "fbcall" => {
                    let i = tgt(0);
                    if st.refs.len() > 2 {
                        self.fb_par.insert((i, tgt(2)), st.k);
                    }
                    let fb = self.type_of(i);
                    let zo = self.body(sk.de(fb).owns, st.k + 1 + 2 + (fb as i64 % 5), &BTreeMap::new(), Some(i))?;
                    self.fb_zo.insert(i, zo);
                    acc = Self::step(acc, zo)?;
                }
                "oset" => {
                    if let Some(i) = inst {
                        self.fb_out.insert((i, tgt(0)), i64::from(i32::try_from(acc + st.k).ok()?));
                    }
                }
                _ => {} // ret / ext / cfgprog: no effect on the accumulator
            }
        }
        Some(acc)
    }
    fn call(&mut self, f: usize, args: &[i64], inst: Option<usize>) -> Option<i64> {
        let scope = self.sk.de(f).owns;
        let locals: BTreeMap<usize, i64> = self.sk.decls_in(scope, "param").into_iter().zip(args.iter().copied()).collect();
        self.body(scope, 1 + (f as i64 % 7), &locals, inst)
    }
}
fn reference_outputs(sk: &Skel) -> Option<Vec<Vec<Option<i64>>>> {
    let mut ev = RefEval { sk, fields: BTreeMap::new(), fb_out: BTreeMap::new(), fb_par: BTreeMap::new(), fb_zo: BTreeMap::new() };
    let progs: Vec<usize> = sk.decls_in(1, "program").iter().map(|&p| sk.de(p).owns).collect();
    let mut out = vec![];
    for c in 0..CYCLES {
        let mut row = vec![];
        for (i, &s) in progs.iter().enumerate() {
            row.push(Some(ev.body(s, input_of(c, i) as i64, &BTreeMap::new(), None)?));
        }
        out.push(row);
    }
    Some(out)
}

fn is_ident_char(c: u8) -> bool {
    c.is_ascii_alphanumeric() || c == b'_'
}

struct Applied {
    texts: Vec<String>,
    /// edits per file: (start, end, new length), ascending
    edits: Vec<Vec<(usize, usize, usize)>>,
}
impl Applied {
    fn map(&self, f: usize, pos: usize) -> usize {
        let mut p = pos as i64;
        for &(a, b, n) in &self.edits[f] {
            if b <= pos {
                p += n as i64 - (b - a) as i64;
            } else if a < pos {
                p = p - (pos - a) as i64 + (n.min(pos - a)) as i64; // inside an edit
            }
        }
        p.max(0) as usize
    }
}

/// Checks the edits (in bounds, on character boundaries, pairwise disjoint, each replacing
/// exactly one identifier token by `new`) and applies them.
fn apply_edits(texts: &[String], raw: &[(usize, usize, usize, String)], new: &str) -> Result<Applied, String> {
    let mut per: Vec<Vec<(usize, usize, usize)>> = vec![vec![]; texts.len()];
    for (f, a, b, t) in raw {
        if *f >= texts.len() {
            return Err(format!("edit in unknown file {f}"));
        }
        let tx = texts[*f].as_bytes();
        if a > b || *b > tx.len() {
            return Err(format!("edit {a}..{b} out of bounds (file {f}, {} bytes)", tx.len()));
        }
        if !texts[*f].is_char_boundary(*a) || !texts[*f].is_char_boundary(*b) {
            return Err(format!("edit {a}..{b} not on character boundaries"));
        }
        if a == b || !tx[*a..*b].iter().all(|c| is_ident_char(*c)) || tx[*a].is_ascii_digit() {
            return Err(format!("edit {a}..{b} in file {f} does not cover an identifier: {:?}", &texts[*f][*a..*b]));
        }
        if (*a > 0 && is_ident_char(tx[*a - 1])) || (*b < tx.len() && is_ident_char(tx[*b])) {
            return Err(format!("edit {a}..{b} in file {f} covers only part of an identifier"));
        }
        if t != new {
            return Err(format!("edit {a}..{b} inserts {t:?}, not the new name {new:?}"));
        }
        per[*f].push((*a, *b, t.len()));
    }
    for v in per.iter_mut() {
        v.sort();
        for w in v.windows(2) {
            if w[1].0 < w[0].1 {
                return Err(format!("edits {}..{} and {}..{} overlap", w[0].0, w[0].1, w[1].0, w[1].1));
            }
        }
    }
    let mut out = texts.to_vec();
    for (f, v) in per.iter().enumerate() {
        for &(a, b, _) in v.iter().rev() {
            out[f].replace_range(a..b, new);
        }
    }
    Ok(Applied { texts: out, edits: per })
}

fn raw_edits(res: &trust_ide::rename::RenameResult) -> Vec<(usize, usize, usize, String)> {
    let mut v: Vec<(usize, usize, usize, String)> = vec![];
    for (fid, eds) in &res.edits {
        for e in eds {
            v.push((fid.0 as usize, u32::from(e.range.start()) as usize, u32::from(e.range.end()) as usize, e.new_text.clone()));
        }
    }
    v.sort();
    v
}

// ------------------------------------------------------------------ running a script
fn run_script(sc: &J, o: &mut Out, det: &mut Option<Out>) {
    let sk: Skel = serde_json::from_value(sc["sk"].clone()).expect("script skeleton");
    let names: Vec<String> = sc["names"].as_array().expect("names").iter().map(|n| n.as_str().unwrap().to_string()).collect();
    let seed = sc["seed"].as_u64().unwrap_or(0);
    assert_eq!(names.len(), sk.decls.len(), "one name per declaration slot");
    let r = render(&sk, &names, seed);
    // the static configuration the specification needs: the abstract project
    let par: Vec<usize> = sk.scopes.iter().map(|s| s.parent).collect();
    let file_of = |d: usize| r.sites.iter().find(|s| s.occ == Occ::D(d)).map(|s| s.file).unwrap_or(0);
    let decls: Vec<J> = (1..=sk.decls.len()).map(|d| json!({"id": d, "scope": sk.de(d).scope, "name": names[d - 1], "kind": sk.de(d).kind, "file": file_of(d), "owns": sk.de(d).owns})).collect();
    let kinds: Vec<&str> = sk.scopes.iter().map(|s| s.kind.as_str()).collect();
    let refs: Vec<J> = (1..=sk.refs.len()).map(|i| json!({"id": i, "site": sk.re(i).site, "name": names[sk.re(i).tgt - 1], "mode": sk.re(i).mode, "role": sk.re(i).role})).collect();
    o.line(&json!({"a": "Reset", "par": par, "kinds": kinds, "decls": decls, "refs": refs}));
    o.flush();
    let mut detail = json!({"texts": r.texts, "requests": []});
    let finish = |det: &mut Option<Out>, detail: &J| {
        if let Some(d) = det {
            d.line(detail);
            d.flush();
        }
    };
    let nfiles = r.texts.len();
    // the property quantifies over error-free projects: analysis without errors, compiles
    let pre = guarded(|| {
        let db = database(&r.texts);
        let (d0, errs) = diagnostics(&db, nfiles, &[], &|_, p| p);
        (db, d0, errs, behaviour(&r.texts, &r, &[]))
    });
    let (db, _d0, errs, beh0) = match pre {
        Ok(x) => x,
        Err(m) => {
            o.line(&json!({"a": "Check", "res": "original-panics", "runs": false, "ref": false}));
            detail["skip"] = json!(format!("analysis / execution of the ORIGINAL project panics: {m}"));
            finish(det, &detail);
            return;
        }
    };
    if errs > 0 || beh0.compile_error.is_some() {
        let why = if errs > 0 { "original-has-errors" } else { "original-does-not-compile" };
        o.line(&json!({"a": "Check", "res": why, "runs": false, "ref": false}));
        let (dd, _) = diagnostics(&db, nfiles, &[], &|_, p| p);
        detail["skip"] = json!({"why": why, "diagnostics": format!("{dd:?}"), "behaviour": beh0.text()});
        finish(det, &detail);
        return;
    }
    // The behaviour oracle applies where the run-time executes the ORIGINAL project cleanly and
    // as the specification's semantics say (see RefEval); elsewhere outputs are not compared.
    let clean = beh0.clean();
    let expected = reference_outputs(&sk);
    let comparable = clean && expected.as_ref() == Some(&beh0.outputs());
    detail["behaviour"] = json!({"observed": beh0.text(), "reference": format!("{expected:?}"), "compared": comparable});
    o.line(&json!({"a": "Check", "res": "ready", "runs": clean, "ref": comparable}));
    let mut rng = StdRng::seed_from_u64(seed ^ 0x9e3779b9);
    for rq in sc["reqs"].as_array().expect("reqs") {
        let (t, id) = (rq["t"].as_str().unwrap(), rq["id"].as_u64().unwrap() as usize);
        let occ = if t == "d" { Occ::D(id) } else { Occ::R(id) };
        let cls = rq["cls"].as_str().unwrap();
        let new_model = rq["new"].as_str().unwrap();
        // the concrete choices (spelling of the new name, cursor offset inside the identifier) are
        // drawn here unless the request carries them (a replay file does)
        let drawn = match cls {
            "keyword" => KEYWORDS[rng.gen_range(0..KEYWORDS.len())].to_string(),
            "invalid" => INVALID[rng.gen_range(0..INVALID.len())].to_string(),
            _ => spell(&ident_of(new_model), rng.gen_range(0..3)),
        };
        let new_sp = rq["sp"].as_str().map(str::to_string).unwrap_or(drawn);
        let site = r.sites.iter().find(|s| s.occ == occ).expect("occurrence is rendered").clone();
        let drawn_off = rng.gen_range(0..(site.end - site.start));
        let drawn_boff: usize = rng.gen_range(0..64);
        let off = rq["off"].as_u64().map(|x| x as usize).unwrap_or(drawn_off).min(site.end - site.start - 1);
        let boff = rq["boff"].as_u64().map(|x| x as usize).unwrap_or(drawn_boff);
        let pos = site.start + off;
        let old_sp = r.texts[site.file][site.start..site.end].to_string();
        let mut ev = json!({"a": "Rename", "ot": t, "oid": id, "file": site.file, "new": new_model, "cls": cls, "res": "refused",
            "ed": [], "er": [], "unk": 0, "wf": true, "diag": true, "beh": true});
        let mut back = json!({"a": "Back", "res": "none"});
        let mut dq = json!({"occ": {"t": t, "id": id}, "file": site.file, "offset": pos, "old": old_sp, "new": new_sp, "cls": cls,
            "request": {"t": t, "id": id, "new": new_model, "cls": cls, "sp": new_sp, "off": off, "boff": boff}});
        match guarded(|| trust_ide::rename::rename(&db, FileId(site.file as u32), TextSize::from(pos as u32), &new_sp)) {
            Err(m) => {
                ev["res"] = json!("panic");
                dq["panic"] = json!(m);
            }
            Ok(None) => {}
            Ok(Some(res)) => {
                ev["res"] = json!("applied");
                let raw = raw_edits(&res);
                dq["edits"] = json!(raw.iter().map(|(f, a, b, t)| json!({"file": f, "start": a, "end": b, "text": t})).collect::<Vec<_>>());
                // which occurrences were replaced
                let (mut ed, mut er, mut unk) = (BTreeSet::new(), BTreeSet::new(), 0);
                for (f, a, b, _) in &raw {
                    match r.sites.iter().find(|s| s.file == *f && s.start == *a && s.end == *b) {
                        Some(Site { occ: Occ::D(d), .. }) => {
                            ed.insert(*d);
                        }
                        Some(Site { occ: Occ::R(x), .. }) => {
                            er.insert(*x);
                        }
                        None => unk += 1,
                    }
                }
                ev["ed"] = json!(ed);
                ev["er"] = json!(er);
                ev["unk"] = json!(unk);
                match apply_edits(&r.texts, &raw, &new_sp) {
                    Err(m) => {
                        ev["wf"] = json!(false);
                        dq["malformed"] = json!(m);
                    }
                    Ok(ap) => {
                        let strip = [old_sp.as_str(), new_sp.as_str()];
                        let after = guarded(|| {
                            let db2 = database(&ap.texts);
                            let (d2, _) = diagnostics(&db2, nfiles, &strip, &|_, p| p);
                            let (d1, _) = diagnostics(&db, nfiles, &strip, &|f, p| ap.map(f, p));
                            (db2, d1, d2, behaviour(&ap.texts, &r, &strip), behaviour(&r.texts, &r, &strip))
                        });
                        match after {
                            Err(m) => {
                                ev["diag"] = json!(false);
                                dq["panicAfter"] = json!(m);
                            }
                            Ok((db2, d1, d2, beh2, beh0)) => {
                                if d1 != d2 {
                                    ev["diag"] = json!(false);
                                    let only1: Vec<&Diag> = d1.iter().filter(|x| !d2.contains(x)).collect();
                                    let only2: Vec<&Diag> = d2.iter().filter(|x| !d1.contains(x)).collect();
                                    dq["diagOnlyBefore"] = json!(format!("{only1:?}"));
                                    dq["diagOnlyAfter"] = json!(format!("{only2:?}"));
                                }
                                if comparable && beh2 != beh0 {
                                    ev["beh"] = json!(false);
                                    dq["behBefore"] = json!(beh0.text());
                                    dq["behAfter"] = json!(beh2.text());
                                }
                                // rename back: at the cursor occurrence if it was replaced, else at the first edit
                                let cursor = raw.iter().find(|(f, a, b, _)| *f == site.file && *a == site.start && *b == site.end).or(raw.first());
                                if let Some((f, a, b, _)) = cursor {
                                    let old_here = r.texts[*f][*a..*b].to_string();
                                    let npos = ap.map(*f, *a) + boff % new_sp.len().max(1);
                                    dq["back"] = json!({"file": f, "offset": npos, "to": old_here});
                                    match guarded(|| trust_ide::rename::rename(&db2, FileId(*f as u32), TextSize::from(npos as u32), &old_here)) {
                                        Err(m) => {
                                            back["res"] = json!("panic");
                                            dq["backPanic"] = json!(m);
                                        }
                                        Ok(None) => back["res"] = json!("refused"),
                                        Ok(Some(res2)) => {
                                            let raw2 = raw_edits(&res2);
                                            match apply_edits(&ap.texts, &raw2, &old_here) {
                                                Err(m) => {
                                                    back["res"] = json!("differs");
                                                    dq["backMalformed"] = json!(m);
                                                }
                                                Ok(ap2) => {
                                                    // occurrences of one symbol may be spelled in different cases; no
                                                    // rename can bring those spellings back, so they are compared case-folded
                                                    let mixed = raw.iter().any(|(f2, a2, b2, _)| r.texts[*f2][*a2..*b2] != old_here);
                                                    let same = if mixed {
                                                        ap2.texts.iter().zip(&r.texts).all(|(x, y)| x.eq_ignore_ascii_case(y))
                                                    } else {
                                                        ap2.texts == r.texts
                                                    };
                                                    back["res"] = json!(if same { "restored" } else { "differs" });
                                                    if !same {
                                                        dq["backTexts"] = json!(ap2.texts);
                                                    }
                                                }
                                            }
                                        }
                                    }
                                }
                            }
                        }
                        dq["textsAfter"] = json!(ap.texts);
                    }
                }
            }
        }
        dq["event"] = ev.clone();
        dq["backEvent"] = back.clone();
        detail["requests"].as_array_mut().unwrap().push(dq);
        o.line(&ev);
        o.line(&back);
        o.flush();
    }
    finish(det, &detail);
}

fn child(args: &[String]) -> i32 {
    // 6 GiB of address space: a runaway allocation ends the child, not the machine
    unsafe {
        let lim = libc::rlimit { rlim_cur: 6 << 30, rlim_max: 6 << 30 };
        libc::setrlimit(libc::RLIMIT_AS, &lim);
    }
    std::panic::set_hook(Box::new(|info| {
        if let Ok(mut s) = LAST_PANIC.lock() {
            *s = info.location().map(|l| format!("{}:{}", l.file(), l.line())).unwrap_or_default();
        }
        eprintln!("{info}"); // (the parent discards the child's stderr; visible when a child is run by hand)
    }));
    let scripts = read_ndjson(arg(args, "--scripts").expect("--scripts"));
    let from = arg_u64(args, "--from", 0) as usize;
    let to = (arg_u64(args, "--to", scripts.len() as u64) as usize).min(scripts.len());
    let step = (arg_u64(args, "--step", 1) as usize).max(1);
    let open = |p: &str| Out(std::io::BufWriter::new(std::fs::OpenOptions::new().append(true).create(true).open(p).expect("open part")));
    let mut o = open(arg(args, "--out").expect("--out"));
    let mut det = arg(args, "--detail").map(open);
    for k in (from..to).step_by(step) {
        run_script(&scripts[k], &mut o, &mut det);
    }
    o.flush();
    0
}

fn merge(out: &str, jobs: usize, n: usize, first_line: &str) {
    use std::io::{BufRead, Write};
    let mut o = Out::create(out);
    let mut readers: Vec<_> = (0..jobs)
        .map(|j| std::io::BufReader::new(std::fs::File::open(format!("{out}.part{j}")).expect("open part")).lines().peekable())
        .collect();
    for i in 0..n {
        let r = &mut readers[i % jobs];
        let mut first = true;
        loop {
            let is_first = match r.peek() {
                None => break,
                Some(Ok(l)) => l.starts_with(first_line),
                Some(Err(e)) => panic!("read part: {e}"),
            };
            if is_first && !first {
                break;
            }
            if !is_first && first {
                panic!("part {} does not continue with a new run for script {i}", i % jobs);
            }
            first = false;
            let l = r.next().unwrap().unwrap();
            // a line cut short by a dying child is dropped (the Panic event follows it)
            if serde_json::from_str::<J>(&l).is_ok() {
                writeln!(o.0, "{l}").unwrap();
            }
        }
        if first {
            panic!("part {} has no run for script {i}", i % jobs);
        }
    }
    o.flush();
    for j in 0..jobs {
        let _ = std::fs::remove_file(format!("{out}.part{j}"));
    }
}

pub fn run(args: &[String]) -> i32 {
    if args.iter().any(|a| a == "--child") {
        return child(args);
    }
    if let Some(p) = arg(args, "--try") {
        // calibration aid: diagnostics and behaviour of hand-written projects
        let cases: J = serde_json::from_str(&std::fs::read_to_string(p).expect("read")).expect("json");
        for c in cases.as_array().unwrap() {
            let texts: Vec<String> = c["files"].as_array().unwrap().iter().map(|t| t.as_str().unwrap().to_string()).collect();
            let outs: Vec<String> = c["outs"].as_array().unwrap().iter().map(|t| t.as_str().unwrap().to_string()).collect();
            let r = Rendered { texts: texts.clone(), sites: vec![], outs, ins: vec![] };
            let db = database(&texts);
            println!("=== {}\n{:?}\n{}", c["name"], diagnostics(&db, texts.len(), &[], &|_, p| p), behaviour(&texts, &r, &[]).text());
        }
        return 0;
    }
    let path = arg(args, "--scripts").expect("--scripts");
    if args.iter().any(|a| a == "--show") {
        for sc in read_ndjson(path) {
            let sk: Skel = serde_json::from_value(sc["sk"].clone()).unwrap();
            let names: Vec<String> = sc["names"].as_array().unwrap().iter().map(|n| n.as_str().unwrap().to_string()).collect();
            let r = render(&sk, &names, sc["seed"].as_u64().unwrap_or(0));
            for (i, t) in r.texts.iter().enumerate() {
                println!("----- file {i}\n{t}");
            }
            println!("sites: {:?}", r.sites);
        }
        return 0;
    }
    let out = arg(args, "--out").expect("--out");
    let detail = arg(args, "--detail").map(str::to_string);
    let n = read_ndjson(path).len();
    let jobs = (arg_u64(args, "--jobs", 12) as usize).clamp(1, n.max(1));
    let exe = crate::util::self_exe();
    // job j runs the scripts j, j + jobs, j + 2*jobs, .. in a chain of children
    let handles: Vec<_> = (0..jobs)
        .map(|j| {
            let (exe, path, part) = (exe.clone(), path.to_string(), format!("{out}.part{j}"));
            let dpart = detail.as_ref().map(|d| format!("{d}.part{j}"));
            std::thread::spawn(move || -> Result<(), String> {
                for p in [Some(part.clone()), dpart.clone()].into_iter().flatten() {
                    let _ = std::fs::remove_file(&p);
                    std::fs::File::create(&p).map_err(|e| e.to_string())?;
                }
                let mut started = 0usize; // scripts of this job begun so far
                while j + started * jobs < n {
                    let from = j + started * jobs;
                    let mut cmd = std::process::Command::new(&exe);
                    cmd.args(["rename-run", "--child", "--scripts", &path, "--out", &part, "--from", &from.to_string(), "--to", &n.to_string(), "--step", &jobs.to_string()]);
                    if let Some(d) = &dpart {
                        cmd.args(["--detail", d]);
                    }
                    let st = cmd.stderr(std::process::Stdio::null()).status().map_err(|e| e.to_string())?;
                    if st.success() {
                        break;
                    }
                    if st.code().is_some() {
                        return Err(format!("child of job {j} (from script {from}) failed with {st}"));
                    }
                    // killed by a signal while a script was running: that is data
                    let text = std::fs::read_to_string(&part).map_err(|e| e.to_string())?;
                    let now = text.lines().filter(|l| l.starts_with("{\"a\":\"Reset\"")).count();
                    if now <= started {
                        return Err(format!("child of job {j} died with {st} before starting a script"));
                    }
                    use std::io::Write;
                    let mut f = std::fs::OpenOptions::new().append(true).open(&part).map_err(|e| e.to_string())?;
                    let tail_ok = text.is_empty() || text.ends_with('\n');
                    writeln!(f, "{}{}", if tail_ok { "" } else { "\n" }, json!({"a": "Panic", "msg": format!("{st}")})).map_err(|e| e.to_string())?;
                    if let Some(d) = &dpart {
                        // keep the detail file aligned: one line per script
                        let dt = std::fs::read_to_string(d).map_err(|e| e.to_string())?;
                        let have = dt.lines().filter(|l| serde_json::from_str::<J>(l).is_ok()).count();
                        let mut g = std::fs::OpenOptions::new().append(true).open(d).map_err(|e| e.to_string())?;
                        if have < now {
                            writeln!(g, "{}{}", if dt.is_empty() || dt.ends_with('\n') { "" } else { "\n" }, json!({"texts": [], "requests": [], "skip": "process died"})).map_err(|e| e.to_string())?;
                        }
                    }
                    started = now;
                }
                Ok(())
            })
        })
        .collect();
    let mut rc = 0;
    for h in handles {
        match h.join() {
            Ok(Ok(())) => {}
            Ok(Err(e)) => {
                eprintln!("rename-run: {e}");
                rc = 2;
            }
            Err(_) => rc = 2,
        }
    }
    if rc != 0 {
        return rc;
    }
    merge(out, jobs, n, "{\"a\":\"Reset\"");
    if let Some(d) = &detail {
        // detail files hold exactly one line per script, in job order
        use std::io::{BufRead, Write};
        let mut o = Out::create(d);
        let mut readers: Vec<_> = (0..jobs).map(|j| std::io::BufReader::new(std::fs::File::open(format!("{d}.part{j}")).expect("open detail part")).lines()).collect();
        for i in 0..n {
            let mut l = String::new();
            while let Some(Ok(x)) = readers[i % jobs].next() {
                if serde_json::from_str::<J>(&x).is_ok() {
                    l = x;
                    break;
                }
            }
            if l.is_empty() {
                l = json!({"texts": [], "requests": [], "skip": "no detail"}).to_string();
            }
            writeln!(o.0, "{l}").unwrap();
        }
        o.flush();
        for j in 0..jobs {
            let _ = std::fs::remove_file(format!("{d}.part{j}"));
        }
    }
    let _ = BTreeMap::<u8, u8>::new();
    0
}
