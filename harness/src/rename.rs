//! Rename domain (C16) — exploratory probe (to be replaced).
use crate::util::*;
use serde_json::{json, Value as J};
use text_size::TextSize;
use trust_hir::db::{Database, FileId, SemanticDatabase, SourceDatabase};
use trust_runtime::harness::TestHarness;

pub fn gen(_args: &[String]) -> i32 {
    0
}

fn nth_find(text: &str, pat: &str, nth: usize) -> Option<usize> {
    let mut from = 0;
    let mut k = 0;
    while let Some(p) = text[from..].find(pat) {
        if k == nth {
            return Some(from + p);
        }
        k += 1;
        from += p + 1;
    }
    None
}

fn show_diags(db: &Database, n: usize) {
    for f in 0..n {
        for d in db.diagnostics(FileId(f as u32)).iter() {
            println!("   diag file{f} {:?} {:?} {:?} {}", d.code, d.severity, d.range, d.message);
        }
    }
}

fn outputs(texts: &[String], outs: &[String]) -> String {
    let refs: Vec<&str> = texts.iter().map(String::as_str).collect();
    match TestHarness::from_sources(&refs) {
        Err(e) => format!("compile error: {e}"),
        Ok(mut h) => {
            let mut s = String::new();
            for c in 0..3 {
                let r = h.cycle();
                s.push_str(&format!("cycle{c} errs={:?}:", r.errors));
                for o in outs {
                    s.push_str(&format!(" {o}={:?}", h.get_output(o)));
                }
                s.push('\n');
            }
            s
        }
    }
}

pub fn run(args: &[String]) -> i32 {
    let p: J = serde_json::from_str(&std::fs::read_to_string(arg(args, "--probe").expect("--probe")).unwrap()).unwrap();
    for case in p.as_array().unwrap() {
        let texts: Vec<String> = case["files"].as_array().unwrap().iter().map(|t| t.as_str().unwrap().to_string()).collect();
        let outs: Vec<String> = case["outs"].as_array().map(|a| a.iter().map(|x| x.as_str().unwrap().to_string()).collect()).unwrap_or_default();
        println!("=================== {}", case["name"]);
        let mut db = Database::new();
        for (i, t) in texts.iter().enumerate() {
            db.set_source_text(FileId(i as u32), t.clone());
        }
        show_diags(&db, texts.len());
        print!("{}", outputs(&texts, &outs));
        for r in case["renames"].as_array().map(|a| a.as_slice()).unwrap_or(&[]) {
            let f = r["file"].as_u64().unwrap_or(0) as usize;
            let pat = r["at"].as_str().unwrap();
            let nth = r["nth"].as_u64().unwrap_or(0) as usize;
            let off = r["off"].as_u64().unwrap_or(0) as usize;
            let new = r["new"].as_str().unwrap();
            let pos = nth_find(&texts[f], pat, nth).expect("pattern") + off;
            println!("--- rename file{f} @{pos} ({pat:?}#{nth}+{off}) -> {new:?}");
            let res = trust_ide::rename::rename(&db, FileId(f as u32), TextSize::from(pos as u32), new);
            match res {
                None => println!("   REFUSED"),
                Some(res) => {
                    let mut t2 = texts.clone();
                    let mut fids: Vec<_> = res.edits.keys().copied().collect();
                    fids.sort_by_key(|f| f.0);
                    for fid in fids {
                        let mut eds = res.edits[&fid].clone();
                        eds.sort_by_key(|e| std::cmp::Reverse(u32::from(e.range.start())));
                        for e in &eds {
                            let (a, b) = (u32::from(e.range.start()) as usize, u32::from(e.range.end()) as usize);
                            println!("   edit file{} {a}..{b} {:?} -> {:?}", fid.0, &texts[fid.0 as usize][a..b], e.new_text);
                            t2[fid.0 as usize].replace_range(a..b, &e.new_text);
                        }
                    }
                    let mut db2 = Database::new();
                    for (i, t) in t2.iter().enumerate() {
                        db2.set_source_text(FileId(i as u32), t.clone());
                    }
                    show_diags(&db2, t2.len());
                    let outs2: Vec<String> = outs.iter().map(|o| if o.eq_ignore_ascii_case(r["old"].as_str().unwrap_or("\u{1}")) { new.to_string() } else { o.clone() }).collect();
                    print!("{}", outputs(&t2, &outs2));
                    if r["show"] == json!(true) {
                        for t in &t2 {
                            println!("{t}");
                        }
                    }
                }
            }
        }
    }
    0
}
