//! ControlAuth domain (C18): the runtime control endpoint executes a request only with a
//! sufficient role.
//!
//! `ctrlauth-gen` — discovers the request types the real dispatcher acknowledges (every string
//!                  literal of control.rs / control/handlers/*.rs probed through the endpoint),
//!                  and writes scripts: the complete enumeration (types x parameter variants x
//!                  credentials x endpoint configurations) and seeded random / hostile request
//!                  lines.  One script = one request line sent under a list of credentials.
//! `ctrlauth-run` — executes scripts on the REAL endpoint: `ControlServer::start` on a unix
//!                  socket with a constructed `ControlState` around a real runtime; one ndjson
//!                  `Req` event per request with the reply classification and the set of state
//!                  probes that changed.  Scripts run in a child process of this binary (rlimits,
//!                  a `Begin` marker before every request) so that an abort / stack overflow /
//!                  huge allocation of the code under test becomes a recorded event, not a tool
//!                  failure; a panic of a server thread is caught by a panic hook.
use crate::util::*;
use indexmap::IndexMap;
use rand::{rngs::StdRng, seq::SliceRandom, Rng, SeedableRng};
use serde_json::{json, Value as J};
use sha2::{Digest, Sha256};
use smol_str::SmolStr;
use std::collections::{BTreeMap, BTreeSet, VecDeque};
use std::io::{BufRead, BufReader, Write};
use std::os::unix::net::UnixStream;
use std::path::{Path, PathBuf};
use std::sync::atomic::{AtomicBool, AtomicUsize, Ordering};
use std::sync::{Arc, Mutex};
use std::time::Duration as StdDuration;
use trust_runtime::config::ControlMode;
use trust_runtime::control::{ControlEndpoint, ControlServer, ControlState, HmiRuntimeDescriptor, SourceFile, SourceRegistry};
use trust_runtime::debug::{DebugBreakpoint, DebugControl, DebugSnapshot, DebugVariableHandles};
use trust_runtime::harness::TestHarness;
use trust_runtime::historian::{HistorianConfig, HistorianService};
use trust_runtime::io::{IoAddress, IoSnapshot};
use trust_runtime::metrics::RuntimeMetrics;
use trust_runtime::scheduler::{ResourceCommand, ResourceControl, StdClock};
use trust_runtime::settings::{BaseSettings, DiscoverySettings, MeshSettings, RuntimeSettings, SimulationSettings, WebSettings};
use trust_runtime::value::Value;
use trust_runtime::watchdog::{FaultPolicy, RetainMode, WatchdogPolicy};
use trust_runtime::web::pairing::PairingStore;

// ------------------------------------------------------------------ fixture constants
const RES: &str = "ZQRES";
pub(crate) const ADMIN_TOKEN: &str = "zq-admin-token-7f3a";
const WRONG_TOKEN: &str = "zq-not-a-token-11";
const NOW: u64 = 1_000_000;
/// (credential label, token text, pairing id, role, enabled, expires_at)
const PAIR: [(&str, &str, &str, &str, bool, u64); 6] = [
    ("pv", "zq-pair-viewer-a1", "pair-v", "viewer", true, 2_000_000),
    ("po", "zq-pair-operator-b2", "pair-o", "operator", true, 2_000_000),
    ("pe", "zq-pair-engineer-c3", "pair-e", "engineer", true, 2_000_000),
    ("pa", "zq-pair-admin-d4", "pair-a", "admin", true, 2_000_000),
    ("xe", "zq-pair-expired-e5", "pair-x", "engineer", true, 999_999),
    ("re", "zq-pair-revoked-f6", "pair-r", "engineer", false, 2_000_000),
];
/// every credential, weakest first (so that an unexpected effect of a weak credential is not
/// masked by an earlier, legitimate one)
/// strings that are no token but share something with one (kind "wrong" in the specification)
const NEAR: [(&str, &str); 6] = [
    ("w-empty", ""),
    ("w-prefix", "zq-admin-token-7f3"),
    ("w-ext", "zq-admin-token-7f3ax"),
    ("w-case", "ZQ-ADMIN-TOKEN-7F3A"),
    ("w-pprefix", "zq-pair-admin-d"),
    ("w-pext", "zq-pair-admin-d4 "),
];
const CREDS: [&str; 15] = ["none", "wrong", "w-empty", "w-prefix", "w-ext", "w-case", "w-pprefix", "w-pext", "xe", "re", "pv", "po", "pe", "pa", "admin"];
/// strings that occur only in runtime state; none of them may show up in a refusal
const SENTINELS: [&str; 8] = [RES, "zq_g", "zq_run", "zqloglevel", "zq-svc", ADMIN_TOKEN, "zq-pair-", "zq_speed"];

const SOURCE: &str = r#"CONFIGURATION C
VAR_GLOBAL
  zq_g : LINT := 1;
  zq_b : BOOL := FALSE;
  zq_f : LINT := 2;
  zq_i : INT := 7;
  zq_s8 : SINT := 1;
  zq_u8 : USINT := 1;
  zq_w : WORD := 16#10;
  zq_re : REAL := 1.5;
END_VAR
VAR_GLOBAL RETAIN
  zq_r : LINT := 3;
END_VAR
TASK T (INTERVAL := T#10ms, PRIORITY := 1);
PROGRAM Main WITH T : MainT;
END_CONFIGURATION
PROGRAM MainT
VAR
  // @hmi(min=0, max=100)
  zq_speed : REAL := 120.0;
  zq_run : BOOL := TRUE;
  x : INT;
END_VAR
IF zq_b AND NOT zq_b THEN
  x := INT#1;
  x := INT#2;
END_IF;
x := x;
END_PROGRAM
"#;
const BP_LINE_A: u32 = 21; // x := INT#1;  (never executed)
const BP_LINE_B: u32 = 22; // x := INT#2;  (never executed)

fn cred_json(label: &str) -> J {
    match label {
        "none" => json!({"kind": "none", "role": -1, "st": ""}),
        "wrong" => json!({"kind": "wrong", "role": -1, "st": ""}),
        w if w.starts_with("w-") => json!({"kind": "wrong", "role": -1, "st": &w[2..]}),
        "admin" => json!({"kind": "admin", "role": 3, "st": ""}),
        _ => {
            let p = PAIR.iter().find(|p| p.0 == label).unwrap_or_else(|| panic!("credential {label}"));
            let role = ["viewer", "operator", "engineer", "admin"].iter().position(|r| *r == p.3).unwrap();
            let st = if !p.4 { "revoked" } else if p.5 < NOW { "expired" } else { "valid" };
            json!({"kind": "pair", "role": role, "st": st})
        }
    }
}
fn cred_token(label: &str) -> Option<&'static str> {
    match label {
        "none" => None,
        "wrong" => Some(WRONG_TOKEN),
        w if w.starts_with("w-") => Some(NEAR.iter().find(|n| n.0 == w).unwrap_or_else(|| panic!("credential {w}")).1),
        "admin" => Some(ADMIN_TOKEN),
        _ => Some(PAIR.iter().find(|p| p.0 == label).unwrap().1),
    }
}

// ------------------------------------------------------------------ panic capture
pub(crate) static PANICS: Mutex<Vec<String>> = Mutex::new(Vec::new());
pub(crate) static IN_PROBE: AtomicBool = AtomicBool::new(false);
pub(crate) fn install_panic_hook() {
    std::panic::set_hook(Box::new(|info| {
        let th = std::thread::current();
        let name = th.name().unwrap_or("").to_string();
        let msg = format!("{info}");
        let mine = name.starts_with("tpv-") || (name == "main" && !IN_PROBE.load(Ordering::SeqCst));
        if mine {
            // a defect of the harness itself: tool error, never data
            eprintln!("ctrlauth: harness panic in thread '{name}': {msg}");
            std::process::exit(3);
        }
        if let Ok(mut g) = PANICS.lock() {
            g.push(msg.chars().take(300).collect());
        }
    }));
}
pub(crate) fn panic_count() -> usize {
    PANICS.lock().map(|g| g.len()).unwrap_or(0)
}

// ------------------------------------------------------------------ fixture
#[derive(Clone, Debug, PartialEq)]
pub(crate) struct Cfg {
    pub(crate) token: bool,
    pub(crate) debug: bool,
    pub(crate) mode: String,
}
impl Cfg {
    fn from(j: &J) -> Cfg {
        Cfg { token: j["token"].as_bool().unwrap(), debug: j["debug"].as_bool().unwrap(), mode: j["mode"].as_str().unwrap_or("debug").to_string() }
    }
    fn json(&self) -> J {
        json!({"token": self.token, "debug": self.debug, "mode": self.mode})
    }
}
fn all_cfgs() -> Vec<Cfg> {
    let mut v = Vec::new();
    for mode in ["debug", "production"] {
        for token in [true, false] {
            for debug in [true, false] {
                v.push(Cfg { token, debug, mode: mode.to_string() });
            }
        }
    }
    v
}

/// web servers started by this process (each leaves threads behind for good)
pub(crate) static WEB_STARTS: std::sync::atomic::AtomicUsize = std::sync::atomic::AtomicUsize::new(0);
pub(crate) enum Answer {
    Line(String),
    Closed,
    Hang(Vec<String>),
}
impl Answer {
    pub(crate) fn line(self) -> Option<String> {
        match self {
            Answer::Line(s) => Some(s),
            _ => None,
        }
    }
}

pub(crate) struct Fx {
    h: TestHarness,
    pub(crate) state: Arc<ControlState>,
    _server: ControlServer,
    sock: PathBuf,
    conn: Option<(UnixStream, BufReader<UnixStream>)>,
    root: PathBuf,
    pub(crate) pairing: Arc<PairingStore>,
    cmds: Arc<Mutex<Vec<String>>>,
    /// where the endpoint's resource commands go besides the log: a real resource thread, when a stage has one
    pub(crate) forward: Arc<Mutex<Option<Box<dyn Fn(ResourceCommand) + Send>>>>,
    /// the web server in front of the same endpoint state (started at the first request sent through it)
    web: Option<(trust_runtime::web::WebServer, String)>,
    alarm_id: String,
    file_id: u32,
}

static FX_SEQ: AtomicUsize = AtomicUsize::new(0);

fn settings() -> RuntimeSettings {
    RuntimeSettings::new(
        BaseSettings { log_level: "zqloglevel".into(), watchdog: WatchdogPolicy::default(), fault_policy: FaultPolicy::SafeHalt, retain_mode: RetainMode::None, retain_save_interval: None },
        WebSettings { enabled: true, listen: "127.0.0.1:0".into(), auth: "local".into(), tls: false },
        DiscoverySettings { enabled: false, service_name: "zq-svc".into(), advertise: false, interfaces: Vec::new() },
        MeshSettings { enabled: false, listen: "127.0.0.1:0".into(), tls: false, auth_token: None, publish: Vec::new(), subscribe: IndexMap::new() },
        SimulationSettings { enabled: false, time_scale: 1, mode_label: "production".into(), warning: "".into() },
    )
}

fn snapshot_of(h: &TestHarness) -> DebugSnapshot {
    DebugSnapshot { storage: h.runtime().storage().clone(), now: h.runtime().current_time() }
}

impl Fx {
    fn build(work: &Path, cfg: &Cfg) -> Fx {
        Fx::build_with_pairing(work, cfg, None)
    }

    /// The fixture around a given pairing store (the pairing-lifecycle scripts bring a store with a
    /// controllable clock); `None` = the static store of the credential matrix at the fixed clock NOW.
    pub(crate) fn build_with_pairing(work: &Path, cfg: &Cfg, store: Option<Arc<PairingStore>>) -> Fx {
        Fx::build_with_source(work, cfg, store, SOURCE)
    }

    /// The same fixture around another program (it must declare the globals zq_f and have %IX0.2, which the
    /// fixture forces; the state probes of the credential matrix are not meant for it).
    pub(crate) fn build_with_source(work: &Path, cfg: &Cfg, store: Option<Arc<PairingStore>>, source: &str) -> Fx {
        let n = FX_SEQ.fetch_add(1, Ordering::SeqCst);
        let base = work.join(format!("fx{}-{}", std::process::id(), n));
        let _ = std::fs::remove_dir_all(&base);
        let root = base.join("proj");
        std::fs::create_dir_all(&root).expect("create fixture dir");
        std::fs::write(
            root.join("hmi.toml"),
            format!("[write]\nenabled = true\nallow = [\"resource/{RES}/program/Main/field/zq_run\", \"Main.zq_run\"]\n\n[widgets.\"Main.zq_speed\"]\nmin = 0\nmax = 100\n"),
        )
        .unwrap();
        // pairing store: one valid token per role, one expired, one revoked (file format of the store)
        let tokens: Vec<J> = PAIR.iter().map(|p| json!({"id": p.2, "token": p.1, "created_at": 1000, "enabled": p.4, "role": p.3, "expires_at": p.5})).collect();
        let pairing = match store {
            Some(p) => p,
            None => {
                let pfile = base.join("pairing.json");
                std::fs::write(&pfile, serde_json::to_vec(&json!({"tokens": tokens})).unwrap()).unwrap();
                Arc::new(PairingStore::with_clock(pfile, Arc::new(|| NOW)))
            }
        };

        let mut h = TestHarness::from_source(source).unwrap_or_else(|e| panic!("fixture program does not compile: {e}"));
        let debug = h.runtime_mut().enable_debug();
        h.runtime_mut().io_mut().resize(4, 4, 4);
        h.cycle();
        let metadata = h.runtime().metadata_snapshot();
        let file_id = (0..4u32).find(|i| metadata.statement_locations(*i).is_some()).expect("file id of the fixture program");
        // initial debugger state that the clearing / releasing requests can visibly undo
        if let Some((loc, _, _)) = metadata.resolve_breakpoint_position(source, file_id, BP_LINE_A, 1) {
            debug.set_breakpoints_for_file(file_id, vec![DebugBreakpoint::new(loc)]);
        }
        debug.force_global("zq_f", Value::LInt(9));
        debug.force_io(IoAddress::parse("%IX0.2").unwrap(), Value::Bool(true));
        h.cycle();

        let snap = Arc::new(Mutex::new(snapshot_of(&h)));
        let (resource, cmd_rx) = ResourceControl::stub(StdClock::new());
        let cmds = Arc::new(Mutex::new(Vec::<String>::new()));
        let forward: Arc<Mutex<Option<Box<dyn Fn(ResourceCommand) + Send>>>> = Arc::new(Mutex::new(None));
        {
            let (cmds, snap, metadata, forward) = (cmds.clone(), snap.clone(), metadata.clone(), forward.clone());
            std::thread::Builder::new()
                .name("tpv-stub".into())
                .spawn(move || {
                    while let Ok(c) = cmd_rx.recv() {
                        match c {
                            ResourceCommand::Snapshot { respond_to } => {
                                let _ = respond_to.send(snap.lock().unwrap().clone());
                            }
                            ResourceCommand::MeshSnapshot { respond_to, .. } => {
                                let _ = respond_to.send(IndexMap::new());
                            }
                            ResourceCommand::ReloadBytecode { respond_to, bytes } => {
                                cmds.lock().unwrap().push(format!("ReloadBytecode({})", bytes.len()));
                                let _ = respond_to.send(Ok(metadata.clone()));
                            }
                            other => {
                                let text = format!("{other:?}");
                                cmds.lock().unwrap().push(text.chars().take(120).collect());
                                if let Some(f) = forward.lock().unwrap().as_ref() {
                                    f(other);
                                }
                            }
                        }
                    }
                })
                .unwrap();
        }
        let sources = SourceRegistry::new(vec![SourceFile { id: file_id, path: PathBuf::from("main.st"), text: source.to_string() }]);
        let hmi_descriptor = Arc::new(Mutex::new(HmiRuntimeDescriptor::from_sources(Some(&root), &sources)));
        let historian = HistorianService::new(HistorianConfig { enabled: true, history_path: base.join("hist").join("h.jsonl"), ..HistorianConfig::default() }, None).ok();
        let state = Arc::new(ControlState {
            debug,
            resource,
            metadata: Arc::new(Mutex::new(metadata)),
            sources,
            io_snapshot: Arc::new(Mutex::new(Some(IoSnapshot::default()))),
            pending_restart: Arc::new(Mutex::new(None)),
            auth_token: Arc::new(Mutex::new(if cfg.token { Some(SmolStr::new(ADMIN_TOKEN)) } else { None })),
            control_requires_auth: false,
            control_mode: Arc::new(Mutex::new(if cfg.mode == "production" { ControlMode::Production } else { ControlMode::Debug })),
            audit_tx: None,
            metrics: Arc::new(Mutex::new(RuntimeMetrics::default())),
            events: Arc::new(Mutex::new(VecDeque::new())),
            settings: Arc::new(Mutex::new(settings())),
            project_root: Some(root.clone()),
            resource_name: RES.into(),
            io_health: Arc::new(Mutex::new(Vec::new())),
            debug_enabled: Arc::new(AtomicBool::new(cfg.debug)),
            debug_variables: Arc::new(Mutex::new(DebugVariableHandles::new())),
            hmi_live: Arc::new(Mutex::new(trust_runtime::hmi::HmiLiveState::default())),
            hmi_descriptor,
            historian,
            pairing: Some(pairing.clone()),
        });
        let sock = base.join("c.sock");
        let server = ControlServer::start(ControlEndpoint::Unix(sock.clone()), state.clone()).unwrap_or_else(|e| panic!("control server: {e}"));
        let mut fx = Fx { h, state, _server: server, sock, conn: None, root, pairing, cmds, forward, web: None, alarm_id: String::new(), file_id };
        // raise the alarm of the fixture program (reads do that) so that an acknowledgement has something to act on
        {
            let st = fx.state.clone();
            let md = st.metadata.lock().unwrap();
            let sn = snap.lock().unwrap().clone();
            let desc = st.hmi_descriptor.lock().unwrap().clone();
            let schema = trust_runtime::hmi::build_schema(RES, &md, Some(&sn), true, Some(&desc.customization));
            let values = trust_runtime::hmi::build_values(RES, &md, Some(&sn), true, None);
            let mut live = st.hmi_live.lock().unwrap();
            trust_runtime::hmi::update_live_state(&mut live, &schema, &values);
            let view = serde_json::to_value(trust_runtime::hmi::build_alarm_view(&live, 10)).unwrap_or(J::Null);
            if let Some(id) = view["active"].as_array().and_then(|a| a.first()).and_then(|a| a["id"].as_str()) {
                fx.alarm_id = id.to_string();
            }
        }
        fx
    }

    /// resource commands the endpoint has sent so far (as logged by the stub that receives them)
    pub(crate) fn commands(&self) -> Vec<String> {
        self.cmds.lock().unwrap().clone()
    }

    /// The same endpoint state in front of a REAL resource thread's control (served on a new socket).
    pub(crate) fn swap_resource(&mut self, resource: ResourceControl<StdClock>) {
        let mut st = (*self.state).clone();
        st.resource = resource;
        let state = Arc::new(st);
        let n = FX_SEQ.fetch_add(1, Ordering::SeqCst);
        let sock = self.sock.with_file_name(format!("r{n}.sock"));
        let server = ControlServer::start(ControlEndpoint::Unix(sock.clone()), state.clone()).unwrap_or_else(|e| panic!("control server: {e}"));
        let _ = std::fs::remove_file(&self.sock);
        self.conn = None;
        self.web = None;
        self.state = state;
        self._server = server;
        self.sock = sock;
    }

    /// hands the fixture's runtime to a stage that runs the cycles in a thread of its own
    pub(crate) fn swap_harness(&mut self, other: TestHarness) -> TestHarness {
        std::mem::replace(&mut self.h, other)
    }

    pub(crate) fn control_state(&self) -> Arc<ControlState> {
        self.state.clone()
    }

    /// The same endpoint state around another pairing store, served on a new socket (a restart of the
    /// process as far as pairing is concerned: `ControlState::pairing` cannot be replaced in place).
    pub(crate) fn swap_pairing(&mut self, store: Arc<PairingStore>) {
        let mut st = (*self.state).clone();
        st.pairing = Some(store.clone());
        let state = Arc::new(st);
        let n = FX_SEQ.fetch_add(1, Ordering::SeqCst);
        let sock = self.sock.with_file_name(format!("c{n}.sock"));
        let server = ControlServer::start(ControlEndpoint::Unix(sock.clone()), state.clone()).unwrap_or_else(|e| panic!("control server: {e}"));
        let _ = std::fs::remove_file(&self.sock);
        self.conn = None;
        self.web = None;
        self.state = state;
        self._server = server;
        self.sock = sock;
        self.pairing = store;
    }

    fn connect(&mut self) -> bool {
        for _ in 0..200 {
            if let Ok(s) = UnixStream::connect(&self.sock) {
                let r = BufReader::new(s.try_clone().unwrap());
                self.conn = Some((s, r));
                return true;
            }
            std::thread::sleep(StdDuration::from_millis(5));
        }
        false
    }

    /// Names of the endpoint's shared locks that some thread holds right now.
    fn held_locks(&self) -> Vec<&'static str> {
        fn held<T>(m: &Mutex<T>) -> bool {
            matches!(m.try_lock(), Err(std::sync::TryLockError::WouldBlock))
        }
        let st = &self.state;
        let mut v = Vec::new();
        if held(&st.metadata) { v.push("metadata"); }
        if held(&st.settings) { v.push("settings"); }
        if held(&st.auth_token) { v.push("auth_token"); }
        if held(&st.control_mode) { v.push("control_mode"); }
        if held(&st.pending_restart) { v.push("pending_restart"); }
        if held(&st.io_snapshot) { v.push("io_snapshot"); }
        if held(&st.metrics) { v.push("metrics"); }
        if held(&st.events) { v.push("events"); }
        if held(&st.io_health) { v.push("io_health"); }
        if held(&st.debug_variables) { v.push("debug_variables"); }
        if held(&st.hmi_live) { v.push("hmi_live"); }
        if held(&st.hmi_descriptor) { v.push("hmi_descriptor"); }
        v
    }

    /// One request line -> the reply line, or how the endpoint failed to reply.
    /// `Closed`: the connection ended without a reply (the serving thread died).
    /// `Hang`: no reply, and one of the endpoint's locks stayed held for the whole observation
    /// window -- the serving thread is positively wedged, not merely slow.  A silence without
    /// that evidence is a tool-level timeout (exit 2), never a verdict.
    pub(crate) fn ask(&mut self, line: &str) -> Answer {
        if self.conn.is_none() && !self.connect() {
            panic!("cannot connect to the control socket {:?}", self.sock);
        }
        let mut buf = Vec::with_capacity(line.len() + 1);
        buf.extend_from_slice(line.as_bytes());
        buf.push(b'\n');
        {
            let (w, _) = self.conn.as_mut().unwrap();
            let _ = w.set_read_timeout(Some(StdDuration::from_millis(100)));
            if w.write_all(&buf).is_err() {
                self.conn = None;
                return Answer::Closed;
            }
        }
        let mut out: Vec<u8> = Vec::new();
        let started = std::time::Instant::now();
        let mut streak: BTreeMap<&'static str, u32> = BTreeMap::new();
        loop {
            let res = {
                let (_, r) = self.conn.as_mut().unwrap();
                r.read_until(b'\n', &mut out)
            };
            match res {
                Ok(0) => {
                    self.conn = None;
                    return Answer::Closed;
                }
                Ok(_) if out.ends_with(b"\n") => {
                    return Answer::Line(String::from_utf8_lossy(&out).trim_end().to_string());
                }
                Ok(_) => {}
                Err(e) if matches!(e.kind(), std::io::ErrorKind::WouldBlock | std::io::ErrorKind::TimedOut | std::io::ErrorKind::Interrupted) => {
                    let now_held = self.held_locks();
                    streak.retain(|k, _| now_held.contains(k));
                    for k in now_held {
                        *streak.entry(k).or_insert(0) += 1;
                    }
                    let wedged: Vec<&'static str> = streak.iter().filter(|(_, n)| **n >= 9).map(|(k, _)| *k).collect();
                    if !wedged.is_empty() && started.elapsed() >= StdDuration::from_millis(1200) {
                        self.conn = None;
                        return Answer::Hang(wedged.iter().map(|s| s.to_string()).collect());
                    }
                    if started.elapsed() >= StdDuration::from_secs(90) {
                        eprintln!("ctrlauth: no reply within 90 s and no lock held -- giving up (tool-level timeout)");
                        std::process::exit(2);
                    }
                }
                Err(_) => {
                    self.conn = None;
                    return Answer::Closed;
                }
            }
        }
    }

    /// The same request through the web server's `POST /api/control` (web.rs): the credential travels as
    /// `X-Trust-Token` as well as in the line.  Web auth mode is `token` when the endpoint has an auth token
    /// configured and `local` otherwise, which makes the web layer demand exactly what the endpoint demands.
    pub(crate) fn ask_http(&mut self, line: &str, header: Option<&str>, token_mode: bool) -> Answer {
        use std::io::Read;
        if self.web.is_none() {
            WEB_STARTS.fetch_add(1, Ordering::SeqCst);
            for _ in 0..20 {
                let port = std::net::TcpListener::bind("127.0.0.1:0").and_then(|l| l.local_addr()).map(|a| a.port()).expect("loopback port");
                let addr = format!("127.0.0.1:{port}");
                let cfg = trust_runtime::config::WebConfig { enabled: true, listen: addr.as_str().into(),
                    auth: if token_mode { trust_runtime::config::WebAuthMode::Token } else { trust_runtime::config::WebAuthMode::Local }, tls: false };
                if let Ok(server) = trust_runtime::web::start_web_server(&cfg, self.state.clone(), None, Some(self.pairing.clone()), None, None) {
                    self.web = Some((server, addr));
                    break;
                }
            }
        }
        let addr = self.web.as_ref().expect("TOOL: web server did not start").1.clone();
        let mut stream = None;
        for _ in 0..200 {
            if let Ok(s) = std::net::TcpStream::connect(&addr) {
                stream = Some(s);
                break;
            }
            std::thread::sleep(StdDuration::from_millis(5));
        }
        let Some(mut s) = stream else { return Answer::Closed };
        let mut head = format!("POST /api/control HTTP/1.0\r\nHost: {addr}\r\nContent-Type: application/json\r\nContent-Length: {}\r\n", line.len());
        if let Some(t) = header {
            head.push_str(&format!("X-Trust-Token: {t}\r\n"));
        }
        head.push_str("\r\n");
        if s.write_all(head.as_bytes()).is_err() || s.write_all(line.as_bytes()).is_err() {
            return Answer::Closed;
        }
        let _ = s.set_read_timeout(Some(StdDuration::from_millis(100)));
        let mut raw: Vec<u8> = Vec::new();
        let mut buf = [0u8; 8192];
        let started = std::time::Instant::now();
        let mut streak: BTreeMap<&'static str, u32> = BTreeMap::new();
        loop {
            match s.read(&mut buf) {
                Ok(0) => break,
                Ok(n) => raw.extend_from_slice(&buf[..n]),
                Err(e) if matches!(e.kind(), std::io::ErrorKind::WouldBlock | std::io::ErrorKind::TimedOut | std::io::ErrorKind::Interrupted) => {
                    let now_held = self.held_locks();
                    streak.retain(|k, _| now_held.contains(k));
                    for k in now_held {
                        *streak.entry(k).or_insert(0) += 1;
                    }
                    let wedged: Vec<&'static str> = streak.iter().filter(|(_, n)| **n >= 9).map(|(k, _)| *k).collect();
                    if !wedged.is_empty() && started.elapsed() >= StdDuration::from_millis(1200) {
                        self.web = None; // its only thread is wedged
                        return Answer::Hang(wedged.iter().map(|s| s.to_string()).collect());
                    }
                    if started.elapsed() >= StdDuration::from_secs(90) {
                        eprintln!("ctrlauth: no http reply within 90 s and no lock held -- giving up (tool-level timeout)");
                        std::process::exit(2);
                    }
                }
                Err(_) => break,
            }
        }
        let text = String::from_utf8_lossy(&raw).to_string();
        match text.split_once("\r\n\r\n") {
            Some((h, body)) if h.starts_with("HTTP/") => Answer::Line(body.trim_end().to_string()),
            _ => {
                self.web = None; // the serving thread died before answering
                Answer::Closed
            }
        }
    }

    // -------------------------------------------------------------- state probes
    /// Probes that never execute program code.
    fn light(&self) -> BTreeMap<String, String> {
        let st = &self.state;
        let mut m = BTreeMap::new();
        let d: &DebugControl = &st.debug;
        m.insert("debug.mode".into(), format!("{:?}", d.mode()));
        m.insert("debug.snapshot".into(), format!("{}", d.snapshot().is_some()));
        let mut bps: Vec<String> = d.breakpoints().iter().map(|b| format!("{}:{}-{}", b.location.file_id, b.location.start, b.location.end)).collect();
        bps.sort();
        m.insert("debug.breakpoints".into(), bps.join(","));
        m.insert("pending_restart".into(), format!("{:?}", st.pending_restart.lock().map(|g| *g).ok()));
        m.insert("config.settings".into(), st.settings.lock().map(|g| format!("{:?}", *g)).unwrap_or_else(|_| "poisoned".into()));
        m.insert("config.auth_token".into(), st.auth_token.lock().map(|g| format!("{:?}", *g)).unwrap_or_else(|_| "poisoned".into()));
        m.insert("config.control_mode".into(), st.control_mode.lock().map(|g| format!("{:?}", *g)).unwrap_or_else(|_| "poisoned".into()));
        m.insert("config.debug_enabled".into(), format!("{}", st.debug_enabled.load(Ordering::SeqCst)));
        m.insert("resource.handle".into(), format!("{:?}", st.resource));
        // commands travel through a channel: a snapshot query behind them is answered only
        // after the stub has seen every earlier command
        let (tx, rx) = std::sync::mpsc::channel();
        if st.resource.send_command(ResourceCommand::Snapshot { respond_to: tx }).is_ok() && rx.recv_timeout(StdDuration::from_secs(60)).is_err() {
            eprintln!("ctrlauth: the command stub did not answer within 60 s (tool-level timeout)");
            std::process::exit(2);
        }
        m.insert("resource.commands".into(), format!("{}", self.cmds.lock().unwrap().len()));
        let mut pl: Vec<String> = self.pairing.list().iter().map(|p| format!("{}:{}:{:?}", p.id, p.enabled, p.role)).collect();
        pl.sort();
        m.insert("pairing.tokens".into(), pl.join(","));
        m.insert("program.files".into(), tree_digest(&self.root));
        m.insert("hmi.descriptor".into(), st.hmi_descriptor.lock().map(|g| format!("{}:{:?}", g.schema_revision, g.last_error)).unwrap_or_else(|_| "poisoned".into()));
        let acked = st
            .hmi_live
            .lock()
            .map(|live| {
                let view = serde_json::to_value(trust_runtime::hmi::build_alarm_view(&live, 10)).unwrap_or(J::Null);
                let mut ids: Vec<String> = view["active"].as_array().map(|a| a.iter().filter(|x| x["acknowledged"] == json!(true)).map(|x| x["id"].as_str().unwrap_or("").to_string()).collect()).unwrap_or_default();
                ids.sort();
                ids.join(",")
            })
            .unwrap_or_else(|_| "poisoned".into());
        m.insert("hmi.acknowledged".into(), acked);
        m
    }

    /// Runs one cycle of the real runtime (which applies queued writes and forces) and projects
    /// variables and the process image.  A cycle that does not come back within the budget is
    /// released through the debugger and reported as the probe `cycle.blocked`.
    /// One runtime cycle (pending debugger writes are applied at its start), then the value of a global and
    /// the errors of the cycle: the observation of the debugger-write stage of C03 (dbgwrite.rs).
    pub(crate) fn cycle_and_global(&mut self, name: &str) -> (Option<Value>, Vec<String>) {
        let r = self.h.cycle();
        (self.h.runtime().storage().get_global(name).cloned(), r.errors.iter().map(|e| format!("{e:?}")).collect())
    }
    pub(crate) fn inputs(&self) -> Vec<u8> {
        self.h.runtime().io().inputs().to_vec()
    }
    fn heavy(&mut self) -> BTreeMap<String, String> {
        let mut m = BTreeMap::new();
        let done = Arc::new(AtomicBool::new(false));
        let blocked = Arc::new(AtomicBool::new(false));
        let wd = {
            let (done, blocked, dbg) = (done.clone(), blocked.clone(), self.state.debug.clone());
            std::thread::Builder::new()
                .name("tpv-watchdog".into())
                .spawn(move || {
                    for _ in 0..3000 {
                        if done.load(Ordering::SeqCst) {
                            return;
                        }
                        std::thread::sleep(StdDuration::from_millis(5));
                    }
                    blocked.store(true, Ordering::SeqCst);
                    while !done.load(Ordering::SeqCst) {
                        dbg.clear_breakpoints();
                        dbg.continue_run();
                        std::thread::sleep(StdDuration::from_millis(5));
                    }
                })
                .unwrap()
        };
        IN_PROBE.store(true, Ordering::SeqCst);
        let before = panic_count();
        let h = &mut self.h;
        let dbg = self.state.debug.clone();
        let res = std::panic::catch_unwind(std::panic::AssertUnwindSafe(|| {
            // the cells the fixture's forces act on start every probe cycle from their unforced value,
            // so that releasing a force is as visible as setting one
            h.set_input("zq_f", Value::LInt(2));
            let _ = h.runtime_mut().io_mut().write(&IoAddress::parse("%IX0.2").unwrap(), Value::Bool(false));
            let r = h.cycle();
            // what a stopped debugger would show (debug.stack / scopes / evaluate need it)
            let _ = h.runtime_mut().with_eval_context(None, None, |ctx| {
                dbg.refresh_snapshot(ctx);
                Ok(())
            });
            r
        }));
        IN_PROBE.store(false, Ordering::SeqCst);
        done.store(true, Ordering::SeqCst);
        let _ = wd.join();
        if let Ok(mut g) = PANICS.lock() {
            g.truncate(before); // a panic of the cycle is reported through the probe, not as an endpoint crash
        }
        m.insert("cycle.blocked".into(), format!("{}", blocked.load(Ordering::SeqCst)));
        m.insert("cycle.result".into(), match &res {
            Ok(r) => format!("{:?}", r.errors),
            Err(_) => "panic".into(),
        });
        m.insert("cycle.faulted".into(), format!("{}", self.h.runtime().faulted()));
        for v in ["zq_g", "zq_b", "zq_f", "zq_r", "zq_run", "zq_speed", "x"] {
            m.insert(format!("var.{v}"), format!("{:?}", self.h.get_output(v)));
        }
        m.insert("retain.zq_r".into(), format!("{:?}", self.h.runtime().storage().get_retain("zq_r")));
        let io = self.h.runtime().io();
        m.insert("io.inputs".into(), format!("{:?}", io.inputs()));
        m.insert("io.outputs".into(), format!("{:?}", io.outputs()));
        m.insert("io.memory".into(), format!("{:?}", io.memory()));
        m
    }
}

fn tree_digest(root: &Path) -> String {
    fn walk(p: &Path, rel: String, acc: &mut Vec<(String, String)>) {
        let Ok(rd) = std::fs::read_dir(p) else { return };
        let mut ents: Vec<_> = rd.flatten().collect();
        ents.sort_by_key(|e| e.file_name());
        for e in ents {
            let name = format!("{rel}/{}", e.file_name().to_string_lossy());
            let path = e.path();
            if path.is_dir() {
                walk(&path, name, acc);
            } else {
                let data = std::fs::read(&path).unwrap_or_default();
                acc.push((name, format!("{:x}", Sha256::digest(&data))));
            }
        }
    }
    let mut acc = Vec::new();
    walk(root, String::new(), &mut acc);
    let mut h = Sha256::new();
    for (n, d) in &acc {
        h.update(n.as_bytes());
        h.update(d.as_bytes());
    }
    format!("{}:{:x}", acc.len(), h.finalize())[..24].to_string()
}

// ------------------------------------------------------------------ request lines
/// Text of the request line for a credential.  A script line is a template: `@AUTH@` is
/// replaced by `,"auth":"<token>"` (nothing for the credential `none`), `@CODE@` by a pairing
/// code started for this request, `@ALARM@` by the id of the fixture's active alarm.
fn render(template: &str, cred: &str, code: &str, alarm: &str) -> String {
    let auth = match cred_token(cred) {
        Some(t) => format!(",\"auth\":\"{t}\""),
        None => String::new(),
    };
    template.replace("@AUTH@", &auth).replace("@CODE@", code).replace("@ALARM@", alarm)
}
pub(crate) fn template_of(id: u64, ty: &str, params: Option<&J>) -> String {
    let mut s = format!("{{\"id\":{id},\"type\":{}", J::String(ty.to_string()));
    if let Some(p) = params {
        s.push_str(&format!(",\"params\":{p}"));
    }
    s.push_str("@AUTH@}");
    s
}

fn role_index(name: &str) -> i64 {
    ["viewer", "operator", "engineer", "admin"].iter().position(|r| *r == name).map(|i| i as i64).unwrap_or(-1)
}

/// Classification of a reply by its wording (auxiliary: used for diagnostics and for the
/// monotonicity direction only; every security-relevant verdict rests on ok / result / probes).
pub(crate) fn classify(reply: &Option<J>) -> (String, i64, String) {
    let Some(r) = reply else { return ("none".into(), -1, String::new()) };
    if r["ok"] == json!(true) {
        return ("ok".into(), -1, String::new());
    }
    let err = r["error"].as_str().unwrap_or("").to_string();
    let cls = if err == "unauthorized" {
        "unauthorized"
    } else if err.starts_with("forbidden") {
        "forbidden"
    } else if err == "debug disabled" {
        "debug_disabled"
    } else if err.starts_with("invalid request") {
        "invalid"
    } else if err == "unsupported request" {
        "unsupported"
    } else {
        "error"
    };
    let decl = if cls == "forbidden" { err.rsplit(' ').next().map(role_index).unwrap_or(-1) } else { -1 };
    (cls.into(), decl, err.chars().take(160).collect())
}

// ------------------------------------------------------------------ running one script
struct Runner {
    work: PathBuf,
    fx: Option<(Cfg, Fx)>,
    base: BTreeMap<String, String>,
    rebuilds: usize,
    since_rebuild: usize,
}
impl Runner {
    fn fixture(&mut self, cfg: &Cfg) -> &mut Fx {
        let stale = match &self.fx {
            Some((c, _)) => c != cfg || self.since_rebuild >= 400,
            None => true,
        };
        if stale {
            self.rebuild(cfg);
        }
        &mut self.fx.as_mut().unwrap().1
    }
    fn rebuild(&mut self, cfg: &Cfg) {
        if let Some((_, old)) = self.fx.take() {
            let dir = old.root.parent().map(Path::to_path_buf);
            drop(old);
            if let Some(d) = dir {
                let _ = std::fs::remove_dir_all(d);
            }
        }
        let mut fx = Fx::build(&self.work, cfg);
        let mut b = fx.light();
        b.extend(fx.heavy());
        // the first cycle after construction may still settle forced values: take the fixpoint
        let mut b2 = fx.light();
        b2.extend(fx.heavy());
        if b != b2 {
            b = fx.light();
            b.extend(fx.heavy());
        } else {
            b = b2;
        }
        self.base = b;
        self.fx = Some((cfg.clone(), fx));
        self.rebuilds += 1;
        self.since_rebuild = 0;
    }

    /// Sends one request under one credential and returns the recorded event.
    fn request(&mut self, cfg: &Cfg, sc: &J, cred: &str) -> J {
        self.fixture(cfg);
        self.since_rebuild += 1;
        let template = sc["line"].as_str().unwrap();
        let before = self.base.clone();
        let fx = &mut self.fx.as_mut().unwrap().1;
        let code = if template.contains("@CODE@") { fx.pairing.start_pairing().code } else { String::new() };
        let alarm = fx.alarm_id.clone();
        let line = render(template, cred, &code, &alarm);
        let p0 = panic_count();
        let via_http = sc["http"] == json!(true);
        let answer = if via_http { fx.ask_http(&line, cred_token(cred).as_deref(), cfg.token) } else { fx.ask(&line) };
        let hang: Vec<String> = match &answer {
            Answer::Hang(h) => h.clone(),
            _ => vec![],
        };
        // a panicking server thread closes the connection; give its hook a moment
        if matches!(answer, Answer::Closed) {
            std::thread::sleep(StdDuration::from_millis(30));
        }
        let raw = answer.line();
        let panics: Vec<String> = PANICS.lock().map(|g| g[p0.min(g.len())..].to_vec()).unwrap_or_default();
        let reply: Option<J> = raw.as_deref().and_then(|t| serde_json::from_str(t).ok());
        let (cls, decl, err) = classify(&reply);
        let ok = reply.as_ref().map(|r| r["ok"] == json!(true)).unwrap_or(false);
        let has_result = reply.as_ref().map(|r| r.get("result").map(|x| !x.is_null()).unwrap_or(false)).unwrap_or(false);
        let leaked: Vec<&str> = match &raw {
            Some(t) => SENTINELS.iter().copied().filter(|s| t.contains(s) && !line.contains(s)).collect(),
            None => vec![],
        };
        // probes: cheap ones first; the runtime cycle runs only while the debugger state is untouched
        // (a wedged endpoint holds one of the locks the probes need: nothing can be observed then)
        let mut after = if hang.is_empty() { fx.light() } else { before.clone() };
        let mut changed: Vec<String> = after.iter().filter(|(k, v)| before.get(*k) != Some(*v)).map(|(k, _)| k.clone()).collect();
        // pairing code started by this request?
        if let Some(c) = reply.as_ref().and_then(|r| r["result"]["code"].as_str()) {
            if fx.pairing.claim(c, None).is_some() {
                changed.push("pairing.pending".into());
            }
        }
        if changed.is_empty() && panics.is_empty() && raw.is_some() {
            let hv = fx.heavy();
            for (k, v) in &hv {
                if before.get(k) != Some(v) {
                    changed.push(k.clone());
                }
            }
            after.extend(hv);
        }
        changed.sort();
        changed.dedup();
        let ev = json!({
            "a": "Req", "k": sc["k"], "t": sc["t"], "wf": sc["wf"], "c": cred, "cred": cred_json(cred), "via": if via_http { "http" } else { "socket" },
            "reply": raw.is_some(), "json": reply.is_some() || raw.is_none(), "ok": ok,
            "hasData": has_result || !leaked.is_empty(), "leaked": leaked,
            "changed": changed, "panic": !panics.is_empty() || (raw.is_none() && hang.is_empty()), "panicMsg": panics.first().cloned().unwrap_or_default(),
            "hang": !hang.is_empty(), "held": hang,
            "cls": cls, "decl": decl, "err": err,
        });
        if !changed.is_empty() || !panics.is_empty() || raw.is_none() {
            self.rebuild(cfg);
        } else {
            self.base = after;
        }
        ev
    }
}

// ------------------------------------------------------------------ run (parent / child)
const EXIT_RESTART: i32 = 75;

pub fn run(args: &[String]) -> i32 {
    if args.iter().any(|a| a == "--child") {
        return child(args);
    }
    let scripts_path = arg(args, "--scripts").expect("--scripts");
    let out_path = arg(args, "--out").expect("--out");
    let work = arg(args, "--work").map(PathBuf::from).unwrap_or_else(|| PathBuf::from(format!("{out_path}.work")));
    std::fs::create_dir_all(&work).expect("work dir");
    let scripts = read_ndjson(scripts_path);
    let raw_path = format!("{out_path}.raw");
    let _ = std::fs::remove_file(&raw_path);
    let exe = crate::util::self_exe();
    let (mut si, mut ci) = (0usize, 0usize);
    let mut aborts = 0usize;
    let mut spawns = 0usize;
    loop {
        spawns += 1;
        if spawns > scripts.len() + 50 {
            eprintln!("ctrlauth-run: too many child restarts");
            return 2;
        }
        let status = std::process::Command::new(&exe)
            .args(["ctrlauth-run", "--child", "--scripts", scripts_path, "--raw", &raw_path, "--work"])
            .arg(&work)
            .args(["--from", &si.to_string(), "--sub", &ci.to_string()])
            .status()
            .expect("spawn child");
        // where did it get to?
        let rows = if Path::new(&raw_path).exists() { read_ndjson(&raw_path) } else { vec![] };
        let last = rows.last().cloned().unwrap_or(J::Null);
        let code = status.code();
        if code == Some(0) {
            break;
        }
        if code == Some(3) || code == Some(2) {
            eprintln!("ctrlauth-run: child reported a harness error");
            return 2;
        }
        if code == Some(EXIT_RESTART) {
            // voluntary restart: resume after the last completed request
            let (s, c) = (last["si"].as_u64().unwrap_or(0) as usize, last["ci"].as_u64().unwrap_or(0) as usize);
            (si, ci) = (s, c + 1);
            continue;
        }
        // killed / aborted: the request announced by the last Begin marker took the process down
        if last["a"] != "Begin" {
            eprintln!("ctrlauth-run: child died ({status}) outside a request");
            return 2;
        }
        aborts += 1;
        let (s, c) = (last["si"].as_u64().unwrap() as usize, last["ci"].as_u64().unwrap() as usize);
        let sc = &scripts[s];
        let cred = sc["creds"][c].as_str().unwrap();
        let ev = json!({"a": "Req", "si": s, "ci": c, "k": sc["k"], "t": sc["t"], "wf": sc["wf"], "c": cred, "cred": cred_json(cred),
            "reply": false, "json": true, "ok": false, "hasData": false, "leaked": [], "changed": [], "panic": true, "hang": false, "held": [],
            "panicMsg": format!("process terminated: {status}"), "cls": "none", "decl": -1, "err": ""});
        let mut f = std::fs::OpenOptions::new().append(true).open(&raw_path).unwrap();
        writeln!(f, "{ev}").unwrap();
        (si, ci) = (s, c + 1);
    }
    // assemble the trace: Reset (with the number of events of the run) + its Req events
    let rows = read_ndjson(&raw_path);
    let mut per: BTreeMap<usize, Vec<J>> = BTreeMap::new();
    for r in rows {
        if r["a"] == "Req" {
            per.entry(r["si"].as_u64().unwrap() as usize).or_default().push(r);
        }
    }
    let mut o = Out::create(out_path);
    let mut nev = 0usize;
    for (i, sc) in scripts.iter().enumerate() {
        let evs = per.remove(&i).unwrap_or_default();
        if evs.len() != sc["creds"].as_array().unwrap().len() {
            eprintln!("ctrlauth-run: script {i} has {} events for {} credentials", evs.len(), sc["creds"].as_array().unwrap().len());
            return 2;
        }
        o.line(&json!({"a": "Reset", "cfg": sc["cfg"], "k": sc["k"], "t": sc["t"], "wf": sc["wf"], "n": evs.len(), "from": sc["from"], "si": i}));
        for e in evs {
            o.line(&e);
            nev += 1;
        }
    }
    o.flush();
    let _ = std::fs::remove_dir_all(&work);
    eprintln!("ctrlauth-run: {} scripts, {} requests, {} process aborts, {} child processes", scripts.len(), nev, aborts, spawns);
    0
}

fn child(args: &[String]) -> i32 {
    install_panic_hook();
    unsafe {
        // an allocation request of absurd size must fail (and abort this child), not take the machine down
        let lim = libc::rlimit { rlim_cur: 12 << 30, rlim_max: 12 << 30 };
        libc::setrlimit(libc::RLIMIT_AS, &lim);
        let core = libc::rlimit { rlim_cur: 0, rlim_max: 0 };
        libc::setrlimit(libc::RLIMIT_CORE, &core);
    }
    let scripts = read_ndjson(arg(args, "--scripts").expect("--scripts"));
    let raw_path = arg(args, "--raw").expect("--raw");
    let work = PathBuf::from(arg(args, "--work").expect("--work"));
    let from = arg_u64(args, "--from", 0) as usize;
    let sub = arg_u64(args, "--sub", 0) as usize;
    let mut raw = std::fs::OpenOptions::new().create(true).append(true).open(raw_path).expect("raw file");
    let mut rn = Runner { work, fx: None, base: BTreeMap::new(), rebuilds: 0, since_rebuild: 0 };
    for (si, sc) in scripts.iter().enumerate().skip(from) {
        let cfg = Cfg::from(&sc["cfg"]);
        let creds = sc["creds"].as_array().unwrap();
        for (ci, c) in creds.iter().enumerate() {
            if si == from && ci < sub {
                continue;
            }
            writeln!(raw, "{}", json!({"a": "Begin", "si": si, "ci": ci})).unwrap();
            raw.flush().unwrap();
            let mut ev = rn.request(&cfg, sc, c.as_str().unwrap());
            ev["si"] = json!(si);
            ev["ci"] = json!(ci);
            writeln!(raw, "{ev}").unwrap();
            raw.flush().unwrap();
            // every rebuilt fixture leaves a listener thread behind, every web server a listener and its pool of
            // worker threads (a web server cannot be shut down): start over in a fresh process now and then
            if rn.rebuilds >= 250 || WEB_STARTS.load(Ordering::SeqCst) >= 25 {
                return EXIT_RESTART;
            }
        }
    }
    0
}

// ------------------------------------------------------------------ generation
/// Minimal valid parameters per request type (several variants where the effect differs).
fn param_table() -> Vec<(&'static str, Vec<Option<J>>)> {
    let desc = json!({"descriptor": {"config": {"version": 1}, "pages": []}});
    vec![
        ("status", vec![None]),
        ("health", vec![None]),
        ("tasks.stats", vec![None]),
        ("events.tail", vec![Some(json!({"limit": 5}))]),
        ("events", vec![None]),
        ("faults", vec![Some(json!({"limit": 5}))]),
        ("config.get", vec![None]),
        ("config.set", vec![
            Some(json!({})),
            Some(json!({"log.level": "debug"})),
            Some(json!({"watchdog.enabled": true, "watchdog.timeout_ms": 250})),
            Some(json!({"fault.policy": "halt"})),
            Some(json!({"retain.mode": "none", "retain.save_interval_ms": 1000})),
            Some(json!({"control.debug_enabled": true})),
            Some(json!({"control.debug_enabled": false})),
            Some(json!({"control.auth_token": "zq-new-token"})),
            Some(json!({"control.auth_token": null})),
            Some(json!({"control.mode": "production"})),
            Some(json!({"control.mode": "debug"})),
            Some(json!({"web.auth": "local"})),
            Some(json!({"web.enabled": false, "web.listen": "127.0.0.1:1", "web.tls": true})),
            Some(json!({"mesh.auth_token": "zq-mesh"})),
            Some(json!({"mesh.enabled": true, "mesh.publish": ["a"], "mesh.subscribe": {"a": "b"}})),
            Some(json!({"discovery.enabled": true, "discovery.service_name": "n", "discovery.advertise": true, "discovery.interfaces": ["lo"]})),
        ]),
        ("io.list", vec![None]),
        ("io.read", vec![None]),
        ("io.write", vec![Some(json!({"address": "%IX0.0", "value": "TRUE"})), Some(json!({"address": "%IB1", "value": "7"}))]),
        ("io.force", vec![Some(json!({"address": "%IX0.1", "value": "TRUE"}))]),
        ("io.unforce", vec![Some(json!({"address": "%IX0.2"}))]),
        ("hmi.schema.get", vec![None]),
        ("hmi.values.get", vec![None, Some(json!({"ids": []}))]),
        ("hmi.trends.get", vec![Some(json!({"duration_ms": 60000, "buckets": 24}))]),
        ("hmi.alarms.get", vec![Some(json!({"limit": 10}))]),
        ("hmi.alarm.ack", vec![Some(json!({"id": "@ALARM@"}))]),
        ("hmi.descriptor.get", vec![None]),
        ("hmi.descriptor.update", vec![Some(desc)]),
        ("hmi.scaffold.reset", vec![Some(json!({"mode": "reset"})), Some(json!({"mode": "update", "style": "industrial"}))]),
        ("hmi.write", vec![
            Some(json!({"id": format!("resource/{RES}/program/Main/field/zq_run"), "value": false})),
            Some(json!({"path": "Main.zq_run", "value": false})),
        ]),
        ("historian.query", vec![Some(json!({"limit": 5}))]),
        ("historian.alerts", vec![Some(json!({"limit": 5}))]),
        ("pause", vec![None]),
        ("resume", vec![None]),
        ("step_in", vec![None]),
        ("step_over", vec![None]),
        ("step_out", vec![None]),
        ("debug.state", vec![None]),
        ("debug.stops", vec![None]),
        ("debug.stack", vec![None]),
        ("debug.scopes", vec![Some(json!({"frame_id": 0}))]),
        ("debug.variables", vec![Some(json!({"variables_reference": 1}))]),
        ("debug.evaluate", vec![Some(json!({"expression": "zq_g + 1"}))]),
        ("debug.breakpoint_locations", vec![Some(json!({"source": "main.st", "line": 1, "end_line": 40}))]),
        ("breakpoints.set", vec![Some(json!({"source": "main.st", "lines": [BP_LINE_B]}))]),
        ("breakpoints.clear", vec![Some(json!({"source": "main.st", "lines": []}))]),
        ("breakpoints.list", vec![None]),
        ("breakpoints.clear_all", vec![None]),
        ("breakpoints.clear_id", vec![Some(json!({"file_id": "@FILE@"}))]),
        ("eval", vec![Some(json!({"expr": "zq_g"}))]),
        ("set", vec![Some(json!({"target": "global:zq_g", "value": "5"})), Some(json!({"target": "retain:zq_r", "value": "6"}))]),
        ("var.force", vec![Some(json!({"target": "global:zq_g", "value": "7"})), Some(json!({"target": "retain:zq_r", "value": "8"}))]),
        ("var.unforce", vec![Some(json!({"target": "global:zq_f"}))]),
        ("var.forced", vec![None]),
        ("shutdown", vec![None]),
        ("restart", vec![Some(json!({"mode": "warm"})), Some(json!({"mode": "cold"}))]),
        ("bytecode.reload", vec![Some(json!({"bytes": "AAAA"}))]),
        ("pair.start", vec![None]),
        ("pair.claim", vec![Some(json!({"code": "@CODE@", "role": "viewer"})), Some(json!({"code": "@CODE@"}))]),
        ("pair.list", vec![None]),
        ("pair.revoke", vec![Some(json!({"id": "pair-o"})), Some(json!({"id": "all"}))]),
    ]
}

fn scan_literals(src: &str) -> BTreeSet<String> {
    let mut cands = BTreeSet::new();
    let mut files = vec![PathBuf::from(src).join("control.rs")];
    for dir in [PathBuf::from(src).join("control"), PathBuf::from(src).join("control").join("handlers")] {
        if let Ok(rd) = std::fs::read_dir(&dir) {
            for e in rd.flatten() {
                if e.path().extension().map(|x| x == "rs").unwrap_or(false) {
                    files.push(e.path());
                }
            }
        }
    }
    files.sort();
    for f in files {
        let Ok(text) = std::fs::read_to_string(&f) else { continue };
        let mut rest = text.as_str();
        while let Some(i) = rest.find('"') {
            let t = &rest[i + 1..];
            let Some(j) = t.find('"') else { break };
            let lit = &t[..j];
            if !lit.is_empty() && lit.len() < 48 && lit.chars().all(|c| c.is_ascii_lowercase() || c.is_ascii_digit() || c == '.' || c == '_' || c == '-') {
                cands.insert(lit.to_string());
            }
            rest = &t[j + 1..];
        }
    }
    cands
}

fn strip_id(reply: &Option<String>) -> String {
    match reply.as_deref().and_then(|t| serde_json::from_str::<J>(t).ok()) {
        Some(mut j) => {
            if let Some(o) = j.as_object_mut() {
                o.remove("id");
            }
            j.to_string()
        }
        None => "<none>".into(),
    }
}

/// Request types the real dispatcher acknowledges: a candidate is acknowledged when the
/// endpoint answers it, under some credential, differently from a type that certainly does
/// not exist (asked under the same credential).  No wording and no particular credential is
/// trusted here, so a dispatcher arm is found even when authentication itself is broken.
fn discover(work: &Path, src: &str) -> (Vec<String>, usize) {
    let cands = scan_literals(src);
    if cands.len() < 20 {
        eprintln!("ctrlauth-gen: only {} candidate literals under {src}", cands.len());
        std::process::exit(2);
    }
    let cfg = Cfg { token: true, debug: true, mode: "debug".into() };
    let probe_creds = ["admin", "pa", "pe", "po", "pv", "none", "wrong"];
    let mut known = Vec::new();
    let mut fx = Fx::build(work, &cfg);
    let mut n = 0usize;
    for c in &cands {
        n += 1;
        if n % 40 == 0 {
            fx = Fx::build(work, &cfg);
        }
        let mut ack = false;
        for cred in probe_creds {
            let unknown = strip_id(&fx.ask(&render(&template_of(1, "zq.no.such.request", None), cred, "", "")).line());
            let got = strip_id(&fx.ask(&render(&template_of(1, c, None), cred, "", "")).line());
            if got != unknown {
                ack = true;
                break;
            }
        }
        if ack {
            known.push(c.clone());
            // acknowledged types do change state (shutdown, pause ...): continue on a fresh endpoint
            fx = Fx::build(work, &cfg);
        }
    }
    (known, cands.len())
}

fn subst_file(p: &J, file_id: u32) -> J {
    let t = p.to_string().replace("\"@FILE@\"", &file_id.to_string());
    serde_json::from_str(&t).unwrap()
}

pub fn gen(args: &[String]) -> i32 {
    install_panic_hook();
    let seed = arg_u64(args, "--seed", 1);
    let runs = arg_u64(args, "--runs", 0) as usize;
    let out = arg(args, "--out").expect("--out");
    let src = arg(args, "--src").unwrap_or("/repo/crates/trust-runtime/src");
    let enumerate = args.iter().any(|a| a == "--enumerate");
    let work = arg(args, "--work").map(PathBuf::from).unwrap_or_else(|| PathBuf::from(format!("{out}.work")));
    std::fs::create_dir_all(&work).expect("work dir");
    if let Some(t) = arg(args, "--dump") {
        // development aid: show the admin reply to one request type
        let cfg = Cfg { token: true, debug: true, mode: "debug".into() };
        let mut fx = Fx::build(&work, &cfg);
        eprintln!("alarm id = {:?}", fx.alarm_id);
        let p = arg(args, "--params").map(|p| serde_json::from_str::<J>(p).expect("--params"));
        println!("{}", fx.ask(&render(&template_of(1, t, p.as_ref()), "admin", "", "")).line().unwrap_or_default());
        return 0;
    }
    let (known, ncand) = discover(&work, src);
    let probe_cfg = Cfg { token: true, debug: true, mode: "debug".into() };
    let file_id = Fx::build(&work, &probe_cfg).file_id;
    let table = param_table();
    // parameter variants per acknowledged type; a type the table does not know (a handler added
    // or renamed on one side only) borrows every known parameter set that makes it succeed
    let mut variants: Vec<(String, Vec<Option<J>>)> = Vec::new();
    let mut borrowed = Vec::new();
    for t in &known {
        if let Some((_, v)) = table.iter().find(|(n, _)| n == t) {
            variants.push((t.clone(), v.iter().map(|p| p.as_ref().map(|p| subst_file(p, file_id))).collect()));
            continue;
        }
        let mut found: Vec<Option<J>> = vec![None];
        let mut seen = BTreeSet::new();
        for (_, vs) in &table {
            for p in vs.iter().flatten() {
                let p = subst_file(p, file_id);
                if !seen.insert(p.to_string()) {
                    continue;
                }
                let mut fx = Fx::build(&work, &probe_cfg);
                let code = if p.to_string().contains("@CODE@") { fx.pairing.start_pairing().code } else { String::new() };
                let alarm = fx.alarm_id.clone();
                let r = fx.ask(&render(&template_of(1, t, Some(&p)), "admin", &code, &alarm)).line();
                if r.as_deref().and_then(|x| serde_json::from_str::<J>(x).ok()).map(|j| j["ok"] == json!(true)).unwrap_or(false) {
                    found.push(Some(p));
                }
            }
        }
        borrowed.push(t.clone());
        variants.push((t.clone(), found));
    }
    let mut o = Out::create(out);
    let mut count = 0usize;
    let creds: Vec<&str> = CREDS.to_vec();
    if enumerate {
        for cfg in all_cfgs() {
            let mut id = 100u64;
            for (t, vs) in &variants {
                for (vi, p) in vs.iter().enumerate() {
                    id += 1;
                    o.line(&json!({"cfg": cfg.json(), "k": format!("{t}#{vi}"), "t": t, "wf": "yes", "line": template_of(id, t, p.as_ref()),
                                   "creds": creds, "from": "enum"}));
                    count += 1;
                }
            }
            // types no dispatcher arm knows, and lines that are not requests at all
            for (i, (k, wf, line)) in fixed_hostile().into_iter().enumerate() {
                o.line(&json!({"cfg": cfg.json(), "k": format!("{k}#{i}"), "t": k, "wf": wf, "line": line, "creds": creds, "from": "enum"}));
                count += 1;
            }
        }
    }
    let mut rng = StdRng::seed_from_u64(seed ^ 0xc18_c0de);
    let cfgs = all_cfgs();
    for n in 0..runs {
        let cfg = cfgs[rng.gen_range(0..cfgs.len())].clone();
        let (k, t, wf, line) = random_line(&mut rng, &variants, n);
        // a random subset of credentials, weakest first, always with the extremes
        let mut cs: Vec<&str> = CREDS.iter().copied().filter(|c| *c == "none" || *c == "pv" || *c == "admin" || rng.gen_bool(0.4)).collect();
        cs.sort_by_key(|c| CREDS.iter().position(|x| x == c).unwrap());
        o.line(&json!({"cfg": cfg.json(), "k": k, "t": t, "wf": wf, "line": line, "creds": cs, "from": "random"}));
        count += 1;
    }
    o.flush();
    let _ = std::fs::remove_dir_all(&work);
    // the inventory goes to stdout for the driver's evidence
    println!("{}", json!({"candidates": ncand, "acknowledged": known, "borrowed_params": borrowed, "scripts": count,
                          "variants": variants.iter().map(|(_, v)| v.len()).sum::<usize>()}));
    0
}

/// Fixed hostile lines of the enumeration: (kind label, well-formedness, template).
fn fixed_hostile() -> Vec<(String, &'static str, String)> {
    let mut v: Vec<(String, &'static str, String)> = vec![
        ("zq.unknown".into(), "yes", template_of(7, "zq.unknown", None)),
        ("".into(), "yes", template_of(7, "", None)),
        ("STATUS".into(), "yes", template_of(7, "STATUS", None)),
        ("shutdown ".into(), "yes", template_of(7, "shutdown ", None)),
        ("io.write\u{0}".into(), "yes", template_of(7, "io.write\u{0}", Some(&json!({"address": "%IX0.0", "value": "TRUE"})))),
        ("<array>".into(), "no", "[1,2,3]".into()),
        ("<number>".into(), "no", "42".into()),
        ("<string>".into(), "no", "\"shutdown\"".into()),
        ("<null>".into(), "no", "null".into()),
        ("<empty>".into(), "no", "".into()),
        ("<blank>".into(), "no", "   ".into()),
        ("<truncated>".into(), "no", "{\"id\":1,\"type\":\"shutdown\"@AUTH@".into()),
        ("<no-type>".into(), "no", "{\"id\":1@AUTH@}".into()),
        ("<type-number>".into(), "no", "{\"id\":1,\"type\":5@AUTH@}".into()),
        ("<type-array>".into(), "no", "{\"id\":1,\"type\":[\"shutdown\"]@AUTH@}".into()),
        ("<binary>".into(), "no", "\u{1}\u{2}{\u{7f}".into()),
        ("<no-id>".into(), "maybe", "{\"type\":\"shutdown\"@AUTH@}".into()),
        ("<id-negative>".into(), "maybe", "{\"id\":-1,\"type\":\"shutdown\"@AUTH@}".into()),
        ("<id-float>".into(), "maybe", "{\"id\":1.5,\"type\":\"shutdown\"@AUTH@}".into()),
        ("<id-string>".into(), "maybe", "{\"id\":\"1\",\"type\":\"shutdown\"@AUTH@}".into()),
        ("<id-huge>".into(), "maybe", "{\"id\":18446744073709551616,\"type\":\"shutdown\"@AUTH@}".into()),
        ("<id-max>".into(), "yes", "{\"id\":18446744073709551615,\"type\":\"restart\",\"params\":{\"mode\":\"warm\"}@AUTH@}".into()),
        ("<extra-field>".into(), "maybe", "{\"id\":1,\"type\":\"shutdown\",\"role\":\"admin\",\"x\":[1]@AUTH@}".into()),
        ("<params-null>".into(), "maybe", "{\"id\":1,\"type\":\"restart\",\"params\":null@AUTH@}".into()),
    ];
    let deep = format!("{}1{}", "[".repeat(3000), "]".repeat(3000));
    v.push(("<deep-json>".into(), "no", format!("{{\"id\":1,\"type\":\"status\",\"params\":{deep}@AUTH@}}")));
    v
}

fn hostile_value(rng: &mut StdRng) -> J {
    match rng.gen_range(0..16) {
        0 => J::Null,
        1 => json!(true),
        2 => json!(0),
        3 => json!(-1),
        4 => json!(18446744073709551615u64),
        5 => json!(4294967296u64),
        6 => json!(1e308),
        7 => json!(""),
        8 => json!("x".repeat(rng.gen_range(1..5000))),
        9 => json!([]),
        10 => json!({}),
        11 => json!([[[[[[[[1]]]]]]]]),
        12 => json!("%IX999999999999.9"),
        13 => json!("global:"),
        14 => json!("\u{0}\u{1f}\u{7f}é☃"),
        _ => json!(2147483648u64),
    }
}
fn hostile_string(rng: &mut StdRng) -> String {
    let pool = [
        "", " ", "TRUE", "-9223372036854775808", "9223372036854775808", "%QX0.0", "%IX0.8", "%IW99999999", "%MD4294967295", "%IX*", "%I", "%",
        "global:zq_g", "retain:zq_r", "instance:0:zq_run", "instance:4294967295:x", "instance:x:y", "global:", "local:x",
        "zq_g", "zq_g +", "1/0", "zq_g / 0", "zq_run AND", "x[99999]", "zq_speed * 1e38 * 1e38", "-(-9223372036854775807 - 1)", "MainT", "Main.zq_run",
        "main.st", "/etc/passwd", "../main.st", "admin", "viewer", "root", "cold", "WARM", "all", "pair-v", "000000",
    ];
    match rng.gen_range(0..10) {
        0 => format!("{}1{}", "(".repeat(rng.gen_range(10..4000)), ")".repeat(rng.gen_range(0..10))),
        1 => "NOT ".repeat(rng.gen_range(10..4000)) + "TRUE",
        2 => "-".repeat(rng.gen_range(10..4000)) + "1",
        3 => "x".repeat(rng.gen_range(1..20000)),
        _ => pool[rng.gen_range(0..pool.len())].to_string(),
    }
}

/// A random request line: a known type with mutated parameters, a mutated type name, or a
/// line that is not a request.
fn random_line(rng: &mut StdRng, variants: &[(String, Vec<Option<J>>)], n: usize) -> (String, String, &'static str, String) {
    let id = rng.gen_range(0..1_000_000u64);
    let (t, vs) = &variants[rng.gen_range(0..variants.len())];
    let base = vs[rng.gen_range(0..vs.len())].clone();
    let label = |s: &str| format!("{s}~r{n}");
    match rng.gen_range(0..20) {
        0 => {
            // garbage
            let g = ["{", "}", "{\"id\":", "[", "nul", "{\"id\":1,\"type\":\"status\",}", "{'id':1,'type':'status'}", "\u{feff}{\"id\":1,\"type\":\"status\"}x", "{\"id\":1,\"type\":\"status\"}}"];
            let s = g[rng.gen_range(0..g.len())].to_string();
            (label("<garbage>"), "<garbage>".into(), "no", s)
        }
        1 => {
            // type name mutated
            let mut name = t.clone();
            match rng.gen_range(0..4) {
                0 => name = name.to_uppercase(),
                1 => name.push(' '),
                2 => name = name.replace('.', "_"),
                _ => name = format!("{name}.x"),
            }
            (label(&name), name.clone(), "yes", template_of(id, &name, base.as_ref()))
        }
        2 => {
            // params of another shape altogether
            let p = hostile_value(rng);
            (label(t), t.clone(), "yes", template_of(id, t, Some(&p)))
        }
        _ => {
            // field-wise mutation of valid params
            let mut p = base.unwrap_or_else(|| json!({}));
            if let Some(o) = p.as_object_mut() {
                let keys: Vec<String> = o.keys().cloned().collect();
                for k in &keys {
                    match rng.gen_range(0..6) {
                        0 => {
                            o.remove(k);
                        }
                        1 | 2 => {
                            o.insert(k.clone(), hostile_value(rng));
                        }
                        3 | 4 => {
                            if o[k].is_string() {
                                o.insert(k.clone(), json!(hostile_string(rng)));
                            } else if o[k].is_number() {
                                let nums = [json!(0), json!(1), json!(4294967295u64), json!(4294967296u64), json!(18446744073709551615u64), json!(-1), json!(0.5)];
                                o.insert(k.clone(), nums[rng.gen_range(0..nums.len())].clone());
                            } else if o[k].is_array() {
                                let n = rng.gen_range(0..2000);
                                o.insert(k.clone(), json!((0..n).map(|i| if i % 7 == 0 { 0u32 } else { u32::MAX - i as u32 }).collect::<Vec<u32>>()));
                            }
                        }
                        _ => {}
                    }
                }
                if rng.gen_bool(0.15) {
                    o.insert(hostile_string(rng), hostile_value(rng));
                }
                if keys.is_empty() && rng.gen_bool(0.5) {
                    for k in ["limit", "ids", "id", "mode", "frame_id", "buckets", "duration_ms", "since_ms"].choose_multiple(rng, 2) {
                        o.insert(k.to_string(), hostile_value(rng));
                    }
                }
            }
            (label(t), t.clone(), "yes", template_of(id, t, Some(&p)))
        }
    }
}

