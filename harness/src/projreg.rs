//! SourceRegistry domain (C13 at the path-keyed front, trust-hir project.rs): histories of
//! set / remove over a handful of source keys on a real `Project`.  After every step the whole
//! observable registry is recorded: for every key its FileId (if any), whether the key -> id -> key
//! round trip closes, the text the Database holds under that id, and whether the diagnostics of that
//! file equal those of a brand-new Database loaded with the same (id, text) pairs.
use crate::util::*;
use rand::{rngs::StdRng, Rng, SeedableRng};
use serde_json::{json, Value as J};
use trust_hir::db::{Database, FileId, SemanticDatabase, SourceDatabase};
use trust_hir::project::{Project, SourceKey};

const NKEYS: usize = 6;
fn key(k: usize) -> SourceKey {
    SourceKey::from_virtual(format!("zq/file{k}.st"))
}
/// Text number t for key k: a small unit that exports a function and calls the neighbours' functions, so that
/// a file that reports another file's text also changes everybody's diagnostics.
fn text_of(k: usize, t: usize) -> String {
    let other = (k % NKEYS) + 1;
    match t {
        1 => format!("FUNCTION F{k} : INT\nVAR_INPUT x : INT; END_VAR\nF{k} := x + INT#{k};\nEND_FUNCTION\n"),
        2 => format!("FUNCTION F{k} : INT\nVAR_INPUT x : INT; END_VAR\nF{k} := F{other}(x := x) + INT#{k};\nEND_FUNCTION\n"),
        _ => format!("PROGRAM P{k}\nVAR y : INT; END_VAR\ny := F{k}(x := y) + F{other}(x := INT#1);\nEND_PROGRAM\nFUNCTION F{k} : INT\nVAR_INPUT x : INT; END_VAR\nF{k} := x;\nEND_FUNCTION\n"),
    }
}

pub fn run(args: &[String]) -> i32 {
    let seed = arg_u64(args, "--seed", 1);
    let runs = arg_u64(args, "--runs", 300) as usize;
    let mut o = Out::create(arg(args, "--out").expect("--out"));
    let mut rng = StdRng::seed_from_u64(seed ^ 0x9207);
    std::panic::set_hook(Box::new(|_| {}));
    for r in 0..runs {
        o.line(&json!({"a": "Reset", "run": r}));
        let mut p = Project::new();
        let mut model: Vec<usize> = vec![0; NKEYS + 1]; // text number per key, 0 = absent
        let steps = rng.gen_range(4..30);
        for _ in 0..steps {
            let k = rng.gen_range(1..=NKEYS);
            let ev = if model[k] != 0 && rng.gen_bool(0.35) {
                let got = std::panic::catch_unwind(std::panic::AssertUnwindSafe(|| p.remove_source(&key(k))));
                model[k] = 0;
                match got {
                    Ok(id) => json!({"a": "Remove", "k": k, "hadId": id.is_some(), "id": id.map_or(-1, |i| i.0 as i64), "panic": false}),
                    Err(_) => json!({"a": "Remove", "k": k, "hadId": false, "id": -1, "panic": true}),
                }
            } else {
                let t = rng.gen_range(1..=3usize);
                let got = std::panic::catch_unwind(std::panic::AssertUnwindSafe(|| p.set_source_text(key(k), text_of(k, t))));
                model[k] = t;
                match got {
                    Ok(id) => json!({"a": "Set", "k": k, "t": t, "id": id.0 as i64, "panic": false}),
                    Err(_) => json!({"a": "Set", "k": k, "t": t, "id": -1, "panic": true}),
                }
            };
            // the observable registry after the step
            let mut fresh = Database::default();
            let mut live: Vec<(usize, FileId)> = Vec::new();
            for q in 1..=NKEYS {
                if let Some(id) = p.file_id_for_key(&key(q)) {
                    live.push((q, id));
                }
            }
            for (q, id) in &live {
                if model[*q] != 0 {
                    fresh.set_source_text(*id, text_of(*q, model[*q]));
                }
            }
            let mut obs = Vec::new();
            for q in 1..=NKEYS {
                let id = p.file_id_for_key(&key(q));
                let (mut back, mut text_no, mut diags_ok) = (true, 0usize, true);
                if let Some(id) = id {
                    back = p.key_for_file_id(id) == Some(&key(q));
                    let text = p.database().source_text(id);
                    text_no = (1..=3).find(|t| *text == text_of(q, *t)).unwrap_or(9);
                    let inc = std::panic::catch_unwind(std::panic::AssertUnwindSafe(|| format!("{:?}", p.database().diagnostics(id))));
                    let frs = std::panic::catch_unwind(std::panic::AssertUnwindSafe(|| format!("{:?}", fresh.diagnostics(id))));
                    diags_ok = matches!((&inc, &frs), (Ok(a), Ok(b)) if a == b);
                }
                obs.push(json!({"k": q, "live": id.is_some(), "id": id.map_or(-1, |i| i.0 as i64), "back": back, "text": text_no, "diagsOk": diags_ok}));
            }
            let mut ev = ev;
            ev["obs"] = J::Array(obs);
            o.line(&ev);
        }
    }
    o.flush();
    0
}
