//! RetainFile domain (C10): crash-atomic save and lossless codec of the retain file.
//!
//! `retain-child store|loadmany` — the code under test in a child process (run under the
//!     LD_PRELOAD syscall shim for `store`, under an address-space limit for `loadmany`).
//! `retain-run` — orchestrator: observes the syscall protocol of an uninterrupted
//!     `FileRetainStore::store`, then kills the child at every step (and inside every write
//!     after several byte counts) and records what `FileRetainStore::load` returns; plus
//!     codec round trips and structured corruptions of the STRN image.
use crate::util::*;
use rand::{rngs::StdRng, Rng, SeedableRng};
use serde_json::{json, Value as J};
use std::path::{Path, PathBuf};
use std::process::Command;
use trust_runtime::retain::{FileRetainStore, RetainStore};
use trust_runtime::value::{ArrayValue, DateTimeValue, DateValue, Duration, EnumValue, StructValue, TimeOfDayValue, Value};
use trust_runtime::RetainSnapshot;

fn scalar(rng: &mut StdRng) -> Value {
    match rng.gen_range(0..29) {
        0 => Value::Bool(rng.gen()),
        1 => Value::SInt([i8::MIN, -1, 0, 1, i8::MAX][rng.gen_range(0..5)]),
        2 => Value::Int([i16::MIN, -1, 0, 7, i16::MAX][rng.gen_range(0..5)]),
        3 => Value::DInt([i32::MIN, -1, 0, 123456, i32::MAX][rng.gen_range(0..5)]),
        4 => Value::LInt([i64::MIN, -1, 0, 1 << 40, i64::MAX][rng.gen_range(0..5)]),
        5 => Value::USInt([0, 1, u8::MAX][rng.gen_range(0..3)]),
        6 => Value::UInt([0, 1, u16::MAX][rng.gen_range(0..3)]),
        7 => Value::UDInt([0, 1, u32::MAX][rng.gen_range(0..3)]),
        8 => Value::ULInt([0, 1, u64::MAX][rng.gen_range(0..3)]),
        9 => Value::Real([0.0, -1.5, f32::MAX, f32::MIN_POSITIVE, f32::INFINITY][rng.gen_range(0..5)]),
        10 => Value::LReal([0.0, 2.25, f64::MAX, f64::MIN_POSITIVE, f64::NEG_INFINITY][rng.gen_range(0..5)]),
        11 => Value::Byte(rng.gen()),
        12 => Value::Word(rng.gen()),
        13 => Value::DWord(rng.gen()),
        14 => Value::LWord(rng.gen()),
        15 => Value::Time(Duration::from_nanos([i64::MIN, -5, 0, 1_000_000, i64::MAX][rng.gen_range(0..5)])),
        16 => Value::LTime(Duration::from_nanos(rng.gen())),
        17 => Value::Date(DateValue::new(rng.gen_range(0..1 << 40))),
        18 => Value::Tod(TimeOfDayValue::new(rng.gen_range(0..86_400_000))),
        19 => Value::Dt(DateTimeValue::new(rng.gen_range(0..1 << 40))),
        20 => Value::String(["", "a", "pump-7", "äöü €", &"x".repeat(200)][rng.gen_range(0..5)].into()),
        21 => Value::WString(["", "wide 漢字 😀", "w"][rng.gen_range(0..3)].to_string()),
        22 => Value::Char(rng.gen()),
        23 => Value::WChar(rng.gen()),
        24 => Value::LDate(trust_runtime::value::LDateValue::new(rng.gen())),
        25 => Value::LTod(trust_runtime::value::LTimeOfDayValue::new(rng.gen())),
        26 => Value::Ldt(trust_runtime::value::LDateTimeValue::new(rng.gen())),
        27 => Value::Null,
        _ => Value::Enum(EnumValue { type_name: "Color".into(), variant_name: ["Red", "Green", ""][rng.gen_range(0..3)].into(), numeric_value: rng.gen_range(-2..3) }),
    }
}
fn value(rng: &mut StdRng, depth: u32) -> Value {
    if depth > 0 && rng.gen_bool(0.3) {
        if rng.gen_bool(0.5) {
            let n = rng.gen_range(0..5);
            let lower = rng.gen_range(-2..3i64);
            Value::Array(ArrayValue { elements: (0..n).map(|_| value(rng, depth - 1)).collect(), dimensions: vec![(lower, lower + n as i64 - 1)] })
        } else {
            let mut fields = indexmap::IndexMap::new();
            for k in 0..rng.gen_range(0..4) {
                fields.insert(format!("f{k}").into(), value(rng, depth - 1));
            }
            Value::Struct(StructValue { type_name: "Rec".into(), fields })
        }
    } else {
        scalar(rng)
    }
}
pub fn snapshot(seed: u64, id: u64) -> RetainSnapshot {
    let mut rng = StdRng::seed_from_u64(seed.wrapping_mul(0x9E37_79B9).wrapping_add(id));
    let mut s = RetainSnapshot::default();
    // the id makes any two snapshots of a run distinguishable
    s.insert("snapshot_id", Value::ULInt(id));
    for k in 0..rng.gen_range(1..9) {
        s.insert(format!("v{k}"), value(&mut rng, 2));
    }
    if id % 5 == 0 {
        s.insert("blob", Value::String("z".repeat(9000).into())); // larger than one stdio buffer
    }
    s
}

pub fn child(args: &[String]) -> i32 {
    match args.first().map(String::as_str) {
        Some("store") => {
            let (path, seed, id) = (&args[1], args[2].parse().unwrap(), args[3].parse().unwrap());
            match FileRetainStore::new(path).store(&snapshot(seed, id)) {
                Ok(()) => 0,
                Err(e) => {
                    eprintln!("store error: {e}");
                    3
                }
            }
        }
        Some("loadmany") => {
            unsafe {
                let lim = libc::rlimit { rlim_cur: 1 << 30, rlim_max: 1 << 30 };
                libc::setrlimit(libc::RLIMIT_AS, &lim);
            }
            let dir = Path::new(&args[1]);
            let start: usize = args[2].parse().unwrap();
            let n: usize = args[3].parse().unwrap();
            for i in start..n {
                let p = dir.join(format!("m{i}.bin"));
                println!("BEGIN {i}");
                let r = std::panic::catch_unwind(|| FileRetainStore::new(&p).load());
                match r {
                    Ok(Ok(_)) => println!("END {i} ok"),
                    Ok(Err(_)) => println!("END {i} err"),
                    Err(_) => println!("END {i} panic"),
                }
            }
            0
        }
        _ => 2,
    }
}

/// Tag byte of an array value in the STRN image (found by encoding one; a struct is the next tag).
fn seed_array_tag() -> u8 {
    let mut snap = RetainSnapshot::default();
    snap.insert("v", Value::Array(ArrayValue { elements: vec![Value::Bool(true)], dimensions: vec![] }));
    let p = std::env::temp_dir().join(format!("tpv-tag-{}.bin", std::process::id()));
    FileRetainStore::new(&p).store(&snap).unwrap();
    let b = std::fs::read(&p).unwrap();
    let _ = std::fs::remove_file(&p);
    b[6 + 4 + 4 + 1]
}

fn classify(path: &Path, old: Option<&RetainSnapshot>, new: &RetainSnapshot) -> (String, String) {
    match FileRetainStore::new(path).load() {
        Ok(s) => {
            if &s == new {
                ("new".into(), String::new())
            } else if old.map_or(s.values().is_empty(), |o| &s == o) {
                ("old".into(), String::new())
            } else if s.values().is_empty() {
                ("empty".into(), String::new())
            } else {
                ("other".into(), format!("{} values", s.values().len()))
            }
        }
        Err(e) => ("err".into(), e.to_string()),
    }
}

fn reset_dir(dir: &Path, path: &Path, old: Option<&RetainSnapshot>) {
    let _ = std::fs::remove_dir_all(dir);
    std::fs::create_dir_all(dir).unwrap();
    if let Some(o) = old {
        FileRetainStore::new(path).store(o).expect("store old snapshot");
    }
}

fn run_child_store(shim: &str, dir: &Path, path: &Path, seed: u64, id: u64, log: &Path, kill: Option<(u64, u64)>) -> Option<i32> {
    let _ = std::fs::remove_file(log);
    let exe = crate::util::self_exe();
    let mut c = Command::new(exe);
    c.args(["retain-child", "store", path.to_str().unwrap(), &seed.to_string(), &id.to_string()])
        .env("LD_PRELOAD", shim)
        .env("TPV_WATCH", dir.to_str().unwrap())
        .env("TPV_LOG", log.to_str().unwrap());
    if let Some((at, partial)) = kill {
        c.env("TPV_KILL_AT", at.to_string()).env("TPV_PARTIAL", partial.to_string());
    }
    c.status().ok().and_then(|s| s.code())
}

pub fn run(args: &[String]) -> i32 {
    let seed = arg_u64(args, "--seed", 1);
    let pairs = arg_u64(args, "--pairs", 3);
    let every_byte = arg_u64(args, "--every-byte", 0) == 1;
    let corrupt = arg_u64(args, "--corrupt", 300) as usize;
    let shim = arg(args, "--shim").expect("--shim");
    let mut o = Out::create(arg(args, "--out").expect("--out"));
    let base: PathBuf = std::env::temp_dir().join(format!("tpv-c10-{}", std::process::id()));
    let log = base.join("shim.log");
    for p in 0..pairs {
        let dir = base.join(format!("pair{p}")).join("retaindir");
        let path = dir.join("retain.bin");
        let old = if p % 4 == 3 { None } else { Some(snapshot(seed, 2 * p)) };
        let new = snapshot(seed, 2 * p + 1);
        // 1. the protocol of an uninterrupted save
        reset_dir(&dir, &path, old.as_ref());
        let old_len = std::fs::metadata(&path).map(|m| m.len()).unwrap_or(0);
        std::fs::create_dir_all(&base).unwrap();
        let rc = run_child_store(shim, &dir, &path, seed, 2 * p + 1, &log, None);
        if rc != Some(0) {
            eprintln!("retain-run: uninterrupted store failed: {rc:?}");
            return 2;
        }
        let new_len = std::fs::metadata(&path).map(|m| m.len()).unwrap_or(0);
        let sys: Vec<J> = read_ndjson(log.to_str().unwrap());
        if sys.is_empty() {
            eprintln!("retain-run: the shim logged no system call (LD_PRELOAD not effective?)");
            return 2;
        }
        o.line(&json!({"a": "Reset", "pair": p, "hasOld": old.is_some(), "oldLen": old_len, "newLen": new_len}));
        let target = path.to_str().unwrap().to_string();
        let mut ops = Vec::new();
        for s in &sys {
            let op = s["op"].as_str().unwrap_or("");
            let x = |k: &str| if s[k].as_str() == Some(target.as_str()) { "f" } else { "tmp" };
            let ev = match op {
                "open" => json!({"a": "Sys", "n": s["n"], "op": if s["trunc"] == true { "opentrunc" } else { "open" }, "x": x("path"), "len": 0, "fd": s["ret"]}),
                "write" => json!({"a": "Sys", "n": s["n"], "op": "write", "x": "fd", "len": s["ret"], "fd": s["fd"]}),
                "rename" => json!({"a": "Sys", "n": s["n"], "op": if s["to"].as_str() == Some(target.as_str()) { "rename" } else { "rename-other" }, "x": x("from"), "len": 0, "fd": -1}),
                "unlink" => json!({"a": "Sys", "n": s["n"], "op": "unlink", "x": x("path"), "len": 0, "fd": -1}),
                other => json!({"a": "Sys", "n": s["n"], "op": other, "x": "fd", "len": 0, "fd": s["fd"]}),
            };
            ops.push(ev.clone());
            o.line(&ev);
        }
        let (fin, _) = classify(&path, old.as_ref(), &new);
        o.line(&json!({"a": "Final", "load": fin}));
        // 2. every crash point
        for ev in &ops {
            let at = ev["n"].as_u64().unwrap();
            let partials: Vec<u64> = if ev["op"] == "write" {
                let len = ev["len"].as_u64().unwrap();
                if every_byte {
                    (0..len).collect()
                } else {
                    let mut v = vec![0, 1, len / 2, len.saturating_sub(1)];
                    v.sort();
                    v.dedup();
                    v.into_iter().filter(|k| *k < len.max(1)).collect()
                }
            } else {
                vec![0]
            };
            for partial in partials {
                reset_dir(&dir, &path, old.as_ref());
                let rc = run_child_store(shim, &dir, &path, seed, 2 * p + 1, &log, Some((at, partial)));
                let killed = rc.is_none();
                let (load, detail) = classify(&path, old.as_ref(), &new);
                o.line(&json!({"a": "Crash", "at": at, "partial": partial, "killed": killed, "load": load, "detail": detail}));
                // life goes on in the SAME directory (whatever the dead writer left behind is still there):
                // the next save -- of a snapshot shorter than both -- must succeed and be read back in full
                let small = {
                    let mut s = RetainSnapshot::default();
                    s.insert("snapshot_id", Value::ULInt(9_000_000 + at * 1000 + partial));
                    s
                };
                let rec = std::panic::catch_unwind(|| {
                    FileRetainStore::new(&path).store(&small).map_err(|e| format!("store: {e}"))?;
                    let back = FileRetainStore::new(&path).load().map_err(|e| format!("load: {e}"))?;
                    if back == small { Ok(()) } else { Err(format!("load returned {} values", back.values().len())) }
                });
                let (ok, why) = match rec {
                    Ok(Ok(())) => (true, String::new()),
                    Ok(Err(e)) => (false, e),
                    Err(_) => (false, "panic".into()),
                };
                o.line(&json!({"a": "Recover", "at": at, "partial": partial, "ok": ok, "detail": why}));
            }
        }
    }
    // 3. codec: round trip of every snapshot shape, then structured corruptions
    let cdir = base.join("codec");
    std::fs::create_dir_all(&cdir).unwrap();
    o.line(&json!({"a": "Reset", "pair": -1, "hasOld": false, "oldLen": 0, "newLen": 0}));
    let nsnap = if every_byte { 400 } else { 60 };
    for id in 0..nsnap {
        let s = snapshot(seed ^ 0xc0dec, id);
        let p = cdir.join("rt.bin");
        let r = std::panic::catch_unwind(|| {
            FileRetainStore::new(&p).store(&s).map_err(|e| e.to_string())?;
            let back = FileRetainStore::new(&p).load().map_err(|e| e.to_string())?;
            let bytes1 = std::fs::read(&p).unwrap();
            FileRetainStore::new(&p).store(&back).map_err(|e| e.to_string())?;
            let bytes2 = std::fs::read(&p).unwrap();
            Ok::<bool, String>(back == s && bytes1 == bytes2)
        });
        let (same, err) = match r {
            Ok(Ok(b)) => (b, String::new()),
            Ok(Err(e)) => (false, e),
            Err(_) => (false, "panic".into()),
        };
        o.line(&json!({"a": "Codec", "id": id, "roundtrip": same, "err": err, "values": s.values().len()}));
    }
    let mut rng = StdRng::seed_from_u64(seed ^ 0xbad);
    let image = |id: u64| {
        let p = cdir.join("seed.bin");
        FileRetainStore::new(&p).store(&snapshot(seed ^ 0xc0dec, id)).unwrap();
        std::fs::read(&p).unwrap()
    };
    let seed_img = image(3);
    let mut muts: Vec<(String, Vec<u8>)> = Vec::new();
    // (a) systematic: every byte offset of a few images overwritten with a hostile 32-bit value
    //     (every count / length field of the format is a u32 somewhere in the image), and every
    //     truncation of one image
    let sweep_ids: &[u64] = if every_byte { &[1, 2, 3, 4, 6, 7, 8, 9, 11, 12] } else { &[1, 3, 6, 7] };
    for &id in sweep_ids {
        let img = image(id);
        for off in 6..img.len() {
            for v in [0x7FFF_FFFFu32, 0xFFFF_FFFF, 0x00FF_FFFF] {
                let mut b = img.clone();
                for (k, x) in v.to_le_bytes().iter().enumerate() {
                    if off + k < b.len() {
                        b[off + k] = *x;
                    }
                }
                muts.push((format!("img{id}:u32:{v:#x}@{off}"), b));
            }
        }
    }
    for off in 0..seed_img.len() {
        muts.push((format!("truncate@{off}"), seed_img[..off].to_vec()));
    }
    // (b) nesting: an array of one array of one array ... / a struct with one struct field ...
    //     (9 resp. 13 bytes per level), closed by a BOOL or cut off at the innermost level
    let atag = seed_array_tag();
    for depth in [100usize, 10_000, 200_000, 1_000_000] {
        for (kind, closed) in [("array", true), ("array", false), ("struct", true), ("struct", false)] {
            let mut b = seed_img[..6].to_vec();
            b.extend(1u32.to_le_bytes());
            b.extend(1u32.to_le_bytes());
            b.push(b'v');
            for _ in 0..depth {
                if kind == "array" {
                    b.push(atag);
                    b.extend(1u32.to_le_bytes());
                    b.extend(0u32.to_le_bytes());
                } else {
                    b.push(atag + 1);
                    b.extend(0u32.to_le_bytes());
                    b.extend(1u32.to_le_bytes());
                    b.extend(0u32.to_le_bytes());
                }
            }
            if closed {
                b.extend([1u8, 1u8]);
            }
            muts.push((format!("nest:{kind}:{depth}:{}", if closed { "closed" } else { "open" }), b));
        }
    }
    // (c) random single mutations
    for i in 0..corrupt {
        let mut b = seed_img.clone();
        let off = rng.gen_range(0..b.len());
        let desc = match i % 5 {
            0 => {
                b.truncate(off);
                format!("truncate@{off}")
            }
            1 => {
                b[off] = 0xFF;
                format!("ff@{off}")
            }
            2 => {
                let hostile: [u32; 5] = [0, 1, 0x7FFF_FFFF, 0x8000_0000, 0xFFFF_FFFF];
                let v = hostile[rng.gen_range(0..5)];
                for (k, x) in v.to_le_bytes().iter().enumerate() {
                    if off + k < b.len() {
                        b[off + k] = *x;
                    }
                }
                format!("u32:{v:#x}@{off}")
            }
            3 => {
                b[off] = rng.gen();
                format!("rand@{off}")
            }
            _ => {
                let extra: Vec<u8> = (0..rng.gen_range(1..40)).map(|_| rng.gen()).collect();
                b.extend(extra);
                format!("append@{}", b.len())
            }
        };
        muts.push((desc, b));
    }
    let corrupt = muts.len();
    let mut descs = Vec::new();
    for (i, (desc, b)) in muts.into_iter().enumerate() {
        std::fs::write(cdir.join(format!("m{i}.bin")), &b).unwrap();
        descs.push(desc);
    }
    let mut next = 0usize;
    while next < corrupt {
        let exe = crate::util::self_exe();
        let out = Command::new(exe).args(["retain-child", "loadmany", cdir.to_str().unwrap(), &next.to_string(), &corrupt.to_string()]).output().unwrap();
        let text = String::from_utf8_lossy(&out.stdout).to_string();
        let mut began: Option<usize> = None;
        for line in text.lines() {
            let parts: Vec<&str> = line.split(' ').collect();
            if parts[0] == "BEGIN" {
                began = parts[1].parse().ok();
            } else if parts[0] == "END" {
                let i: usize = parts[1].parse().unwrap();
                o.line(&json!({"a": "Corrupt", "i": i, "mutation": descs[i], "outcome": parts[2]}));
                next = i + 1;
                began = None;
            }
        }
        if let Some(i) = began {
            // the child died inside this load (abort on allocation failure, stack overflow, kill)
            o.line(&json!({"a": "Corrupt", "i": i, "mutation": descs[i], "outcome": "abort"}));
            next = i + 1;
        } else if text.lines().count() == 0 {
            eprintln!("retain-run: loadmany produced no output");
            return 2;
        }
    }
    o.flush();
    let _ = std::fs::remove_dir_all(&base);
    0
}

// ------------------------------------------------------------------------------------------
// RetainManager in front of a store that fails at will (RetainMgr.tla / RetainMgrTrace.tla)
struct FlakyStore {
    held: std::sync::Arc<std::sync::Mutex<Option<RetainSnapshot>>>,
    fail: std::sync::Arc<std::sync::atomic::AtomicBool>,
}
impl RetainStore for FlakyStore {
    fn load(&self) -> Result<RetainSnapshot, trust_runtime::error::RuntimeError> {
        Ok(self.held.lock().unwrap().clone().unwrap_or_default())
    }
    fn store(&self, s: &RetainSnapshot) -> Result<(), trust_runtime::error::RuntimeError> {
        if self.fail.load(std::sync::atomic::Ordering::SeqCst) {
            return Err(trust_runtime::error::RuntimeError::RetainStore("zq: backend down".into()));
        }
        *self.held.lock().unwrap() = Some(s.clone());
        Ok(())
    }
}
fn mgr_snap(v: u64) -> RetainSnapshot {
    let mut s = RetainSnapshot::default();
    s.insert("v", Value::ULInt(v));
    s
}
fn mgr_id(s: &RetainSnapshot) -> u64 {
    match s.values().get("v") {
        Some(Value::ULInt(v)) => *v,
        _ => 0,
    }
}
/// `retainmgr-run --seed S --runs N --out trace.ndjson`
pub fn mgr_run(args: &[String]) -> i32 {
    use trust_runtime::retain::RetainManager;
    let seed = arg_u64(args, "--seed", 1);
    let runs = arg_u64(args, "--runs", 300) as usize;
    let mut o = Out::create(arg(args, "--out").expect("--out"));
    let mut rng = StdRng::seed_from_u64(seed ^ 0x3e7a);
    for _ in 0..runs {
        o.line(&json!({"a": "Reset"}));
        let held = std::sync::Arc::new(std::sync::Mutex::new(None));
        let fail = std::sync::Arc::new(std::sync::atomic::AtomicBool::new(false));
        let mut m = RetainManager::default();
        let mut now = 0i64;
        m.configure(Some(Box::new(FlakyStore { held: held.clone(), fail: fail.clone() })), Some(Duration::from_millis(0)), Duration::from_millis(now));
        for _ in 0..rng.gen_range(3..14) {
            if rng.gen_bool(0.08) {
                m.configure(Some(Box::new(FlakyStore { held: held.clone(), fail: fail.clone() })), Some(Duration::from_millis(0)), Duration::from_millis(now));
                o.line(&json!({"a": "Configure"}));
                continue;
            }
            now += rng.gen_range(0..5);
            let v = rng.gen_range(1..=3u64);
            let failing = rng.gen_bool(0.3);
            fail.store(failing, std::sync::atomic::Ordering::SeqCst);
            m.mark_dirty();
            let r = m.save_snapshot(mgr_snap(v), Duration::from_millis(now));
            fail.store(false, std::sync::atomic::Ordering::SeqCst);
            let stored = held.lock().unwrap().as_ref().map_or(0, mgr_id);
            let loaded = m.load().map(|s| mgr_id(&s)).unwrap_or(99);
            o.line(&json!({"a": "Save", "v": v, "fail": failing, "ok": r.is_ok(), "stored": stored, "loaded": loaded}));
        }
    }
    o.flush();
    0
}
