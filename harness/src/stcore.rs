use crate::util::*;
use rand::{rngs::StdRng, Rng, SeedableRng};
use serde_json::{json, Value as J};
use trust_runtime::harness::TestHarness;
use trust_runtime::value::Value;
#[allow(unused_imports)]
use std::io::Write;

const TYPES: [&str; 8] = ["SINT", "INT", "DINT", "USINT", "UINT", "BOOL", "BYTE", "WORD"];
fn lo(t: &str) -> i64 { match t { "SINT" => -128, "INT" => -32768, "DINT" => -2147483648, _ => 0 } }
fn hi(t: &str) -> i64 { match t { "SINT" => 127, "INT" => 32767, "DINT" => 2147483647, "USINT" | "BYTE" => 255, "UINT" | "WORD" => 65535, "BOOL" => 1, _ => 0 } }
fn narrower(t: &str) -> Vec<&'static str> { match t { "INT" => vec!["INT", "SINT"], "DINT" => vec!["DINT", "INT", "SINT"], "UINT" => vec!["UINT", "USINT"], "WORD" => vec!["WORD", "BYTE"], "SINT" => vec!["SINT"], "USINT" => vec!["USINT"], "BYTE" => vec!["BYTE"], "BOOL" => vec!["BOOL"], _ => vec![] } }

struct Gen { rng: StdRng, typed_lits: bool, strict: bool, pous: bool }
impl Gen {
    fn pick<'a, T: Copy>(&mut self, xs: &'a [T]) -> T { xs[self.rng.gen_range(0..xs.len())] }
    fn lit(&mut self, t: &str) -> J {
        let (l, h) = (lo(t), hi(t));
        let cands = [l, l + 1, -1, 0, 1, 2, 3, 7, h - 1, h, 10, 100];
        let mut v = self.pick(&cands);
        if v < l || v > h { v = self.rng.gen_range(l.max(-50)..=h.min(50)); }
        json!({"k":"lit","t":t,"v":v})
    }
    fn var_of(&mut self, t: &str) -> J { let tt = if self.strict || self.rng.gen_bool(0.7) { t } else { let n = narrower(t); n[self.rng.gen_range(0..n.len())] }; json!({"k":"var","n":format!("{}{}", tt.to_lowercase(), self.rng.gen_range(1..=2)), "t": tt}) }
    fn call_f1(&mut self, d: u32) -> J {
        let mut args = vec![json!({"n": "a", "e": self.expr("INT", d)})];
        if self.rng.gen_bool(0.5) {
            args.push(json!({"n": "b", "e": self.expr("INT", d)}));
        }
        let io = self.pick(&["cnt", "cnt", "int1", "int2"]);
        json!({"k": "call", "fn": "f1", "args": args, "io": io})
    }
    fn expr(&mut self, t: &str, d: u32) -> J {
        if self.pous && d > 0 && self.rng.gen_bool(0.22) {
            match t {
                "INT" => return match self.rng.gen_range(0..3) {
                    0 => self.call_f1(d - 1),
                    1 => json!({"k": "field", "n": "st1", "fd": "x"}),
                    _ => json!({"k": "fbout", "n": self.pick(&["fb1", "fb2"]), "fd": "total"}),
                },
                "BOOL" => return match self.rng.gen_range(0..3) {
                    0 => json!({"k": "call", "fn": "f2", "args": [{"n": "p", "e": self.expr("BOOL", d - 1)}], "io": "cnt"}),
                    1 => json!({"k": "field", "n": "st1", "fd": "y"}),
                    _ => json!({"k": "fbout", "n": self.pick(&["fb1", "fb2"]), "fd": "q"}),
                },
                _ => {}
            }
        }
        if d == 0 || self.rng.gen_bool(0.25) { return if self.rng.gen_bool(0.5) { self.lit(t) } else { self.var_of(t) }; }
        match t {
            "BOOL" => match self.rng.gen_range(0..4) {
                0 => { let it = self.pick(&["SINT", "INT", "DINT", "USINT", "UINT"]); let op = self.pick(&["eq", "ne", "lt", "le", "gt", "ge"]); json!({"k":"bin","op":op,"l":self.expr(it, d-1),"r":self.expr(it, d-1)}) }
                1 => json!({"k":"un","op":"not","e":self.expr("BOOL", d-1)}),
                _ => { let op = self.pick(&["and", "or", "xor"]); json!({"k":"bin","op":op,"l":self.expr("BOOL", d-1),"r":self.expr("BOOL", d-1)}) }
            },
            "BYTE" | "WORD" => if self.rng.gen_bool(0.5) { self.lit(t) } else { self.var_of(t) },
            _ => {
                if lo(t) < 0 && self.rng.gen_bool(0.12) { return json!({"k":"un","op":"neg","e":self.expr(t, d-1)}); }
                if t == "INT" && self.rng.gen_bool(0.1) { return json!({"k":"idx","n":"arr","i":self.expr("INT", d-1)}); }
                let op = self.pick(&["add", "sub", "mul", "div", "mod", "add", "sub"]);
                json!({"k":"bin","op":op,"l":self.expr(t, d-1),"r":self.expr(t, d-1)})
            }
        }
    }
    fn block(&mut self, d: u32, in_loop: bool) -> Vec<J> { (0..self.rng.gen_range(1..=3)).map(|_| self.stmt(d, in_loop)).collect() }
    fn stmt(&mut self, d: u32, in_loop: bool) -> J {
        if self.pous && self.rng.gen_bool(0.3) {
            match self.rng.gen_range(0..6) {
                0 => return json!({"k": "assignfield", "n": "st1", "fd": "x", "e": self.expr("INT", 2)}),
                1 => return json!({"k": "assignfield", "n": "st1", "fd": "y", "e": self.expr("BOOL", 2)}),
                2 | 3 => {
                    let mut args = Vec::new();
                    if self.rng.gen_bool(0.8) { args.push(json!({"n": "inc", "e": self.expr("INT", 1)})); }
                    if self.rng.gen_bool(0.6) { args.push(json!({"n": "en2", "e": self.expr("BOOL", 1)})); }
                    let mut outs = Vec::new();
                    if self.rng.gen_bool(0.5) { outs.push(json!({"n": "total", "to": self.pick(&["int1", "int2"])})); }
                    if self.rng.gen_bool(0.4) { outs.push(json!({"n": "q", "to": self.pick(&["bool1", "bool2"])})); }
                    return json!({"k": "fbcall", "n": self.pick(&["fb1", "fb2"]), "args": args, "outs": outs});
                }
                4 if d > 0 => {
                    // bounded REPEAT on usint2
                    let lim = self.rng.gen_range(0..4);
                    // the counter moves FIRST, so that a CONTINUE in the rest of the body can fire on the very
                    // iteration on which UNTIL becomes true (UNTIL must still be evaluated)
                    let mut b = vec![json!({"k": "assign", "n": "usint2", "e": {"k": "bin", "op": "add", "l": {"k": "var", "n": "usint2", "t": "USINT"}, "r": {"k": "lit", "t": "USINT", "v": 1}}})];
                    if self.rng.gen_bool(0.5) {
                        b.push(json!({"k": "if", "c": self.expr("BOOL", 1), "t": [{"k": "continue"}], "e": []}));
                    }
                    b.extend(self.block(d - 1, true));
                    return json!({"k": "repeat", "body": b, "c": {"k": "bin", "op": "gt", "l": {"k": "var", "n": "usint2", "t": "USINT"}, "r": {"k": "lit", "t": "USINT", "v": lim}}});
                }
                5 if in_loop => return json!({"k": "if", "c": self.expr("BOOL", 1), "t": [{"k": "continue"}], "e": []}),
                _ => return json!({"k": "assign", "n": "int1", "e": self.call_f1(1)}),
            }
        }
        let choice = if d == 0 { 0 } else { self.rng.gen_range(0..10) };
        match choice {
            0..=3 => { let t = self.pick(&TYPES);
                       if !self.typed_lits && ["SINT", "INT", "DINT", "USINT", "UINT"].contains(&t) && self.rng.gen_bool(0.35) {
                           let v = self.rng.gen_range(lo(t).max(-100)..=hi(t).min(100));
                           return json!({"k":"assign","n":format!("{}{}", t.to_lowercase(), self.rng.gen_range(1..=2)),"e":{"k":"lit","t":"ANYINT","v":v}}); }
                       json!({"k":"assign","n":format!("{}{}", t.to_lowercase(), self.rng.gen_range(1..=2)),"e":self.expr(t, 2)}) }
            4 => {
                // IEC 61131-3 does not say whether the subscript of the target or the assigned expression is
                // evaluated first, so the subscript is kept free of calls (no side effect the right-hand side
                // could observe)
                let pous = std::mem::replace(&mut self.pous, false);
                let mut i = self.expr("INT", 1);
                self.pous = pous;
                let e = self.expr("INT", 2);
                if has_call(&e) {
                    // ... and a call on the right-hand side may write (VAR_IN_OUT) what the subscript reads, or
                    // fault in competition with it: then the subscript is a literal
                    i = json!({"k": "lit", "t": "INT", "v": self.rng.gen_range(-1..5)});
                }
                json!({"k":"assignidx","n":"arr","i":i,"e":e})
            }
            5 => json!({"k":"if","c":self.expr("BOOL", 2),"t":self.block(d-1, in_loop),"e": if self.rng.gen_bool(0.5) { self.block(d-1, in_loop) } else { vec![] }}),
            6 => { let st = self.pick(&["SINT", "INT", "DINT", "USINT", "UINT"]); let nb = self.rng.gen_range(1..=3); let mut br = Vec::new(); let mut base = if lo(st) < 0 { self.rng.gen_range(-3..3) } else { self.rng.gen_range(0..3) };
                   for _ in 0..nb { let w = self.rng.gen_range(0..=2); br.push(json!({"labels":[{"lo":base,"hi":base+w}],"body":self.block(d-1, in_loop)})); base += w + 1 + self.rng.gen_range(0..2); }
                   json!({"k":"case","s":self.expr(st, 1),"br":br,"e": if self.rng.gen_bool(0.5) { self.block(d-1, in_loop) } else { vec![] }}) }
            7 => { let ct = self.pick(&["SINT", "INT", "DINT", "USINT"]); let by = if lo(ct) < 0 { self.pick(&[1i64, 1, 2, -1, 3, 0]) } else { self.pick(&[1i64, 1, 2, 3, 0]) };
                   let (a, b) = if self.rng.gen_bool(0.15) { if by >= 0 { (hi(ct) - self.rng.gen_range(0..4), hi(ct) - self.rng.gen_range(0..2)) } else { (lo(ct) + self.rng.gen_range(0..4), lo(ct) + self.rng.gen_range(0..2)) } } else { (self.rng.gen_range(-2i64.max(lo(ct))..5), self.rng.gen_range(-3i64.max(lo(ct))..8)) };
                   json!({"k":"for","n":format!("{}2", ct.to_lowercase()),"from":{"k":"lit","t":ct,"v":a},"to":{"k":"lit","t":ct,"v":b},"by":{"k":"lit","t":ct,"v":by},"body":self.block(d-1, true)}) }
            8 => { // bounded while on uint2
                   let lim = self.rng.gen_range(0..4);
                   let mut b = self.block(d-1, true);
                   b.push(json!({"k":"assign","n":"uint2","e":{"k":"bin","op":"add","l":{"k":"var","n":"uint2","t":"UINT"},"r":{"k":"lit","t":"UINT","v":1}}}));
                   json!({"k":"while","c":{"k":"bin","op":"lt","l":{"k":"var","n":"uint2","t":"UINT"},"r":{"k":"lit","t":"UINT","v":lim}},"body":b}) }
            _ => if in_loop { if self.rng.gen_bool(0.5) { json!({"k":"exit"}) } else { json!({"k":"if","c":self.expr("BOOL", 1),"t":[{"k":"exit"}],"e":[]}) } } else { let t = self.pick(&TYPES); json!({"k":"assign","n":format!("{}1", t.to_lowercase()),"e":self.expr(t, 3)}) },
        }
    }
}
fn has_call(e: &J) -> bool {
    match e {
        J::Object(m) => m.get("k").map_or(false, |k| k == "call") || m.values().any(has_call),
        J::Array(a) => a.iter().any(has_call),
        _ => false,
    }
}
fn lit_src(t: &str, v: i64, typed: bool) -> String {
    let _ = typed;
    if t == "ANYINT" { return format!("{v}"); }
    let typed = true;
    match t { "BOOL" => if v == 1 { "TRUE".into() } else { "FALSE".into() }, "BYTE" | "WORD" => format!("{t}#16#{v:X}"),
              _ => if typed { if v < 0 { format!("{t}#-{}", -v) } else { format!("{t}#{v}") } } else { format!("{v}") } }
}
thread_local! {
    /// Rendering mode of the program being written: every sub-expression in parentheses, or only
    /// the parentheses IEC operator precedence and left associativity require (the AST is the
    /// reference's input either way, so the second mode puts the parser's precedence under test).
    static MIN_PARENS: std::cell::Cell<bool> = std::cell::Cell::new(false);
}
/// IEC 61131-3 precedence of the expression's top operator (atoms highest).
fn prec(e: &J) -> u8 {
    match e["k"].as_str().unwrap() {
        "un" => 8,
        "bin" => match e["op"].as_str().unwrap() {
            "mul" | "div" | "mod" => 6,
            "add" | "sub" => 5,
            "lt" | "le" | "gt" | "ge" => 4,
            "eq" | "ne" => 3,
            "and" => 2,
            "xor" => 1,
            _ => 0,
        },
        "lit" if e["t"] == "ANYINT" && e["v"].as_i64().unwrap_or(0) < 0 => 8, // "-5" is a unary minus
        _ => 10,
    }
}
fn expr_src(e: &J, typed: bool) -> String {
    let min = MIN_PARENS.with(|m| m.get());
    match e["k"].as_str().unwrap() {
        "lit" => lit_src(e["t"].as_str().unwrap(), e["v"].as_i64().unwrap(), typed),
        "var" => e["n"].as_str().unwrap().to_string(),
        "idx" => format!("arr[{}]", expr_src(&e["i"], typed)),
        "field" | "fbout" => format!("{}.{}", e["n"].as_str().unwrap(), e["fd"].as_str().unwrap()),
        "call" => {
            let mut parts: Vec<String> = e["args"].as_array().unwrap().iter().map(|a| format!("{} := {}", a["n"].as_str().unwrap(), expr_src(&a["e"], typed))).collect();
            if e["io"] != "" {
                parts.push(format!("c := {}", e["io"].as_str().unwrap()));
            }
            format!("{}({})", e["fn"].as_str().unwrap(), parts.join(", "))
        }
        "un" => {
            let op = if e["op"] == "neg" { "-" } else { "NOT" };
            if min && prec(&e["e"]) == 10 {
                format!("{op} {}", expr_src(&e["e"], typed))
            } else if min {
                format!("{op} ({})", expr_src(&e["e"], typed))
            } else {
                format!("({op} ({}))", expr_src(&e["e"], typed))
            }
        }
        _ => {
            let opn = e["op"].as_str().unwrap();
            let op = match opn { "add" => "+", "sub" => "-", "mul" => "*", "div" => "/", "mod" => "MOD", "and" => "AND", "or" => "OR", "xor" => "XOR", "eq" => "=", "ne" => "<>", "lt" => "<", "le" => "<=", "gt" => ">", _ => ">=" };
            if !min {
                return format!("({} {} {})", expr_src(&e["l"], typed), op, expr_src(&e["r"], typed));
            }
            let p = prec(e);
            // comparisons and equalities are never chained without parentheses (the documents of the
            // repository and IEC Table 71 rank "=" differently relative to "<")
            let cmp = p == 3 || p == 4;
            let wrap = |x: &J, right: bool| {
                let px = prec(x);
                let need = if cmp { px <= 4 } else if right { px <= p } else { px < p };
                if need { format!("({})", expr_src(x, typed)) } else { expr_src(x, typed) }
            };
            format!("{} {} {}", wrap(&e["l"], false), op, wrap(&e["r"], true))
        }
    }
}
fn stmts_src(ss: &[J], typed: bool, ind: usize, out: &mut String) {
    let p = " ".repeat(ind);
    for s in ss {
        match s["k"].as_str().unwrap() {
            "assign" => out.push_str(&format!("{p}{} := {};\n", s["n"].as_str().unwrap(), expr_src(&s["e"], typed))),
            "assignidx" => out.push_str(&format!("{p}arr[{}] := {};\n", expr_src(&s["i"], typed), expr_src(&s["e"], typed))),
            "if" => { out.push_str(&format!("{p}IF {} THEN\n", expr_src(&s["c"], typed))); stmts_src(s["t"].as_array().unwrap(), typed, ind+2, out);
                      if !s["e"].as_array().unwrap().is_empty() { out.push_str(&format!("{p}ELSE\n")); stmts_src(s["e"].as_array().unwrap(), typed, ind+2, out); } out.push_str(&format!("{p}END_IF;\n")); }
            "case" => { out.push_str(&format!("{p}CASE {} OF\n", expr_src(&s["s"], typed)));
                        for b in s["br"].as_array().unwrap() { let l = &b["labels"][0]; let (a, z) = (l["lo"].as_i64().unwrap(), l["hi"].as_i64().unwrap());
                            out.push_str(&format!("{p}  {}:\n", if a == z { format!("{a}") } else { format!("{a}..{z}") })); stmts_src(b["body"].as_array().unwrap(), typed, ind+4, out); }
                        if !s["e"].as_array().unwrap().is_empty() { out.push_str(&format!("{p}ELSE\n")); stmts_src(s["e"].as_array().unwrap(), typed, ind+2, out); } out.push_str(&format!("{p}END_CASE;\n")); }
            "for" => { out.push_str(&format!("{p}FOR {} := {} TO {} BY {} DO\n", s["n"].as_str().unwrap(), expr_src(&s["from"], typed), expr_src(&s["to"], typed), expr_src(&s["by"], typed))); stmts_src(s["body"].as_array().unwrap(), typed, ind+2, out); out.push_str(&format!("{p}END_FOR;\n")); }
            "while" => { out.push_str(&format!("{p}WHILE {} DO\n", expr_src(&s["c"], typed))); stmts_src(s["body"].as_array().unwrap(), typed, ind+2, out); out.push_str(&format!("{p}END_WHILE;\n")); }
            "exit" => out.push_str(&format!("{p}EXIT;\n")),
            "continue" => out.push_str(&format!("{p}CONTINUE;\n")),
            "return" => out.push_str(&format!("{p}RETURN;\n")),
            "assignfield" => out.push_str(&format!("{p}{}.{} := {};\n", s["n"].as_str().unwrap(), s["fd"].as_str().unwrap(), expr_src(&s["e"], typed))),
            "fbcall" => {
                let mut parts: Vec<String> = s["args"].as_array().unwrap().iter().map(|a| format!("{} := {}", a["n"].as_str().unwrap(), expr_src(&a["e"], typed))).collect();
                parts.extend(s["outs"].as_array().unwrap().iter().map(|o| format!("{} => {}", o["n"].as_str().unwrap(), o["to"].as_str().unwrap())));
                out.push_str(&format!("{p}{}({});\n", s["n"].as_str().unwrap(), parts.join(", ")));
            }
            "repeat" => { out.push_str(&format!("{p}REPEAT\n")); stmts_src(s["body"].as_array().unwrap(), typed, ind+2, out); out.push_str(&format!("{p}UNTIL {} END_REPEAT;\n", expr_src(&s["c"], typed))); }
            _ => {}
        }
    }
}
fn val_json(v: &Value) -> J {
    match v { Value::Bool(b) => json!({"t":"BOOL","v": *b as i64}), Value::SInt(x) => json!({"t":"SINT","v":x}), Value::Int(x) => json!({"t":"INT","v":x}), Value::DInt(x) => json!({"t":"DINT","v":x}),
              Value::LInt(x) => if i32::try_from(*x).is_ok() { json!({"t":"LINT","v":x}) } else { json!({"t":"BIG:LINT","v":0}) }, Value::USInt(x) => json!({"t":"USINT","v":x}), Value::UInt(x) => json!({"t":"UINT","v":x}), Value::UDInt(x) => if i32::try_from(*x).is_ok() { json!({"t":"UDINT","v":x}) } else { json!({"t":"BIG:UDINT","v":0}) },
              Value::Byte(x) => json!({"t":"BYTE","v":x}), Value::Word(x) => json!({"t":"WORD","v":x}),
              Value::Struct(s) => json!({"t":"STRUCT","fl": s.fields.iter().map(|(k, v)| (k.to_string(), val_json(v))).collect::<serde_json::Map<String, J>>()}),
              Value::Array(a) => json!({"t":"ARRAY","lo":a.dimensions[0].0,"el":a.elements.iter().map(val_json).collect::<Vec<_>>()}), o => json!({"t":format!("OTHER:{}", tag(o)),"v":0}) }
}

/// Static type of an expression under the reference typing; "ANYINT" for an untyped literal.
fn static_type(e: &J, decl: &serde_json::Map<String, J>) -> String {
    match e["k"].as_str().unwrap() {
        "lit" => e["t"].as_str().unwrap().to_string(),
        "var" => decl[e["n"].as_str().unwrap()]["t"].as_str().unwrap().to_string(),
        "idx" => "INT".into(),
        "call" => if e["fn"] == "f1" { "INT".into() } else { "BOOL".into() },
        "field" => if e["fd"] == "x" { "INT".into() } else { "BOOL".into() },
        "fbout" => if e["fd"] == "total" { "INT".into() } else { "BOOL".into() },
        "un" => static_type(&e["e"], decl),
        _ => {
            let op = e["op"].as_str().unwrap();
            if ["eq", "ne", "lt", "le", "gt", "ge"].contains(&op) {
                return "BOOL".into();
            }
            let (l, r) = (static_type(&e["l"], decl), static_type(&e["r"], decl));
            let rank = |t: &str| match t { "SINT" | "USINT" | "BYTE" => 1, "INT" | "UINT" | "WORD" => 2, "DINT" => 3, _ => 0 };
            if rank(&l) >= rank(&r) { l } else { r }
        }
    }
}
fn has_anyint(e: &J) -> bool {
    match e {
        J::Object(m) => m.get("t").map_or(false, |t| t == "ANYINT") || m.values().any(has_anyint),
        J::Array(a) => a.iter().any(has_anyint),
        _ => false,
    }
}
/// Targets of assignments whose right-hand side is not of the target's declared type (an untyped
/// literal, or a widening assignment the checker admits): the stores the known finding is about.
fn mentions(e: &J, set: &std::collections::BTreeSet<String>) -> bool {
    match e {
        J::Object(m) => (m.get("k").map_or(false, |k| k == "var" || k == "idx") && m.get("n").and_then(|n| n.as_str()).map_or(false, |n| set.contains(n))) || m.values().any(|v| mentions(v, set)),
        J::Array(a) => a.iter().any(|v| mentions(v, set)),
        _ => false,
    }
}
/// one pass; the caller iterates to a fixpoint (a drifted value propagates through later assignments)
fn drift_targets(ss: &[J], decl: &serde_json::Map<String, J>, out: &mut std::collections::BTreeSet<String>) {
    for s in ss {
        match s["k"].as_str().unwrap() {
            "assign" => {
                let n = s["n"].as_str().unwrap();
                if has_anyint(&s["e"]) || static_type(&s["e"], decl) != decl[n]["t"].as_str().unwrap() || mentions(&s["e"], out) {
                    out.insert(n.to_string());
                }
            }
            "assignidx" => {
                if has_anyint(&s["e"]) || static_type(&s["e"], decl) != "INT" || mentions(&s["e"], out) {
                    out.insert("arr".into());
                }
            }
            "for" => {
                // the control variable is written from the FROM expression
                let n = s["n"].as_str().unwrap();
                if static_type(&s["from"], decl) != decl[n]["t"].as_str().unwrap() || mentions(&s["from"], out) || mentions(&s["by"], out) {
                    out.insert(n.to_string());
                }
                drift_targets(s["body"].as_array().unwrap(), decl, out);
            }
            "if" => {
                drift_targets(s["t"].as_array().unwrap(), decl, out);
                drift_targets(s["e"].as_array().unwrap(), decl, out);
            }
            "case" => {
                for b in s["br"].as_array().unwrap() {
                    drift_targets(b["body"].as_array().unwrap(), decl, out);
                }
                drift_targets(s["e"].as_array().unwrap(), decl, out);
            }
            "while" | "repeat" => drift_targets(s["body"].as_array().unwrap(), decl, out),
            _ => {}
        }
    }
}

fn lit_i(v: i64) -> J { json!({"k": "lit", "t": "INT", "v": v}) }
fn var_i(n: &str) -> J { json!({"k": "var", "n": n, "t": "INT"}) }
fn bin(op: &str, l: J, r: J) -> J { json!({"k": "bin", "op": op, "l": l, "r": r}) }
fn asg(n: &str, e: J) -> J { json!({"k": "assign", "n": n, "e": e}) }
/// FUNCTION / FUNCTION_BLOCK definitions: template bodies with seeded constants.
fn pou_defs(rng: &mut StdRng) -> (J, J, String) {
    let k = rng.gen_range(0..6i64);
    let f1_body = match rng.gen_range(0..5) {
        4 => vec![json!({"k": "repeat", "body": [asg("t", bin("add", var_i("t"), lit_i(1))),
                    {"k": "if", "c": bin("ge", var_i("t"), lit_i(k.min(3))), "t": [{"k": "continue"}], "e": []}, asg("c", bin("add", var_i("c"), var_i("t")))],
                    "c": bin("ge", var_i("t"), var_i("b"))}), asg("f1", bin("add", var_i("c"), var_i("t")))],
        0 => vec![asg("t", bin("add", var_i("a"), var_i("b"))), asg("c", bin("add", var_i("c"), lit_i(1))),
                  json!({"k": "if", "c": bin("gt", var_i("t"), lit_i(k)), "t": [asg("f1", var_i("t")), {"k": "return"}], "e": []}),
                  asg("f1", bin("mul", var_i("t"), lit_i(2)))],
        1 => vec![json!({"k": "for", "n": "t", "from": lit_i(0), "to": var_i("b"), "by": lit_i(1), "body": [asg("c", bin("add", var_i("c"), var_i("a")))]}), asg("f1", var_i("c"))],
        2 => vec![asg("c", bin("sub", var_i("c"), lit_i(1))), asg("f1", bin("div", var_i("a"), var_i("b")))],
        _ => vec![json!({"k": "while", "c": bin("lt", var_i("t"), var_i("b")), "body": [asg("t", bin("add", var_i("t"), lit_i(1))),
                    {"k": "if", "c": bin("eq", var_i("t"), lit_i(k)), "t": [{"k": "continue"}], "e": []}, asg("c", bin("add", var_i("c"), var_i("t")))]}), asg("f1", var_i("c"))],
    };
    let bdef = rng.gen_range(0..4i64);
    let f2_body = if rng.gen_bool(0.5) {
        vec![asg("c", bin("add", var_i("c"), lit_i(1))), asg("f2", json!({"k": "var", "n": "p", "t": "BOOL"}))]
    } else {
        vec![asg("f2", json!({"k": "bin", "op": "xor", "l": {"k": "var", "n": "p", "t": "BOOL"}, "r": bin("gt", var_i("c"), lit_i(k))})), asg("c", bin("add", var_i("c"), lit_i(1)))]
    };
    let funcs = json!({
        "f1": {"ret": "INT", "ins": [{"n": "a", "t": "INT", "hasdef": false, "def": 0}, {"n": "b", "t": "INT", "hasdef": true, "def": bdef}], "inout": "c", "locals": [{"n": "t", "t": "INT"}], "body": f1_body},
        "f2": {"ret": "BOOL", "ins": [{"n": "p", "t": "BOOL", "hasdef": false, "def": 0}], "inout": "c", "locals": [], "body": f2_body},
    });
    let acc_body = match rng.gen_range(0..3) {
        0 => vec![asg("n", bin("add", var_i("n"), lit_i(1))),
                  json!({"k": "if", "c": {"k": "var", "n": "en2", "t": "BOOL"}, "t": [asg("total", bin("add", var_i("total"), var_i("inc")))], "e": []}),
                  asg("q", bin("gt", var_i("total"), lit_i(k + 5)))],
        1 => vec![asg("total", json!({"k": "call", "fn": "f1", "args": [{"n": "a", "e": var_i("inc")}], "io": "n"})), asg("q", json!({"k": "un", "op": "not", "e": {"k": "var", "n": "q", "t": "BOOL"}}))],
        _ => vec![json!({"k": "repeat", "body": [asg("n", bin("add", var_i("n"), lit_i(1))), asg("total", bin("add", var_i("total"), var_i("inc")))], "c": bin("ge", var_i("n"), lit_i(k))}),
                  asg("q", json!({"k": "var", "n": "en2", "t": "BOOL"}))],
    };
    let fbs = json!({"acc": {"decl": {"inc": {"t": "INT"}, "en2": {"t": "BOOL"}, "total": {"t": "INT"}, "q": {"t": "BOOL"}, "n": {"t": "INT"}},
                             "ins": [{"n": "inc", "t": "INT"}, {"n": "en2", "t": "BOOL"}], "outs": [{"n": "total", "t": "INT"}, {"n": "q", "t": "BOOL"}], "body": acc_body}});
    // ST text
    let mut src = String::from("TYPE pair : STRUCT x : INT; y : BOOL; END_STRUCT END_TYPE\n");
    let mut body = String::new();
    stmts_src(funcs["f1"]["body"].as_array().unwrap(), true, 0, &mut body);
    src.push_str(&format!("FUNCTION f1 : INT\nVAR_INPUT a : INT; b : INT := INT#{bdef}; END_VAR\nVAR_IN_OUT c : INT; END_VAR\nVAR t : INT; END_VAR\n{body}END_FUNCTION\n"));
    body.clear();
    stmts_src(funcs["f2"]["body"].as_array().unwrap(), true, 0, &mut body);
    src.push_str(&format!("FUNCTION f2 : BOOL\nVAR_INPUT p : BOOL; END_VAR\nVAR_IN_OUT c : INT; END_VAR\n{body}END_FUNCTION\n"));
    body.clear();
    stmts_src(fbs["acc"]["body"].as_array().unwrap(), true, 0, &mut body);
    src.push_str(&format!("FUNCTION_BLOCK acc\nVAR_INPUT inc : INT; en2 : BOOL; END_VAR\nVAR_OUTPUT total : INT; q : BOOL; END_VAR\nVAR n : INT; END_VAR\n{body}END_FUNCTION_BLOCK\n"));
    (funcs, fbs, src)
}

/// `stcore-gen --seed S --runs N --profile strict|natural|pous|matrix --out scripts.ndjson`
pub fn gen(args: &[String]) -> i32 {
    let seed = arg_u64(args, "--seed", 1);
    let runs = arg_u64(args, "--runs", 100) as usize;
    if arg(args, "--profile") == Some("matrix") {
        return gen_matrix(args);
    }
    let natural = arg(args, "--profile") == Some("natural");
    let case_variant = arg(args, "--profile") == Some("case");
    let pous = arg(args, "--profile") == Some("pous") || case_variant;
    let mut g = Gen { rng: StdRng::seed_from_u64(seed ^ if natural { 0x4a7 } else { 0x57c }), typed_lits: !natural, strict: !natural, pous };
    let mut o = Out::create(arg(args, "--out").expect("--out"));
    for _ in 0..runs {
        let mut decl = serde_json::Map::new();
        let mut init = serde_json::Map::new();
        let (funcs, fbs, pou_src) = if pous { pou_defs(&mut g.rng) } else { (json!({}), json!({}), String::new()) };
        let mut src = format!("{pou_src}PROGRAM P\nVAR\n");
        if pous {
            src.push_str("  st1 : pair;\n  fb1 : acc;\n  fb2 : acc;\n  cnt : INT := INT#0;\n");
            decl.insert("st1".into(), json!({"t": "STRUCT"}));
            init.insert("st1".into(), json!({"t": "STRUCT", "fl": {"x": {"t": "INT", "v": 0}, "y": {"t": "BOOL", "v": 0}}}));
            for n in ["fb1", "fb2"] {
                decl.insert(n.into(), json!({"t": "FB"}));
                init.insert(n.into(), json!({"t": "FB", "ty": "acc", "vars": {"inc": {"t": "INT", "v": 0}, "en2": {"t": "BOOL", "v": 0}, "total": {"t": "INT", "v": 0}, "q": {"t": "BOOL", "v": 0}, "n": {"t": "INT", "v": 0}}}));
            }
            decl.insert("cnt".into(), json!({"t": "INT"}));
            init.insert("cnt".into(), json!({"t": "INT", "v": 0}));
        }
        for t in TYPES {
            for i in 1..=2 {
                let n = format!("{}{}", t.to_lowercase(), i);
                let v = g.lit(t);
                let vv = v["v"].as_i64().unwrap();
                src.push_str(&format!("  {n} : {t} := {};\n", lit_src(t, vv, true)));
                decl.insert(n.clone(), json!({"t": t}));
                init.insert(n, json!({"t": t, "v": vv}));
            }
        }
        src.push_str("  arr : ARRAY[0..3] OF INT;\nEND_VAR\n");
        decl.insert("arr".into(), json!({"t": "ARRAY", "el": "INT", "lo": 0, "hi": 3}));
        init.insert("arr".into(), json!({"t": "ARRAY", "lo": 0, "el": [{"t": "INT", "v": 0}, {"t": "INT", "v": 0}, {"t": "INT", "v": 0}, {"t": "INT", "v": 0}]}));
        let body = g.block(2, false);
        MIN_PARENS.with(|m| m.set(g.rng.gen_bool(0.5)));
        stmts_src(&body, true, 0, &mut src);
        src.push_str("END_PROGRAM\n");
        if case_variant {
            // identifiers are case-insensitive: spell every occurrence in the body differently from its declaration
            let at = src.rfind("END_VAR\n").unwrap() + 8;
            let upper = src[at..].to_ascii_uppercase();
            src.truncate(at);
            src.push_str(&upper);
        }
        let mut drift = std::collections::BTreeSet::new();
        loop {
            if pous {
                break; // typed literals and same-type assignments only
            }
            let before = drift.len();
            drift_targets(&body, &decl, &mut drift);
            if drift.len() == before {
                break;
            }
        }
        // inputs written between the cycles
        let mut inputs = Vec::new();
        for _ in 0..2 {
            let mut sets = Vec::new();
            for _ in 0..g.rng.gen_range(0..3) {
                let t = g.pick(&TYPES);
                let v = g.lit(t);
                sets.push(json!({"n": format!("{}{}", t.to_lowercase(), g.rng.gen_range(1..=2)), "t": t, "v": v["v"]}));
            }
            inputs.push(sets);
        }
        o.line(&json!({"profile": if natural { "natural" } else if case_variant { "case" } else if pous { "pous" } else { "strict" }, "funcs": funcs, "fbs": fbs, "decl": decl, "init": init, "body": body, "src": src,
                       "drift": drift.into_iter().collect::<Vec<_>>(), "inputs": inputs}));
    }
    o.flush();
    0
}

fn set_value(t: &str, v: i64) -> Value {
    match t {
        "BOOL" => Value::Bool(v == 1),
        "SINT" => Value::SInt(v as i8),
        "INT" => Value::Int(v as i16),
        "DINT" => Value::DInt(v as i32),
        "USINT" => Value::USInt(v as u8),
        "UINT" => Value::UInt(v as u16),
        "BYTE" => Value::Byte(v as u8),
        _ => Value::Word(v as u16),
    }
}

/// `stcore-run --scripts S --out trace.ndjson`: every script in this process, panics caught.
pub fn run(args: &[String]) -> i32 {
    let scripts = read_ndjson(arg(args, "--scripts").expect("--scripts"));
    let mut o = Out::create(arg(args, "--out").expect("--out"));
    std::panic::set_hook(Box::new(|_| {}));
    let (mut accepted, mut rejected) = (0usize, 0usize);
    for (k, sc) in scripts.iter().enumerate() {
        let src = sc["src"].as_str().unwrap();
        let mut h = match std::panic::catch_unwind(|| TestHarness::from_source(src)) {
            Ok(Ok(h)) => h,
            Ok(Err(_)) => {
                rejected += 1;
                continue;
            }
            Err(_) => {
                o.line(&json!({"a": "Reset", "script": k, "decl": sc["decl"], "init": sc["init"], "body": sc["body"], "funcs": sc["funcs"], "fbs": sc["fbs"]}));
                o.line(&json!({"a": "Cycle", "res": "PanicInCompiler", "vars": sc["init"], "frames": 0}));
                continue;
            }
        };
        accepted += 1;
        o.line(&json!({"a": "Reset", "script": k, "decl": sc["decl"], "init": sc["init"], "body": sc["body"], "funcs": sc["funcs"], "fbs": sc["fbs"]}));
        let decl = sc["decl"].as_object().unwrap();
        for c in 0..3 {
            if c > 0 {
                for s in sc["inputs"][c - 1].as_array().unwrap() {
                    h.set_input(s["n"].as_str().unwrap(), set_value(s["t"].as_str().unwrap(), s["v"].as_i64().unwrap()));
                    o.line(&json!({"a": "SetVar", "n": s["n"], "t": s["t"], "v": s["v"]}));
                }
            }
            // generated loops are bounded (at most a few hundred iterations); a cycle that is still
            // running after the budget is reported by the runtime as ExecutionTimeout
            h.runtime_mut().set_execution_deadline(Some(std::time::Instant::now() + std::time::Duration::from_secs(3)));
            let r = std::panic::catch_unwind(std::panic::AssertUnwindSafe(|| h.cycle()));
            let res = match &r {
                Err(_) => "Panic".to_string(),
                Ok(c) => {
                    if c.errors.is_empty() {
                        "ok".into()
                    } else {
                        format!("{:?}", c.errors[0]).split(|c: char| !c.is_alphanumeric()).next().unwrap().to_string()
                    }
                }
            };
            let mut vars = serde_json::Map::new();
            for n in decl.keys() {
                let v = h.get_output(n);
                let j = match &v {
                    Some(Value::Instance(id)) => {
                        // FB instance: its scalar members by name
                        let st = h.runtime().storage();
                        match st.get_instance(*id) {
                            Some(inst) => json!({"t": "FB", "ty": inst.type_name.to_ascii_lowercase(),
                                "vars": inst.variables.iter().filter(|(k, _)| !k.starts_with("__")).map(|(k, v)| (k.to_ascii_lowercase(), val_json(v))).collect::<serde_json::Map<String, J>>()}),
                            None => json!({"t": "MISSING", "v": 0}),
                        }
                    }
                    Some(v) => val_json(v),
                    None => json!({"t": "MISSING", "v": 0}),
                };
                vars.insert(n.clone(), j);
            }
            o.line(&json!({"a": "Cycle", "res": res, "vars": vars, "frames": h.runtime().storage().frames().len()}));
            if res != "ok" {
                break;
            }
        }
    }
    o.flush();
    eprintln!("stcore-run: accepted={accepted} rejected={rejected}");
    println!("{}", json!({"accepted": accepted, "rejected": rejected}));
    0
}

// ------------------------------------------------------------------------------------------
// Wide generator (C01): every elementary type, wider shapes.  Values are not compared; only the
// outcome contract is recorded (Ok | value-dependent fault, no panic, no frame left, no hang).
const WIDE: [(&str, &str, &[&str]); 16] = [
    ("SINT", "i", &["SINT#-128", "SINT#127", "SINT#-1", "SINT#0", "SINT#1"]),
    ("INT", "i", &["INT#-32768", "INT#32767", "INT#-1", "INT#0", "INT#2"]),
    ("DINT", "i", &["DINT#-2147483648", "DINT#2147483647", "DINT#-1", "DINT#0", "DINT#3"]),
    ("LINT", "i", &["LINT#-9223372036854775807", "LINT#9223372036854775807", "LINT#-1", "LINT#0", "LINT#5"]),
    ("USINT", "u", &["USINT#0", "USINT#255", "USINT#1", "USINT#2"]),
    ("UINT", "u", &["UINT#0", "UINT#65535", "UINT#1", "UINT#3"]),
    ("UDINT", "u", &["UDINT#0", "UDINT#4294967295", "UDINT#1", "UDINT#7"]),
    ("ULINT", "u", &["ULINT#0", "ULINT#9223372036854775807", "ULINT#1", "ULINT#9"]),
    ("REAL", "r", &["REAL#0.0", "REAL#-1.5", "REAL#3.4E38", "REAL#1.0E-38", "REAL#2.0"]),
    ("LREAL", "r", &["LREAL#0.0", "LREAL#-2.5", "LREAL#1.7E308", "LREAL#1.0"]),
    ("BYTE", "b", &["BYTE#16#0", "BYTE#16#FF", "BYTE#16#1"]),
    ("WORD", "b", &["WORD#16#0", "WORD#16#FFFF", "WORD#16#2"]),
    ("DWORD", "b", &["DWORD#16#0", "DWORD#16#FFFFFFFF", "DWORD#16#3"]),
    ("LWORD", "b", &["LWORD#16#0", "LWORD#16#7FFFFFFFFFFFFFFF", "LWORD#16#4"]),
    ("TIME", "t", &["T#0ms", "T#1ms", "T#24d", "T#-5ms"]),
    ("BOOL", "B", &["TRUE", "FALSE"]),
];
struct Wide { rng: StdRng }
impl Wide {
    fn ty(&mut self) -> usize { self.rng.gen_range(0..WIDE.len()) }
    fn lit(&mut self, t: usize) -> String { let l = WIDE[t].2; l[self.rng.gen_range(0..l.len())].to_string() }
    fn var(&mut self, t: usize) -> String { format!("{}{}", WIDE[t].0.to_lowercase(), self.rng.gen_range(1..=2)) }
    fn target(&mut self, t: usize) -> String { format!("{}{}", WIDE[t].0.to_lowercase(), if self.rng.gen_bool(0.85) { 1 } else { 2 }) }
    fn expr(&mut self, t: usize, d: u32) -> String {
        if d == 0 || self.rng.gen_bool(0.3) { return if self.rng.gen_bool(0.5) { self.lit(t) } else { self.var(t) }; }
        match WIDE[t].1 {
            "B" => match self.rng.gen_range(0..3) {
                0 => { let it = loop { let k = self.ty(); if ["i", "u", "r"].contains(&WIDE[k].1) { break k; } }; let op = ["=", "<>", "<", "<=", ">", ">="][self.rng.gen_range(0..6)]; format!("({} {} {})", self.expr(it, d - 1), op, self.expr(it, d - 1)) }
                1 => format!("(NOT ({}))", self.expr(t, d - 1)),
                _ => format!("({} {} {})", self.expr(t, d - 1), ["AND", "OR", "XOR"][self.rng.gen_range(0..3)], self.expr(t, d - 1)),
            },
            "b" => if self.rng.gen_bool(0.5) { self.lit(t) } else { self.var(t) },
            "t" => if self.rng.gen_bool(0.5) { format!("ADD_TIME({}, {})", self.expr(t, d - 1), self.expr(t, d - 1)) } else { format!("SUB_TIME({}, {})", self.expr(t, d - 1), self.expr(t, d - 1)) },
            k => {
                if k == "i" && self.rng.gen_bool(0.15) { return format!("(- ({}))", self.expr(t, d - 1)); }
                if k != "r" && self.rng.gen_bool(0.1) { return format!("({} MOD {})", self.expr(t, d - 1), self.expr(t, d - 1)); }
                if self.rng.gen_bool(0.1) { return format!("ABS({})", self.expr(t, d - 1)); }
                let op = ["+", "-", "*", "/", "+", "-"][self.rng.gen_range(0..6)];
                format!("({} {} {})", self.expr(t, d - 1), op, self.expr(t, d - 1))
            }
        }
    }
    fn block(&mut self, d: u32, in_loop: bool, ind: usize, out: &mut String) { for _ in 0..self.rng.gen_range(1..=3) { self.stmt(d, in_loop, ind, out); } }
    fn stmt(&mut self, d: u32, in_loop: bool, ind: usize, out: &mut String) {
        let p = " ".repeat(ind);
        let c = if d == 0 { 0 } else { self.rng.gen_range(0..12) };
        match c {
            0..=3 => { let t = self.ty(); let v = self.target(t); let e = self.expr(t, 2); out.push_str(&format!("{p}{v} := {e};\n")); }
            4 => { let i = self.expr(1, 1); let e = self.expr(3, 2); out.push_str(&format!("{p}larr[{i}] := {e};\n")); }
            5 => { let cnd = self.expr(15, 2); out.push_str(&format!("{p}IF {cnd} THEN\n")); self.block(d - 1, in_loop, ind + 2, out); if self.rng.gen_bool(0.5) { out.push_str(&format!("{p}ELSE\n")); self.block(d - 1, in_loop, ind + 2, out); } out.push_str(&format!("{p}END_IF;\n")); }
            6 => { let st = loop { let k = self.ty(); if ["i", "u"].contains(&WIDE[k].1) { break k; } };
                   let sel = self.expr(st, 1); out.push_str(&format!("{p}CASE {sel} OF\n"));
                   let mut base: i64 = if WIDE[st].1 == "i" { self.rng.gen_range(-3..3) } else { self.rng.gen_range(0..3) };
                   for _ in 0..self.rng.gen_range(1..=3) { let w = self.rng.gen_range(0..=2); out.push_str(&format!("{p}  {}:\n", if w == 0 { format!("{base}") } else { format!("{base}..{}", base + w) })); self.block(d - 1, in_loop, ind + 4, out); base += w + 1; }
                   if self.rng.gen_bool(0.5) { out.push_str(&format!("{p}ELSE\n")); self.block(d - 1, in_loop, ind + 2, out); }
                   out.push_str(&format!("{p}END_CASE;\n")); }
            7 | 8 => { let ct = loop { let k = self.ty(); if ["i", "u"].contains(&WIDE[k].1) { break k; } };
                   let name = WIDE[ct].0; let v = format!("{}2", name.to_lowercase());
                   let lits = WIDE[ct].2; let hi = lits[1]; let by = if WIDE[ct].1 == "i" { ["1", "1", "2", "-1", "0"][self.rng.gen_range(0..5)] } else { ["1", "1", "2", "0"][self.rng.gen_range(0..4)] };
                   // loops that end at the type maximum or a few iterations anywhere
                   let (a, b) = if self.rng.gen_bool(0.4) { (format!("({hi} - {name}#2)"), hi.to_string()) } else { (format!("{name}#{}", self.rng.gen_range(0..3)), format!("{name}#{}", self.rng.gen_range(0..6))) };
                   out.push_str(&format!("{p}FOR {v} := {a} TO {b} BY {name}#{by} DO\n")); self.block(d - 1, true, ind + 2, out); out.push_str(&format!("{p}END_FOR;\n")); }
            9 => { let lim = self.rng.gen_range(0..4); out.push_str(&format!("{p}WHILE uint2 < UINT#{lim} DO\n")); self.block(d - 1, true, ind + 2, out); out.push_str(&format!("{p}  uint2 := uint2 + UINT#1;\n{p}END_WHILE;\n")); }
            10 => { out.push_str(&format!("{p}REPEAT\n")); self.block(d - 1, true, ind + 2, out); out.push_str(&format!("{p}  usint2 := usint2 + USINT#1;\n{p}UNTIL usint2 > USINT#{} END_REPEAT;\n", self.rng.gen_range(0..4))); }
            _ => if in_loop { out.push_str(&format!("{p}{};\n", if self.rng.gen_bool(0.5) { "EXIT" } else { "CONTINUE" })); } else { let t = self.ty(); let v = self.var(t); let e = self.expr(t, 3); out.push_str(&format!("{p}{v} := {e};\n")); },
        }
    }
}

/// `stwide-run --seed S --runs N --out trace.ndjson`: generate and execute in this process; a batch
/// that dies (abort, stack overflow, hang killed by the driver) is detected by the parent (`stwide`).
pub fn wide_child(args: &[String]) -> i32 {
    if arg_u64(args, "--opmatrix", 0) == 1 {
        return opm_child(args);
    }
    let seed = arg_u64(args, "--seed", 1);
    let from = arg_u64(args, "--from", 0) as usize;
    let to = arg_u64(args, "--to", 100) as usize;
    std::panic::set_hook(Box::new(|_| {}));
    for k in from..to {
        let mut g = Wide { rng: StdRng::seed_from_u64(seed.wrapping_mul(1_000_003).wrapping_add(k as u64)) };
        let mut src = String::from("PROGRAM P\nVAR\n");
        for (t, _, lits) in WIDE.iter() {
            for i in 1..=2 { src.push_str(&format!("  {}{i} : {t} := {};\n", t.to_lowercase(), lits[g.rng.gen_range(0..lits.len())])); }
        }
        src.push_str("  larr : ARRAY[-1..2] OF LINT;\nEND_VAR\n");
        let mut body = String::new();
        g.block(2, false, 0, &mut body);
        let recursive = k % 211 == 17;
        if recursive {
            // a FUNCTION whose call graph has a cycle (accepted by the checker today)
            body.push_str("int1 := Rec(n := int1);\n");
        }
        src.push_str(&body);
        src.push_str("END_PROGRAM\n");
        if recursive {
            src.push_str("FUNCTION Rec : INT\nVAR_INPUT n : INT; END_VAR\nRec := Rec(n := n);\nEND_FUNCTION\n");
        }
        println!("BEGIN {k}");
        std::fs::write(arg(args, "--cur").expect("--cur"), &src).ok();
        let mut h = match std::panic::catch_unwind(|| TestHarness::from_source(&src)) {
            Ok(Ok(h)) => h,
            Ok(Err(_)) => { println!("END {k} rejected"); continue; }
            Err(_) => { println!("END {k} outcome PanicInCompiler 0"); continue; }
        };
        let mut res = "ok".to_string();
        let mut frames = 0usize;
        for _ in 0..3 {
            h.runtime_mut().set_execution_deadline(Some(std::time::Instant::now() + std::time::Duration::from_millis(1500)));
            let r = std::panic::catch_unwind(std::panic::AssertUnwindSafe(|| h.cycle()));
            res = match &r { Err(_) => "Panic".to_string(), Ok(c) => if c.errors.is_empty() { "ok".into() } else { format!("{:?}", c.errors[0]).split(|c: char| !c.is_alphanumeric()).next().unwrap().to_string() } };
            frames = h.runtime().storage().frames().len();
            if res != "ok" { break; }
        }
        if !["ok", "DivisionByZero", "ModuloByZero", "Overflow", "IndexOutOfBounds", "NullReference", "ForStepZero", "DateTimeRange", "ExecutionTimeout"].contains(&res.as_str()) || frames != 0 {
            std::fs::write(format!("{}.{k}", arg(args, "--cur").unwrap()), &src).ok();
        }
        println!("END {k} outcome {res} {frames}");
    }
    0
}

// ------------------------------------------------------------------------------------------
// Operator x integer type x boundary operand matrix at full width (C01, C02).  The 64-bit types do
// not fit TLC's 32-bit integers, so here the expected outcome is computed in the harness with exact
// (i128) arithmetic: value = the mathematical result, Overflow iff it leaves the type, truncating
// division, remainder with the sign of the dividend, DivisionByZero / ModuloByZero.
const OPM_TYPES: [(&str, i128, i128); 8] = [
    ("SINT", -128, 127), ("INT", -32768, 32767), ("DINT", -2147483648, 2147483647),
    ("LINT", i64::MIN as i128, i64::MAX as i128),
    ("USINT", 0, 255), ("UINT", 0, 65535), ("UDINT", 0, 4294967295), ("ULINT", 0, u64::MAX as i128),
];
const OPM_OPS: [(&str, &str); 12] = [
    ("add", "a + b"), ("sub", "a - b"), ("mul", "a * b"), ("div", "a / b"), ("mod", "a MOD b"),
    ("neg", "-a"), ("abs", "ABS(a)"),
    ("fadd", "ADD(a, b)"), ("fsub", "SUB(a, b)"), ("fmul", "MUL(a, b)"), ("fdiv", "DIV(a, b)"), ("fmod", "MOD(a, b)"),
];
fn opm_operands(lo: i128, hi: i128) -> Vec<i128> {
    let mut v = vec![lo, lo + 1, lo + 2, hi - 2, hi - 1, hi, 0, 1, 2, 3, hi / 2, hi / 2 + 1, lo / 2];
    if lo < 0 { v.extend([-1, -2, -3, lo / 2 - 1]); }
    v.sort();
    v.dedup();
    v
}
fn opm_value(t: &str, x: i128) -> Value {
    match t {
        "SINT" => Value::SInt(x as i8), "INT" => Value::Int(x as i16), "DINT" => Value::DInt(x as i32), "LINT" => Value::LInt(x as i64),
        "USINT" => Value::USInt(x as u8), "UINT" => Value::UInt(x as u16), "UDINT" => Value::UDInt(x as u32), _ => Value::ULInt(x as u64),
    }
}
fn opm_num(v: &Value) -> Option<(String, i128)> {
    Some(match v {
        Value::SInt(x) => ("SINT".into(), *x as i128), Value::Int(x) => ("INT".into(), *x as i128), Value::DInt(x) => ("DINT".into(), *x as i128), Value::LInt(x) => ("LINT".into(), *x as i128),
        Value::USInt(x) => ("USINT".into(), *x as i128), Value::UInt(x) => ("UINT".into(), *x as i128), Value::UDInt(x) => ("UDINT".into(), *x as i128), Value::ULInt(x) => ("ULINT".into(), *x as i128),
        _ => return None,
    })
}
/// (outcome, value): the reference result of one operator application in type [lo, hi]
fn opm_expected(op: &str, a: i128, b: i128, lo: i128, hi: i128) -> (&'static str, i128) {
    let r = match op.trim_start_matches('f') {
        "add" => a + b,
        "sub" => a - b,
        "mul" => match a.checked_mul(b) { Some(r) => r, None => return ("Overflow", 0) },
        "div" => { if b == 0 { return ("DivisionByZero", 0); } a / b }
        "mod" => { if b == 0 { return ("ModuloByZero", 0); } a % b }
        "neg" => -a,
        _ => a.abs(),
    };
    if r < lo || r > hi { ("Overflow", 0) } else { ("ok", r) }
}
/// `stwide-child --opmatrix 1 --from K --to N`: case K.. of the matrix, one line per case
fn opm_cases() -> Vec<(usize, usize, i128, i128)> {
    let mut v = Vec::new();
    for (ti, (_, lo, hi)) in OPM_TYPES.iter().enumerate() {
        let xs = opm_operands(*lo, *hi);
        for (oi, (op, _)) in OPM_OPS.iter().enumerate() {
            let unary = *op == "neg" || *op == "abs";
            if unary && *lo == 0 { continue; }
            for &a in &xs {
                if unary { v.push((ti, oi, a, 0)); } else { for &b in &xs { v.push((ti, oi, a, b)); } }
            }
        }
    }
    v
}
fn opm_child(args: &[String]) -> i32 {
    let from = arg_u64(args, "--from", 0) as usize;
    let cases = opm_cases();
    let to = (arg_u64(args, "--to", cases.len() as u64) as usize).min(cases.len());
    std::panic::set_hook(Box::new(|_| {}));
    let mut cur: Option<(usize, usize, TestHarness)> = None;
    for k in from..to {
        let (ti, oi, a, b) = cases[k];
        let (t, lo, hi) = OPM_TYPES[ti];
        let (op, text) = OPM_OPS[oi];
        println!("BEGIN {k}");
        if !matches!(&cur, Some((x, y, _)) if *x == ti && *y == oi) {
            let src = format!("PROGRAM P\nVAR\n  a : {t};\n  b : {t};\n  q : {t};\nEND_VAR\nq := {text};\nEND_PROGRAM\n");
            cur = match std::panic::catch_unwind(|| TestHarness::from_source(&src)) {
                Ok(Ok(h)) => Some((ti, oi, h)),
                _ => None,
            };
        }
        let Some((_, _, h)) = cur.as_mut() else { println!("END {k} rejected"); continue; };
        h.set_input("a", opm_value(t, a));
        h.set_input("b", opm_value(t, b));
        h.set_input("q", opm_value(t, 0));
        let r = std::panic::catch_unwind(std::panic::AssertUnwindSafe(|| h.cycle()));
        let res = match &r { Err(_) => "Panic".to_string(), Ok(c) => if c.errors.is_empty() { "ok".into() } else { format!("{:?}", c.errors[0]).split(|c: char| !c.is_alphanumeric()).next().unwrap().to_string() } };
        let frames = h.runtime().storage().frames().len();
        let (gt, gv) = h.get_output("q").as_ref().and_then(opm_num).unwrap_or(("NONE".into(), 0));
        let (er, ev) = opm_expected(op, a, b, lo, hi);
        println!("END {k} op {t} {op} {a} {b} {res} {gt} {gv} {frames} {er} {ev}");
        if res != "ok" { cur = None; } // a faulted runtime is not reused
    }
    0
}

pub fn wide(args: &[String]) -> i32 {
    let seed = arg_u64(args, "--seed", 1);
    let runs = arg_u64(args, "--runs", 500) as usize;
    let mut o = Out::create(arg(args, "--out").expect("--out"));
    let cur = format!("{}.cur.st", arg(args, "--out").unwrap());
    let mut next = 0usize;
    let (mut accepted, mut rejected) = (0usize, 0usize);
    o.line(&json!({"a": "Reset", "wide": true}));
    // the full-width operator matrix (every case in quick and thorough; `--opslice K --opof N` thins it)
    let ncases = opm_cases().len();
    let (opslice, opof) = (arg_u64(args, "--opslice", 0) as usize, arg_u64(args, "--opof", 1) as usize);
    let mut onext = 0usize;
    while onext < ncases && opof != 0 {
        let exe = crate::util::self_exe();
        let out = std::process::Command::new(exe).args(["stwide-child", "--opmatrix", "1", "--from", &onext.to_string()]).output().unwrap();
        let text = String::from_utf8_lossy(&out.stdout).to_string();
        let mut began: Option<usize> = None;
        for line in text.lines() {
            let p: Vec<&str> = line.split(' ').collect();
            if p[0] == "BEGIN" { began = p[1].parse().ok(); }
            else if p[0] == "END" {
                let k: usize = p[1].parse().unwrap();
                if p[2] == "op" && k % opof == opslice % opof {
                    o.line(&json!({"a": "OpCase", "k": k, "t": p[3], "op": p[4], "x": p[5], "y": p[6], "res": p[7], "gotT": p[8], "got": p[9],
                                   "frames": p[10].parse::<i64>().unwrap_or(-1), "expRes": p[11], "exp": p[12]}));
                } else if p[2] == "rejected" {
                    o.line(&json!({"a": "OpCase", "k": k, "res": "rejected"}));
                }
                onext = k + 1; began = None;
            }
        }
        if let Some(k) = began {
            let c = opm_cases()[k];
            o.line(&json!({"a": "OpCase", "k": k, "t": OPM_TYPES[c.0].0, "op": OPM_OPS[c.1].0, "x": c.2.to_string(), "y": c.3.to_string(), "res": "Abort",
                           "gotT": "NONE", "got": "0", "frames": -1, "expRes": "", "exp": "0"}));
            onext = k + 1;
        } else if text.lines().count() == 0 { break; }
    }
    while next < runs {
        let exe = crate::util::self_exe();
        let out = std::process::Command::new(exe).args(["stwide-child", "--seed", &seed.to_string(), "--from", &next.to_string(), "--to", &runs.to_string(), "--cur", &cur]).output().unwrap();
        let text = String::from_utf8_lossy(&out.stdout).to_string();
        let mut began: Option<usize> = None;
        for line in text.lines() {
            let p: Vec<&str> = line.split(' ').collect();
            if p[0] == "BEGIN" { began = p[1].parse().ok(); }
            else if p[0] == "END" {
                let k: usize = p[1].parse().unwrap();
                if p[2] == "rejected" { rejected += 1; } else {
                    accepted += 1;
                    let src = std::fs::read_to_string(format!("{cur}.{k}")).unwrap_or_default();
                    let _ = std::fs::remove_file(format!("{cur}.{k}"));
                    o.line(&json!({"a": "Outcome", "k": k, "res": p[3], "frames": p[4].parse::<i64>().unwrap_or(-1), "src": src}));
                }
                next = k + 1; began = None;
            }
        }
        if let Some(k) = began {
            // the child died inside this program: abort / stack overflow
            accepted += 1;
            let src = std::fs::read_to_string(&cur).unwrap_or_default();
            o.line(&json!({"a": "Outcome", "k": k, "res": "Abort", "frames": -1, "src": src, "recursive": src.contains("FUNCTION Rec")}));
            next = k + 1;
        } else if text.lines().count() == 0 { eprintln!("stwide: child produced no output"); return 2; }
    }
    o.flush();
    println!("{}", json!({"accepted": accepted, "rejected": rejected}));
    0
}

/// debugging aid: print why generated wide programs are rejected
pub fn wide_why(args: &[String]) -> i32 {
    let seed = arg_u64(args, "--seed", 1);
    for (t, _, lits) in WIDE.iter() {
        for l in lits.iter() {
            let src = format!("PROGRAM P\nVAR\n x : {t} := {l};\nEND_VAR\nEND_PROGRAM\n");
            if let Err(e) = TestHarness::from_source(&src) {
                println!("LITERAL {t} {l}: {}", e.to_string().lines().next().unwrap_or(""));
            }
        }
    }
    let mut tally: std::collections::BTreeMap<String, usize> = Default::default();
    for k in 0..300usize {
        let mut g = Wide { rng: StdRng::seed_from_u64(seed.wrapping_mul(1_000_003).wrapping_add(k as u64)) };
        let mut src = String::from("PROGRAM P\nVAR\n");
        for (t, _, lits) in WIDE.iter() {
            for i in 1..=2 { src.push_str(&format!("  {}{i} : {t} := {};\n", t.to_lowercase(), lits[g.rng.gen_range(0..lits.len())])); }
        }
        src.push_str("  larr : ARRAY[-1..2] OF LINT;\nEND_VAR\n");
        let mut body = String::new();
        g.block(2, false, 0, &mut body);
        src.push_str(&body);
        src.push_str("END_PROGRAM\n");
        if let Err(e) = TestHarness::from_source(&src) {
            let msg = e.to_string();
            let first = msg.lines().next().unwrap_or("").to_string();
            // show the offending text
            let at = first.rsplit("at ").next().and_then(|s| s.trim_end_matches(')').split("..").next().map(|x| x.to_string())).and_then(|s| s.parse::<usize>().ok());
            let snippet = at.map(|a| src[a.min(src.len())..(a + 40).min(src.len())].replace('\n', " ")).unwrap_or_default();
            *tally.entry(format!("{} | {}", first.split(" (at").next().unwrap_or(""), snippet.chars().take(30).collect::<String>())).or_default() += 1;
        }
    }
    let mut v: Vec<_> = tally.into_iter().collect();
    v.sort_by_key(|x| std::cmp::Reverse(x.1));
    for (k, n) in v.iter().take(25) { println!("{n:4} {k}"); }
    0
}

/// The operator x type x boundary-operand matrix, each case a one-statement program.
/// `--slice K --of N` selects every N-th case starting at K (quick tier); all of it in thorough.
fn gen_matrix(args: &[String]) -> i32 {
    let (slice, of) = (arg_u64(args, "--slice", 0) as usize, arg_u64(args, "--of", 1) as usize);
    let mut o = Out::create(arg(args, "--out").expect("--out"));
    let mut k = 0usize;
    let ints = ["SINT", "INT", "DINT", "USINT", "UINT"];
    let mut emit = |t: &str, e: J, target: &str, k: &mut usize, o: &mut Out| {
        *k += 1;
        if *k % of != slice % of {
            return;
        }
        let mut decl = serde_json::Map::new();
        let mut init = serde_json::Map::new();
        let mut src = String::from("PROGRAM P\nVAR\n");
        for ty in TYPES {
            let n = format!("{}1", ty.to_lowercase());
            src.push_str(&format!("  {n} : {ty};\n"));
            decl.insert(n.clone(), json!({"t": ty}));
            init.insert(n, json!({"t": ty, "v": 0}));
        }
        src.push_str("  arr : ARRAY[0..3] OF INT;\nEND_VAR\n");
        decl.insert("arr".into(), json!({"t": "ARRAY", "el": "INT", "lo": 0, "hi": 3}));
        init.insert("arr".into(), json!({"t": "ARRAY", "lo": 0, "el": [{"t": "INT", "v": 0}, {"t": "INT", "v": 0}, {"t": "INT", "v": 0}, {"t": "INT", "v": 0}]}));
        let body = vec![json!({"k": "assign", "n": target, "e": e})];
        stmts_src(&body, true, 0, &mut src);
        src.push_str("END_PROGRAM\n");
        let _ = t;
        o.line(&json!({"profile": "matrix", "funcs": {}, "fbs": {}, "decl": decl, "init": init, "body": body, "src": src, "drift": [], "inputs": [[], []]}));
    };
    for t in ints {
        let (l, h) = (lo(t), hi(t));
        let mut bv = vec![l, l + 1, -1, 0, 1, 2, 7, h - 1, h];
        bv.retain(|v| *v >= l && *v <= h);
        bv.sort();
        bv.dedup();
        let tv = format!("{}1", t.to_lowercase());
        for a in &bv {
            if l < 0 {
                emit(t, json!({"k": "un", "op": "neg", "e": {"k": "lit", "t": t, "v": a}}), &tv, &mut k, &mut o);
            }
            for b in &bv {
                for op in ["add", "sub", "mul", "div", "mod"] {
                    emit(t, json!({"k": "bin", "op": op, "l": {"k": "lit", "t": t, "v": a}, "r": {"k": "lit", "t": t, "v": b}}), &tv, &mut k, &mut o);
                }
                for op in ["eq", "ne", "lt", "le", "gt", "ge"] {
                    emit(t, json!({"k": "bin", "op": op, "l": {"k": "lit", "t": t, "v": a}, "r": {"k": "lit", "t": t, "v": b}}), "bool1", &mut k, &mut o);
                }
            }
        }
    }
    for a in [0, 1] {
        emit("BOOL", json!({"k": "un", "op": "not", "e": {"k": "lit", "t": "BOOL", "v": a}}), "bool1", &mut k, &mut o);
        for b in [0, 1] {
            for op in ["and", "or", "xor"] {
                emit("BOOL", json!({"k": "bin", "op": op, "l": {"k": "lit", "t": "BOOL", "v": a}, "r": {"k": "lit", "t": "BOOL", "v": b}}), "bool1", &mut k, &mut o);
            }
        }
    }
    o.flush();
    0
}
