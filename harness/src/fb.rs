//! StdFb domain (C04): standard function blocks, driven two ways — through the public
//! `Ton/Tof/Tp/Ctu/Ctd/Ctud/RTrig/FTrig/Sr/Rs::step` structs ("struct") and through an ST
//! program owning two instances executed by the real runtime ("st").
use crate::util::*;
use rand::{rngs::StdRng, Rng, SeedableRng};
use serde_json::{json, Value as J};
use trust_runtime::harness::TestHarness;
use trust_runtime::stdlib::fbs::{Ctd, Ctu, Ctud, FTrig, RTrig, Rs, Sr, Tof, Ton, Tp};
use trust_runtime::value::{Duration, Value};

const KINDS: [&str; 10] = ["TON", "TOF", "TP", "CTU", "CTD", "CTUD", "R_TRIG", "F_TRIG", "SR", "RS"];

pub fn gen(args: &[String]) -> i32 {
    let seed = arg_u64(args, "--seed", 1);
    let runs = arg_u64(args, "--runs", 100) as usize;
    let mut rng = StdRng::seed_from_u64(seed ^ 0xfb_fb);
    let mut o = Out::create(arg(args, "--out").expect("--out"));
    for n in 0..runs {
        let kind = KINDS[n % KINDS.len()];
        let via = if rng.gen_bool(0.5) { "st" } else { "struct" };
        o.line(&gen_script(&mut rng, kind, via));
    }
    o.flush();
    0
}

/// (suffix, lo, hi, off) of the counter variants.  The model works on small integers (TLC's are 32-bit):
/// a run of a wide type looks at a WINDOW of its range, real value = off + model value, so that the
/// bound of the type that lies inside the window is a small model number (hi = 1000 means the type's
/// maximum) and the other bound is absent.
fn ctype(rng: &mut StdRng, via: &str) -> (&'static str, Option<i64>, Option<i64>, i128) {
    if via == "struct" {
        return ("INT", Some(-32768), Some(32767), 0);
    }
    match rng.gen_range(0..10) {
        0 | 1 => ("INT", Some(-32768), Some(32767), 0),
        2 => ("DINT", Some(-2147483648), Some(2147483647), 0),
        3 => ("UDINT", Some(0), None, 0),
        4 => ("UDINT", None, Some(1000), u32::MAX as i128 - 1000),
        5 => ("ULINT", Some(0), None, 0),
        6 => ("ULINT", None, Some(1000), u64::MAX as i128 - 1000),
        7 => ("LINT", None, None, 0),
        8 => ("LINT", None, Some(1000), i64::MAX as i128 - 1000),
        _ => ("LINT", Some(-1000), None, i64::MIN as i128 + 1000),
    }
}

fn gen_script(rng: &mut StdRng, kind: &str, via: &str) -> J {
    let n = rng.gen_range(3..14);
    let mut steps = Vec::new();
    let (ct, lo, hi, off) = ctype(rng, via);
    let windowed = off != 0; // CV must be put into the window first and never reset to the real 0
    let pts: [i64; 7] = [-1, 0, 1, 2, 3, 7, 1000];
    let mut pt = [pts[rng.gen_range(0..7)], pts[rng.gen_range(0..7)]];
    let vary_pt = rng.gen_bool(0.35);
    let pvs: Vec<i64> = {
        let mut v = vec![0, 1, 2, 3];
        if lo.map_or(true, |l| l < 0) {
            v.push(-1);
        }
        if let Some(h) = hi {
            v.push(h);
            v.push(h - 1);
        }
        if let Some(l) = lo {
            v.push(l);
            if l < 0 {
                v.push(l + 1);
            }
        }
        v
    };
    if windowed && matches!(kind, "CTU" | "CTD" | "CTUD") {
        for i in 1..=2 {
            let b = hi.or(lo).unwrap();
            steps.push(json!({"a": "Preset", "i": i, "cv": b + [0i64, 0, 1, 2, 3, 5][rng.gen_range(0..6)] * if hi.is_some() { -1 } else { 1 }}));
        }
    }
    for k in 0..n {
        let i = rng.gen_range(1..=2usize);
        // mostly small steps (PT 1..7 is crossed step by step), now and then one that jumps far beyond PT
        let dt: i64 = if k == 0 { 0 } else if rng.gen_bool(0.85) { [0, 0, 1, 2, 3, 5, 7][rng.gen_range(0..7)] } else { [50, 993, 1000, 1001, 5000][rng.gen_range(0..5)] };
        let b = |rng: &mut StdRng, p: f64| rng.gen_bool(p);
        let input = match kind {
            "TON" | "TOF" | "TP" => {
                if vary_pt && rng.gen_bool(0.3) {
                    pt[i - 1] = pts[rng.gen_range(0..7)];
                }
                json!({"in": b(rng, 0.55), "pt": pt[i - 1]})
            }
            "CTU" => json!({"cu": b(rng, 0.6), "r": !windowed && b(rng, 0.1), "pv": pvs[rng.gen_range(0..pvs.len())]}),
            "CTD" => json!({"cd": b(rng, 0.6), "ld": b(rng, 0.15), "pv": pvs[rng.gen_range(0..pvs.len())]}),
            "CTUD" => json!({"cu": b(rng, 0.5), "cd": b(rng, 0.4), "r": !windowed && b(rng, 0.08), "ld": b(rng, 0.12), "pv": pvs[rng.gen_range(0..pvs.len())]}),
            "R_TRIG" | "F_TRIG" => json!({"clk": b(rng, 0.5)}),
            "SR" => json!({"s1": b(rng, 0.4), "r": b(rng, 0.4)}),
            _ => json!({"s": b(rng, 0.4), "r1": b(rng, 0.4)}),
        };
        if via == "st" && matches!(kind, "CTU" | "CTD" | "CTUD") && rng.gen_bool(0.12) {
            // a debugger-style write that puts CV next to a bound of its type
            let mut cands = vec![0i64, 5];
            if let Some(h) = hi {
                cands.extend([h, h - 1]);
            }
            if let Some(l) = lo {
                cands.extend([l, l + 1]);
            }
            steps.push(json!({"a": "Preset", "i": i, "cv": cands[rng.gen_range(0..cands.len())]}));
        }
        steps.push(json!({"a": "Call", "i": i, "in": input, "dt": dt}));
    }
    // the other names the same blocks are registered under (TON_LTIME, DIFU / DIFD, CTU_INT): same model
    let variant = if via == "st" && rng.gen_bool(0.3) {
        match kind {
            "TON" | "TOF" | "TP" => "LTIME",
            "R_TRIG" | "F_TRIG" => "ALIAS",
            "CTU" | "CTD" | "CTUD" if ct == "INT" => "SUFFIX",
            _ => "",
        }
    } else {
        ""
    };
    json!({"kind": kind, "via": via, "ctype": ct, "variant": variant, "off": off.to_string(), "hasLo": lo.is_some(), "lo": lo.unwrap_or(0), "hasHi": hi.is_some(), "hi": hi.unwrap_or(0), "steps": steps})
}

fn ms(d: Duration) -> i64 {
    d.as_nanos() / 1_000_000
}

enum S {
    Ton(Ton),
    Tof(Tof),
    Tp(Tp),
    Ctu(Ctu),
    Ctd(Ctd),
    Ctud(Ctud),
    R(RTrig),
    F(FTrig),
    Sr(Sr),
    Rs(Rs),
}
fn new_struct(kind: &str) -> S {
    match kind {
        "TON" => S::Ton(Ton::new()),
        "TOF" => S::Tof(Tof::new()),
        "TP" => S::Tp(Tp::new()),
        "CTU" => S::Ctu(Ctu::new()),
        "CTD" => S::Ctd(Ctd::new()),
        "CTUD" => S::Ctud(Ctud::new()),
        "R_TRIG" => S::R(RTrig::new()),
        "F_TRIG" => S::F(FTrig::new()),
        "SR" => S::Sr(Sr::new()),
        _ => S::Rs(Rs::new()),
    }
}
fn bo(j: &J, k: &str) -> bool {
    j[k].as_bool().unwrap_or(false)
}
fn step_struct(s: &mut S, input: &J, delta: i64) -> J {
    let pt = Duration::from_millis(input["pt"].as_i64().unwrap_or(0));
    let d = Duration::from_millis(delta);
    let pv = input["pv"].as_i64().unwrap_or(0) as i16;
    match s {
        S::Ton(t) => {
            let o = t.step(bo(input, "in"), pt, d);
            json!({"q": o.q, "et": ms(o.et)})
        }
        S::Tof(t) => {
            let o = t.step(bo(input, "in"), pt, d);
            json!({"q": o.q, "et": ms(o.et)})
        }
        S::Tp(t) => {
            let o = t.step(bo(input, "in"), pt, d);
            json!({"q": o.q, "et": ms(o.et)})
        }
        S::Ctu(c) => {
            let o = c.step(bo(input, "cu"), bo(input, "r"), pv);
            json!({"q": o.q, "cv": o.cv})
        }
        S::Ctd(c) => {
            let o = c.step(bo(input, "cd"), bo(input, "ld"), pv);
            json!({"q": o.q, "cv": o.cv})
        }
        S::Ctud(c) => {
            let o = c.step(bo(input, "cu"), bo(input, "cd"), bo(input, "r"), bo(input, "ld"), pv);
            json!({"qu": o.qu, "qd": o.qd, "cv": o.cv})
        }
        S::R(t) => json!({"q": t.step(bo(input, "clk"))}),
        S::F(t) => json!({"q": t.step(bo(input, "clk"))}),
        S::Sr(t) => json!({"q1": t.step(bo(input, "s1"), bo(input, "r"))}),
        S::Rs(t) => json!({"q1": t.step(bo(input, "s"), bo(input, "r1"))}),
    }
}

pub fn st_source(kind: &str, ct: &str, variant: &str) -> String {
    let tt = if variant == "LTIME" { "LTIME" } else { "TIME" };
    let (fb, decl, call): (String, String, Box<dyn Fn(usize) -> String>) = match kind {
        "TON" | "TOF" | "TP" => (if variant == "LTIME" { format!("{kind}_LTIME") } else { kind.into() }, format!("xin : BOOL; xpt : {tt}; oq1 : BOOL; oq2 : BOOL; oe1 : {tt}; oe2 : {tt};"),
            Box::new(|i| format!("f{i}(IN := xin, PT := xpt, Q => oq{i}, ET => oe{i});"))),
        "CTU" => (if ct == "INT" && variant != "SUFFIX" { "CTU".into() } else { format!("CTU_{ct}") },
            format!("xcu : BOOL; xr : BOOL; xpv : {ct}; oq1 : BOOL; oq2 : BOOL; ocv1 : {ct}; ocv2 : {ct};"),
            Box::new(|i| format!("f{i}(CU := xcu, R := xr, PV := xpv, Q => oq{i}, CV => ocv{i});"))),
        "CTD" => (if ct == "INT" && variant != "SUFFIX" { "CTD".into() } else { format!("CTD_{ct}") },
            format!("xcd : BOOL; xld : BOOL; xpv : {ct}; oq1 : BOOL; oq2 : BOOL; ocv1 : {ct}; ocv2 : {ct};"),
            Box::new(|i| format!("f{i}(CD := xcd, LD := xld, PV := xpv, Q => oq{i}, CV => ocv{i});"))),
        "CTUD" => (if ct == "INT" && variant != "SUFFIX" { "CTUD".into() } else { format!("CTUD_{ct}") },
            format!("xcu : BOOL; xcd : BOOL; xr : BOOL; xld : BOOL; xpv : {ct}; oqu1 : BOOL; oqu2 : BOOL; oqd1 : BOOL; oqd2 : BOOL; ocv1 : {ct}; ocv2 : {ct};"),
            Box::new(|i| format!("f{i}(CU := xcu, CD := xcd, R := xr, LD := xld, PV := xpv, QU => oqu{i}, QD => oqd{i}, CV => ocv{i});"))),
        "R_TRIG" | "F_TRIG" => (if variant == "ALIAS" { if kind == "R_TRIG" { "DIFU".into() } else { "DIFD".into() } } else { kind.into() }, "xclk : BOOL; oq1 : BOOL; oq2 : BOOL;".into(),
            Box::new(|i| format!("f{i}(CLK := xclk, Q => oq{i});"))),
        "SR" => ("SR".into(), "xs : BOOL; xr : BOOL; oq1 : BOOL; oq2 : BOOL;".into(),
            Box::new(|i| format!("f{i}(S1 := xs, R := xr, Q1 => oq{i});"))),
        _ => ("RS".into(), "xs : BOOL; xr : BOOL; oq1 : BOOL; oq2 : BOOL;".into(),
            Box::new(|i| format!("f{i}(S := xs, R1 := xr, Q1 => oq{i});"))),
    };
    format!("PROGRAM P\nVAR\n  f1 : {fb};\n  f2 : {fb};\n  sel : INT;\n  {decl}\nEND_VAR\nIF sel = INT#1 THEN {} END_IF;\nIF sel = INT#2 THEN {} END_IF;\nEND_PROGRAM\n", call(1), call(2))
}

fn cval(ct: &str, v: i64, off: i128) -> Value {
    let x = off + v as i128;
    match ct {
        "INT" => Value::Int(x as i16),
        "DINT" => Value::DInt(x as i32),
        "UDINT" => Value::UDInt(x as u32),
        "LINT" => Value::LInt(x as i64),
        _ => Value::ULInt(x as u64),
    }
}
/// The model value of a counter value (real - off); anything further from the window than a 32-bit
/// integer can say is reported as the nearest 32-bit integer (far from anything the model expects in a windowed run).
fn cnum(v: &Value, off: i128) -> J {
    let x: i128 = match v {
        Value::Int(x) => *x as i128,
        Value::DInt(x) => *x as i128,
        Value::UDInt(x) => *x as i128,
        Value::LInt(x) => *x as i128,
        Value::ULInt(x) => *x as i128,
        o => return json!(format!("{o:?}")),
    };
    json!((x - off).clamp(i32::MIN as i128, i32::MAX as i128) as i64)
}

pub fn run(args: &[String]) -> i32 {
    let scripts = read_ndjson(arg(args, "--scripts").expect("--scripts"));
    let mut o = Out::create(arg(args, "--out").expect("--out"));
    for sc in &scripts {
        run_script(sc, &mut o);
    }
    o.flush();
    0
}

fn run_script(sc: &J, o: &mut Out) {
    let kind = sc["kind"].as_str().unwrap();
    let via = sc["via"].as_str().unwrap();
    let ct = sc["ctype"].as_str().unwrap();
    let off: i128 = sc["off"].as_str().and_then(|x| x.parse().ok()).unwrap_or(0);
    o.line(&json!({"a": "Reset", "kind": kind, "via": via, "ctype": ct, "hasLo": sc["hasLo"], "lo": sc["lo"], "hasHi": sc["hasHi"], "hi": sc["hi"]}));
    let mut now: i64 = 0;
    if via == "struct" {
        let mut inst = [new_struct(kind), new_struct(kind)];
        let mut last: [Option<i64>; 2] = [None, None];
        for st in sc["steps"].as_array().unwrap() {
            if st["a"] != "Call" {
                continue;
            }
            let i = st["i"].as_u64().unwrap() as usize - 1;
            now += st["dt"].as_i64().unwrap();
            let delta = last[i].map_or(0, |l| now - l);
            last[i] = Some(now);
            let out = step_struct(&mut inst[i], &st["in"], delta);
            o.line(&json!({"a": "Call", "i": i + 1, "in": st["in"], "dt": st["dt"], "out": out}));
        }
        return;
    }
    let variant = sc["variant"].as_str().unwrap_or("");
    let src = st_source(kind, ct, variant);
    let mut h = TestHarness::from_source(&src).unwrap_or_else(|e| panic!("StdFb program rejected: {e}\n{src}"));
    for st in sc["steps"].as_array().unwrap() {
        let i = st["i"].as_u64().unwrap() as usize;
        if st["a"] == "Preset" {
            let id = match h.get_output(&format!("f{i}")) {
                Some(Value::Instance(id)) => id,
                o => panic!("instance f{i}: {o:?}"),
            };
            h.runtime_mut().storage_mut().set_instance_var(id, "CV", cval(ct, st["cv"].as_i64().unwrap(), off));
            o.line(st);
            continue;
        }
        let input = &st["in"];
        let dt = st["dt"].as_i64().unwrap();
        now += dt;
        h.advance_time(Duration::from_millis(dt));
        h.set_input("sel", Value::Int(i as i16));
        match kind {
            "TON" | "TOF" | "TP" => {
                h.set_input("xin", Value::Bool(bo(input, "in")));
                let pt = Duration::from_millis(input["pt"].as_i64().unwrap());
                h.set_input("xpt", if variant == "LTIME" { Value::LTime(pt) } else { Value::Time(pt) });
            }
            "CTU" | "CTD" | "CTUD" => {
                for (k, v) in [("cu", "xcu"), ("cd", "xcd"), ("r", "xr"), ("ld", "xld")] {
                    if !input[k].is_null() {
                        h.set_input(v, Value::Bool(bo(input, k)));
                    }
                }
                h.set_input("xpv", cval(ct, input["pv"].as_i64().unwrap(), off));
            }
            "R_TRIG" | "F_TRIG" => h.set_input("xclk", Value::Bool(bo(input, "clk"))),
            "SR" => {
                h.set_input("xs", Value::Bool(bo(input, "s1")));
                h.set_input("xr", Value::Bool(bo(input, "r")));
            }
            _ => {
                h.set_input("xs", Value::Bool(bo(input, "s")));
                h.set_input("xr", Value::Bool(bo(input, "r1")));
            }
        }
        let r = h.cycle();
        if !r.errors.is_empty() {
            o.line(&json!({"a": "Call", "i": i, "in": input, "dt": dt, "out": {"error": format!("{:?}", r.errors[0])}}));
            continue;
        }
        let gb = |n: &str| matches!(h.get_output(n), Some(Value::Bool(true)));
        let out = match kind {
            "TON" | "TOF" | "TP" => {
                let et = match h.get_output(&format!("oe{i}")) {
                    Some(Value::Time(d)) | Some(Value::LTime(d)) => ms(d),
                    o => panic!("ET = {o:?}"),
                };
                json!({"q": gb(&format!("oq{i}")), "et": et})
            }
            "CTU" | "CTD" => json!({"q": gb(&format!("oq{i}")), "cv": cnum(&h.get_output(&format!("ocv{i}")).unwrap(), off)}),
            "CTUD" => json!({"qu": gb(&format!("oqu{i}")), "qd": gb(&format!("oqd{i}")), "cv": cnum(&h.get_output(&format!("ocv{i}")).unwrap(), off)}),
            "R_TRIG" | "F_TRIG" => json!({"q": gb(&format!("oq{i}"))}),
            _ => json!({"q1": gb(&format!("oq{i}"))}),
        };
        o.line(&json!({"a": "Call", "i": i, "in": input, "dt": dt, "out": out}));
    }
    let _ = now;
}
