//! Determinism domain (C05): the same sources compiled and the same scripts executed in
//! separate OS processes must give byte-identical containers and identical per-cycle
//! observations.  `det-child` is one such process: for every program index in its range it
//! prints one JSON line with the container hash and the digest of every cycle's observation.
use crate::cycle;
use crate::util::*;
use rand::{rngs::StdRng, Rng, SeedableRng};
use serde_json::{json, Value as J};
use sha2::{Digest, Sha256};
use trust_runtime::harness::{bytecode_bytes_from_source, TestHarness};
use trust_runtime::value::{Duration, Value};

fn hex(b: &[u8]) -> String {
    let mut h = Sha256::new();
    h.update(b);
    h.finalize().iter().take(12).map(|x| format!("{x:02x}")).collect()
}

/// Many names (POUs, types, methods, strings, globals), shuffled by the seed so that any
/// hash-map iteration order that leaked into the output would differ between processes.
fn many_names(rng: &mut StdRng) -> String {
    let n = rng.gen_range(12..40);
    let mut ids: Vec<usize> = (0..n).collect();
    for i in (1..ids.len()).rev() {
        ids.swap(i, rng.gen_range(0..=i));
    }
    let mut src = String::new();
    for i in &ids {
        src.push_str(&format!("TYPE S{i} : STRUCT f{i} : INT; g{i} : ARRAY[0..2] OF BOOL; END_STRUCT END_TYPE\n"));
    }
    for i in &ids {
        src.push_str(&format!("FUNCTION_BLOCK FB{i}\nVAR_INPUT a{i} : INT; END_VAR\nVAR_OUTPUT o{i} : INT; END_VAR\nVAR s : S{i}; END_VAR\nMETHOD PUBLIC M{i} : INT\nVAR_INPUT p : INT; END_VAR\nM{i} := p + INT#{i};\nEND_METHOD\no{i} := a{i} + s.f{i};\nEND_FUNCTION_BLOCK\n"));
    }
    for i in &ids {
        src.push_str(&format!("FUNCTION Fn{i} : INT\nVAR_INPUT x : INT; END_VAR\nFn{i} := x + INT#{i};\nEND_FUNCTION\n"));
        // several outputs of one call bound to the SAME variable: which one survives is decided by the order in
        // which the outputs are copied back, which must be the declaration order in every process
        src.push_str(&format!("FUNCTION Split{i} : INT\nVAR_INPUT v : INT; END_VAR\nVAR_OUTPUT lo : INT; hi : INT; mid : INT; END_VAR\nlo := v;\nhi := v + INT#1;\nmid := v + INT#2;\nSplit{i} := v;\nEND_FUNCTION\n"));
        src.push_str(&format!("FUNCTION_BLOCK Fan{i}\nVAR_INPUT v : INT; END_VAR\nVAR_OUTPUT first : INT; second : INT; third : INT; END_VAR\nfirst := v + INT#10;\nsecond := v + INT#20;\nthird := v + INT#30;\nEND_FUNCTION_BLOCK\n"));
    }
    src.push_str("PROGRAM Main\nVAR\n");
    for i in &ids {
        src.push_str(&format!("  inst{i} : FB{i}; v{i} : INT; str{i} : STRING := 'text {i}'; w{i} : INT; u{i} : INT; fan{i} : Fan{i};\n"));
    }
    src.push_str("END_VAR\n");
    for i in &ids {
        src.push_str(&format!("inst{i}(a{i} := v{i}, o{i} => v{i}); v{i} := Fn{i}(x := v{i}) + inst{i}.M{i}(p := INT#1);\n"));
        src.push_str(&format!("u{i} := Split{i}(v := v{i} MOD INT#100, lo => w{i}, hi => w{i}, mid => w{i});\nfan{i}(v := w{i} MOD INT#100, first => u{i}, second => u{i}, third => u{i});\n"));
    }
    src.push_str("END_PROGRAM\n");
    src
}

/// Many function-block types with directly addressed members, instantiated side by side (several
/// instances of one type drive the same output address: last writer wins) and nested inside other
/// blocks: the order in which bindings are collected and flushed must not depend on the process.
fn io_names(rng: &mut StdRng) -> String {
    let n = rng.gen_range(4..12);
    let mut ids: Vec<usize> = (0..n).collect();
    for i in (1..ids.len()).rev() {
        ids.swap(i, rng.gen_range(0..=i));
    }
    let mut src = String::new();
    for i in &ids {
        let (byte, bit, w) = (i / 8, i % 8, 4 + 2 * (i % 5));
        src.push_str(&format!("FUNCTION_BLOCK Lamp{i}\nVAR_INPUT en : BOOL; k : INT; END_VAR\nVAR_OUTPUT coil AT %QX{byte}.{bit} : BOOL; lvl AT %QW{w} : WORD; END_VAR\nVAR sens AT %IX{byte}.{bit} : BOOL; cnt : INT; END_VAR\ncnt := cnt + k;\ncoil := en XOR sens;\nlvl := INT_TO_WORD(cnt);\nEND_FUNCTION_BLOCK\n"));
    }
    for i in &ids {
        let j = ids[(i + 1) % ids.len()];
        src.push_str(&format!("FUNCTION_BLOCK Panel{i}\nVAR_INPUT en : BOOL; END_VAR\nVAR a : Lamp{i}; b : Lamp{j}; c : Lamp{i}; END_VAR\na(en := en, k := INT#{});\nb(en := NOT en, k := INT#{});\nc(en := en, k := INT#{});\nEND_FUNCTION_BLOCK\n", i + 1, i + 2, i + 3));
    }
    src.push_str("PROGRAM Main\nVAR\n  tick : INT;\n");
    for i in &ids {
        src.push_str(&format!("  l{i}a : Lamp{i}; l{i}b : Lamp{i}; p{i} : Panel{i}; l{i}c : Lamp{i};\n"));
    }
    src.push_str("END_VAR\ntick := tick + INT#1;\n");
    for i in &ids {
        src.push_str(&format!("l{i}a(en := TRUE, k := INT#{});\nl{i}b(en := FALSE, k := INT#{});\np{i}(en := (tick MOD 2) = 0);\nl{i}c(en := TRUE, k := tick);\n", 2 * i + 1, 3 * i + 2));
    }
    src.push_str("END_PROGRAM\n");
    src
}

/// Configuration-level names: many globals (plain, RETAIN, directly addressed), many tasks of equal priority
/// and interval, many program instances (with and without task), enumerations and a namespace: whatever order
/// the configuration is walked in must be the declaration order, never a hash order.
fn conf_names(rng: &mut StdRng) -> String {
    let n = rng.gen_range(5..14);
    let mut ids: Vec<usize> = (0..n).collect();
    for i in (1..ids.len()).rev() {
        ids.swap(i, rng.gen_range(0..=i));
    }
    let mut src = String::new();
    for i in &ids {
        src.push_str(&format!("TYPE E{i} : (A{i} := 1, B{i} := 2, C{i} := 3) INT; END_TYPE\n"));
    }
    src.push_str("NAMESPACE Lib\n");
    for i in &ids {
        src.push_str(&format!("FUNCTION Inc{i} : INT\nVAR_INPUT x : INT; END_VAR\nInc{i} := x + INT#{};\nEND_FUNCTION\n", i + 1));
    }
    src.push_str("END_NAMESPACE\n");
    for i in &ids {
        src.push_str(&format!("PROGRAM PT{i}\nVAR_EXTERNAL g{i} : INT; r{i} : INT; q{i} : WORD; tick : INT; END_VAR\nVAR e : E{i} := E{i}#A{i}; n : INT; END_VAR\nn := Lib.Inc{i}(x := n);\ng{i} := g{i} + n;\nr{i} := r{i} + INT#1;\nq{i} := INT_TO_WORD(g{i});\ntick := tick + INT#1;\nIF e = E{i}#A{i} THEN e := E{i}#B{i}; ELSE e := E{i}#A{i}; END_IF;\nEND_PROGRAM\n"));
    }
    src.push_str("CONFIGURATION C\nVAR_GLOBAL\n  tick : INT;\n");
    for i in &ids {
        src.push_str(&format!("  g{i} : INT := INT#{i};\n  q{i} AT %QW{} : WORD;\n", 2 * (i % 4)));
    }
    src.push_str("END_VAR\nVAR_GLOBAL RETAIN\n");
    for i in &ids {
        src.push_str(&format!("  r{i} : INT;\n"));
    }
    src.push_str("END_VAR\n");
    for i in &ids {
        src.push_str(&format!("TASK T{i} (INTERVAL := T#{}ms, PRIORITY := {});\n", [5, 5, 10][i % 3], i % 2));
    }
    for i in &ids {
        if i % 3 == 2 {
            src.push_str(&format!("PROGRAM I{i} : PT{i};\n"));
        } else {
            src.push_str(&format!("PROGRAM I{i} WITH T{} : PT{i};\n", ids[(i + 1) % ids.len()]));
        }
    }
    src.push_str("END_CONFIGURATION\n");
    src
}

/// Canonical rendering of the variable state: by name, instances expanded by content (their ids and
/// any map insertion order are representation, not state).
fn render(st: &trust_runtime::memory::VariableStorage, v: &Value, depth: u32) -> String {
    match v {
        Value::Instance(id) if depth < 8 => match st.get_instance(*id) {
            Some(inst) => {
                let mut items: Vec<String> = inst.variables.iter().map(|(k, x)| format!("{}={}", k.to_ascii_uppercase(), render(st, x, depth + 1))).collect();
                items.sort();
                format!("{}{{{}}}", inst.type_name.to_ascii_uppercase(), items.join(";"))
            }
            None => "dangling".into(),
        },
        Value::Instance(_) => "deep".into(),
        Value::Reference(r) => if r.is_some() { "ref".into() } else { "nullref".into() },
        Value::Array(a) => format!("[{}]", a.elements.iter().map(|x| render(st, x, depth + 1)).collect::<Vec<_>>().join(",")),
        Value::Struct(s) => {
            let mut items: Vec<String> = s.fields.iter().map(|(k, x)| format!("{}={}", k.to_ascii_uppercase(), render(st, x, depth + 1))).collect();
            items.sort();
            format!("{{{}}}", items.join(";"))
        }
        o => format!("{o:?}"),
    }
}
fn storage_digest(h: &TestHarness) -> String {
    let st = h.runtime().storage();
    let mut items: Vec<String> = st.globals().iter().map(|(k, v)| format!("{}={}", k.to_ascii_uppercase(), render(st, v, 0))).collect();
    items.sort();
    hex(items.join("\n").as_bytes())
}

pub fn child(args: &[String]) -> i32 {
    let seed = arg_u64(args, "--seed", 1);
    let from = arg_u64(args, "--from", 0) as usize;
    let to = arg_u64(args, "--to", 10) as usize;
    let scripts = arg(args, "--scripts").map(read_ndjson).unwrap_or_default();
    let mut order: Vec<usize> = (from..to).collect();
    if arg_u64(args, "--reverse", 0) == 1 {
        order.reverse();
    }
    for k in order {
        let mut rng = StdRng::seed_from_u64(seed.wrapping_mul(7919).wrapping_add(k as u64));
        let (kind, src, steps): (&str, String, Vec<J>) = if k % 16 == 12 {
            ("simnames", SIM_PROGRAM.to_string(), vec![])
        } else if k % 8 == 6 {
            ("confnames", conf_names(&mut rng), vec![])
        } else if k % 4 == 2 {
            ("ionames", io_names(&mut rng), vec![])
        } else if k % 2 == 0 || scripts.is_empty() {
            ("names", many_names(&mut rng), vec![])
        } else {
            let sc = &scripts[(k / 2) % scripts.len()];
            ("cycle", cycle::render_source(&sc["cfg"]), sc["steps"].as_array().cloned().unwrap_or_default())
        };
        let bytes = match bytecode_bytes_from_source(&src) {
            Ok(b) => format!("{}:{}", b.len(), hex(&b)),
            Err(e) => format!("error:{}", hex(e.to_string().as_bytes())),
        };
        // the deployed way of compiling: the same program spread over the files of a project folder (four files,
        // one in a sub-directory), built by bundle_builder::build_program_stbc -- the folder has the same path in every
        // process (the container names its source files), so processes take turns on it
        let bytes = if kind == "names" || kind == "confnames" {
            format!("{bytes}/bundle:{}", bundle_bytes(&src, k))
        } else {
            bytes
        };
        let mut digests: Vec<String> = Vec::new();
        match TestHarness::from_source(&src) {
            Ok(mut h) => {
                let dbg = h.runtime_mut().enable_debug();
                if kind == "simnames" {
                    // the simulation layer (simulation.toml -> SimulationController), hooked around the cycle the way the
                    // resource loop does it: several couplings drive one input word with one delay
                    match sim_controller(&mut rng, k) {
                        Ok(mut sim) => {
                            h.runtime_mut().io_mut().resize(4, 4, 0);
                            for _ in 0..7 {
                                h.advance_time(Duration::from_millis(10));
                                let now = h.runtime().current_time();
                                let pre = sim.apply_pre_cycle(now, h.runtime_mut()).err().map(|e| format!("{e:?}")).unwrap_or_default();
                                let r = h.cycle();
                                let post = sim.apply_post_cycle(now, h.runtime()).err().map(|e| format!("{e:?}")).unwrap_or_default();
                                let io = h.runtime().io();
                                digests.push(format!("{}|{}|{}|{}", storage_digest(&h), hex(format!("{:?}{pre}{post}", r.errors).as_bytes()), hex(io.inputs()), hex(io.outputs())));
                            }
                        }
                        Err(e) => digests.push(format!("simulation-config-error:{}", hex(e.as_bytes()))),
                    }
                } else if kind == "names" || kind == "ionames" || kind == "confnames" {
                    for c in 0..4 {
                        h.advance_time(Duration::from_millis(7));
                        if kind == "names" {
                            h.set_input("v3", Value::Int(c));
                        } else if kind == "confnames" {
                            h.advance_time(Duration::from_millis(3 + c as i64));
                        } else {
                            let _ = h.set_direct_input(&format!("%IX0.{}", c % 8), Value::Bool(c % 2 == 0));
                        }
                        let r = h.cycle();
                        let evs = dbg.drain_runtime_events();
                        let image = hex(h.runtime().io().outputs());
                        digests.push(format!("{}|{}|{}|{}", storage_digest(&h), hex(format!("{:?}", r.errors).as_bytes()), hex(format!("{evs:?}").as_bytes()), image));
                    }
                } else {
                    for st in &steps {
                        match st["a"].as_str().unwrap_or("") {
                            "Advance" => h.advance_time(Duration::from_millis(st["dt"].as_i64().unwrap())),
                            "SetSingle" => h.set_input(st["s"].as_str().unwrap(), Value::Bool(st["b"].as_bool().unwrap())),
                            "Inject" => {
                                let j: usize = st["prog"].as_str().unwrap()[1..].parse().unwrap();
                                h.set_input("inj", Value::Int((j * 100 + st["at"].as_u64().unwrap() as usize) as i16));
                            }
                            "DirectWrite" if st["addr"]["area"] == "I" => {
                                let b = bytes_of(&st["val"]);
                                let a = &st["addr"];
                                let text = if a["size"] == "X" { format!("%IX{}.{}", a["byte"], a["bit"]) } else { format!("%I{}{}", a["size"].as_str().unwrap(), a["byte"]) };
                                let v = match a["size"].as_str().unwrap() { "X" => Value::Bool(b[0] == 1), "B" => Value::Byte(b[0]), "W" => from_le_bytes("WORD", &b), "D" => from_le_bytes("DWORD", &b), _ => from_le_bytes("LWORD", &b) };
                                let _ = h.set_direct_input(&text, v);
                            }
                            "Restart" => {
                                let _ = h.restart(if st["mode"] == "warm" { trust_runtime::RestartMode::Warm } else { trust_runtime::RestartMode::Cold });
                            }
                            "Cycle" => {
                                let r = h.cycle();
                                let evs = dbg.drain_runtime_events();
                                let io = h.runtime().io();
                                digests.push(format!("{}|{}|{}|{}", storage_digest(&h), hex(format!("{:?}", r.errors).as_bytes()), hex(format!("{evs:?}").as_bytes()), hex(io.outputs())));
                            }
                            _ => {}
                        }
                    }
                }
            }
            Err(e) => digests.push(format!("compile-error:{}", hex(e.to_string().as_bytes()))),
        }
        println!("{}", json!({"k": k, "kind": kind, "bytes": bytes, "digests": digests, "srclen": src.len()}));
    }
    0
}

fn bundle_bytes(src: &str, k: usize) -> String {
    let base = std::env::temp_dir().join("zq-det-bundle");
    let _ = std::fs::create_dir_all(&base);
    // one process at a time per folder
    let lock = base.join(format!("p{k}.lock"));
    let t0 = std::time::Instant::now();
    while std::fs::create_dir(&lock).is_err() {
        if t0.elapsed().as_secs() > 60 {
            let _ = std::fs::remove_dir(&lock); // a stale lock of a killed process
        }
        std::thread::sleep(std::time::Duration::from_millis(2));
    }
    let dir = base.join(format!("p{k}"));
    let _ = std::fs::remove_dir_all(&dir);
    let r = (|| -> Result<Vec<u8>, String> {
        std::fs::create_dir_all(dir.join("src/sub")).map_err(|e| e.to_string())?;
        std::fs::write(dir.join("src/m.st"), src).map_err(|e| e.to_string())?;
        for (f, n) in [("src/a.st", "ZqBundleA"), ("src/z.st", "ZqBundleZ"), ("src/sub/d.st", "ZqBundleD")] {
            std::fs::write(dir.join(f), format!("FUNCTION {n}{k} : INT\nVAR_INPUT x : INT; END_VAR\n{n}{k} := x + INT#{};\nEND_FUNCTION\n", k % 7)).map_err(|e| e.to_string())?;
        }
        let rep = trust_runtime::bundle_builder::build_program_stbc(&dir, None).map_err(|e| format!("{e:#}"))?;
        std::fs::read(&rep.program_path).map_err(|e| e.to_string())
    })();
    let _ = std::fs::remove_dir_all(&dir);
    let _ = std::fs::remove_dir(&lock);
    match r {
        Ok(b) => format!("{}:{}", b.len(), hex(&b)),
        Err(e) => format!("error:{}", hex(e.lines().next().unwrap_or("").as_bytes())),
    }
}

const SIM_PROGRAM: &str = "PROGRAM SimMain\nVAR\n  n : INT;\n  seen : WORD;\n  w AT %IW0 : WORD;\n  q0 AT %QX0.0 : BOOL; q1 AT %QX0.1 : BOOL; q2 AT %QX0.2 : BOOL; q3 AT %QX0.3 : BOOL; q4 AT %QX0.4 : BOOL; q5 AT %QX0.5 : BOOL;\nEND_VAR\nn := n + 1;\nseen := w;\nq0 := (n MOD 2) = 1; q1 := q0; q2 := q0; q3 := NOT q0; q4 := q0; q5 := NOT q0;\nEND_PROGRAM\n";
fn sim_controller(rng: &mut StdRng, k: usize) -> Result<trust_runtime::simulation::SimulationController, String> {
    use rand::seq::SliceRandom;
    let mut order: Vec<usize> = (0..6).collect();
    order.shuffle(rng);
    let delay = [0u64, 10, 20][k % 3];
    let mut text = String::from("[simulation]\nenabled = true\nseed = 7\ntime_scale = 1\n");
    for i in order {
        text.push_str(&format!("\n[[couplings]]\nsource = \"%QX0.{i}\"\ntarget = \"%IW0\"\nthreshold = 0.5\ndelay_ms = {delay}\non_true = \"{}\"\non_false = \"{}\"\n", 100 + i, 200 + i));
    }
    let dir = std::env::temp_dir().join(format!("zq-det-sim-{}-{k}", std::process::id()));
    std::fs::create_dir_all(&dir).map_err(|e| e.to_string())?;
    let p = dir.join("simulation.toml");
    std::fs::write(&p, text).map_err(|e| e.to_string())?;
    let cfg = trust_runtime::simulation::SimulationConfig::load(&p).map_err(|e| e.to_string());
    let _ = std::fs::remove_dir_all(&dir);
    Ok(trust_runtime::simulation::SimulationController::new(cfg?))
}
