//! The shipped conformance runner (`trust-runtime conformance`, C02 as a user of the product sees it): generated cases
//! (a program that consumes and clears its inputs, input series with repeated values and `skip` steps, clock steps,
//! restarts) are written as a suite folder, the REAL binary records their traces (`--update-expected`), and every trace is
//! compared with the same case driven directly through `TestHarness` -- the interface whose behaviour `StCoreTrace`
//! judges against the TLA+ reference.  A difference is a fault of the runner's own feeding / recording.
use crate::util::*;
use rand::{rngs::StdRng, Rng, SeedableRng};
use serde_json::{json, Value as J};
use trust_runtime::harness::TestHarness;
use trust_runtime::value::{Duration, Value};

const PROGRAM: &str = "PROGRAM Main\nVAR\n    cmd : INT;\n    delta : SINT;\n    flag : BOOL;\n    acc : SINT;\n    count : INT;\n    seen : INT;\n    scans : INT;\nEND_VAR\nscans := scans + INT#1;\nIF cmd <> INT#0 THEN\n    count := count + INT#1;\n    seen := cmd;\n    cmd := INT#0;\nEND_IF;\nIF flag THEN\n    count := count + INT#10;\n    flag := FALSE;\nEND_IF;\nacc := acc + delta;\ndelta := SINT#0;\nEND_PROGRAM\n";
const WATCH: [&str; 7] = ["cmd", "delta", "flag", "acc", "count", "seen", "scans"];

fn typed(raw: &str) -> Option<Value> {
    let (k, p) = raw.split_once(':')?;
    Some(match k {
        "INT" => Value::Int(p.parse().ok()?),
        "SINT" => Value::SInt(p.parse().ok()?),
        "BOOL" => Value::Bool(p == "true"),
        _ => return None,
    })
}
fn show(v: &Option<Value>) -> J {
    match v {
        Some(Value::Int(i)) => json!({"type": "INT", "value": i}),
        Some(Value::SInt(i)) => json!({"type": "SINT", "value": i}),
        Some(Value::Bool(b)) => json!({"type": "BOOL", "value": b}),
        Some(Value::DInt(i)) => json!({"type": "DINT", "value": i}),
        other => json!({"type": "?", "value": format!("{other:?}")}),
    }
}

pub fn run(args: &[String]) -> i32 {
    let seed = arg_u64(args, "--seed", 1);
    let runs = arg_u64(args, "--runs", 60) as usize;
    let bin = arg(args, "--bin").expect("--bin");
    let work = std::path::PathBuf::from(arg(args, "--work").expect("--work"));
    let mut o = Out::create(arg(args, "--out").expect("--out"));
    let _ = std::fs::remove_dir_all(&work);
    let suite = work.join("suite");
    let mut rng = StdRng::seed_from_u64(seed ^ 0xc02_c11);
    let mut cases: Vec<J> = Vec::new();
    for k in 0..runs {
        let id = format!("cfm_scan_cycle_zqgen_{:03}", k % 1000);
        let cycles = rng.gen_range(3..9usize);
        let series = |rng: &mut StdRng, pool: &[&str]| -> Vec<String> {
            let mut v: Vec<String> = Vec::new();
            for c in 0..cycles {
                // repeats of the previous step are frequent: that is the shape a handshake program sees
                if c > 0 && rng.gen_bool(0.45) {
                    v.push(v[c - 1].clone());
                } else {
                    v.push(pool[rng.gen_range(0..pool.len())].to_string());
                }
            }
            v
        };
        let cmd = series(&mut rng, &["INT:1", "INT:2", "INT:0", "skip", "INT:1"]);
        let delta = series(&mut rng, &["SINT:5", "SINT:60", "SINT:-3", "skip", "SINT:0"]);
        let flag = series(&mut rng, &["BOOL:true", "BOOL:false", "skip", "BOOL:true"]);
        let advance: Vec<i64> = (0..cycles).map(|_| rng.gen_range(0..20)).collect();
        let restart_before = if rng.gen_bool(0.3) && cycles > 3 { Some((rng.gen_range(2..=cycles as u32), if rng.gen_bool(0.5) { "warm" } else { "cold" })) } else { None };
        let dir = suite.join("cases/scan_cycle").join(&id);
        if std::fs::create_dir_all(&dir).is_err() {
            eprintln!("conf-run: cannot create {dir:?}");
            return 2;
        }
        let q = |v: &Vec<String>| v.iter().map(|s| format!("\"{s}\"")).collect::<Vec<_>>().join(", ");
        let mut manifest = format!("id = \"{id}\"\ncategory = \"scan_cycle\"\ndescription = \"generated: inputs that the program consumes\"\ncycles = {cycles}\nwatch_globals = [{}]\nadvance_ms = [{}]\n",
            WATCH.iter().map(|w| format!("\"{w}\"")).collect::<Vec<_>>().join(", "), advance.iter().map(|a| a.to_string()).collect::<Vec<_>>().join(", "));
        if let Some((c, m)) = restart_before {
            manifest.push_str(&format!("\n[[restarts]]\nbefore_cycle = {c}\nmode = \"{m}\"\n"));
        }
        manifest.push_str(&format!("\n[input_series]\ncmd = [{}]\ndelta = [{}]\nflag = [{}]\n", q(&cmd), q(&delta), q(&flag)));
        std::fs::write(dir.join("manifest.toml"), manifest).ok();
        std::fs::write(dir.join("program.st"), PROGRAM).ok();
        cases.push(json!({"id": id, "cycles": cycles, "cmd": cmd, "delta": delta, "flag": flag, "advance": advance,
                          "restart": restart_before.map(|(c, m)| json!({"before": c, "mode": m}))}));
    }
    // the real binary records the traces
    let out = std::process::Command::new(bin).args(["conformance", "--suite-root"]).arg(&suite).args(["--update-expected", "--output"]).arg(work.join("summary.json")).output();
    let out = match out {
        Ok(o) => o,
        Err(e) => {
            eprintln!("conf-run: cannot run {bin}: {e}");
            return 2;
        }
    };
    let cli_log = format!("{}{}", String::from_utf8_lossy(&out.stdout), String::from_utf8_lossy(&out.stderr));
    for c in &cases {
        let id = c["id"].as_str().unwrap();
        let recorded: Option<J> = std::fs::read_to_string(suite.join("expected/scan_cycle").join(format!("{id}.json"))).ok().and_then(|t| serde_json::from_str(&t).ok());
        let Some(recorded) = recorded else {
            o.line(&json!({"a": "ConfCase", "id": id, "recorded": false, "same": false, "diff": ["the runner recorded no trace"], "case": c, "cli": cli_log.chars().take(600).collect::<String>()}));
            continue;
        };
        // the same case, driven directly
        let mut h = match TestHarness::from_source(PROGRAM) {
            Ok(h) => h,
            Err(e) => {
                eprintln!("conf-run: the case program does not compile: {e}");
                return 2;
            }
        };
        let cycles = c["cycles"].as_u64().unwrap() as usize;
        let mut diff: Vec<String> = Vec::new();
        for cy in 0..cycles {
            if let Some(r) = c["restart"].as_object() {
                if r["before"].as_u64() == Some(cy as u64 + 1) {
                    let _ = h.restart(if r["mode"] == "warm" { trust_runtime::RestartMode::Warm } else { trust_runtime::RestartMode::Cold });
                }
            }
            let adv = c["advance"][cy].as_i64().unwrap_or(0);
            if adv > 0 {
                h.advance_time(Duration::from_millis(adv));
            }
            for name in ["cmd", "delta", "flag"] {
                let raw = c[name][cy].as_str().unwrap();
                if raw == "skip" {
                    continue;
                }
                if let Some(v) = typed(raw) {
                    h.set_input(name, v);
                }
            }
            let r = h.cycle();
            let rec = &recorded["trace"][cy];
            for w in WATCH {
                let mine = show(&h.get_output(w));
                if rec["globals"][w] != mine {
                    diff.push(format!("cycle {}: {w} recorded {} direct {}", cy + 1, rec["globals"][w], mine));
                }
            }
            let mine_err: Vec<String> = r.errors.iter().map(|e| e.to_string()).collect();
            let rec_err: Vec<String> = rec["errors"].as_array().map(|a| a.iter().map(|e| e.as_str().unwrap_or("").to_string()).collect()).unwrap_or_default();
            if mine_err != rec_err {
                diff.push(format!("cycle {}: errors recorded {rec_err:?} direct {mine_err:?}", cy + 1));
            }
        }
        if recorded["trace"].as_array().map(|a| a.len()) != Some(cycles) {
            diff.push(format!("the recorded trace has {:?} cycles, the case {cycles}", recorded["trace"].as_array().map(|a| a.len())));
        }
        o.line(&json!({"a": "ConfCase", "id": id, "recorded": true, "same": diff.is_empty(), "diff": diff.iter().take(6).collect::<Vec<_>>(), "case": c}));
    }
    o.flush();
    let _ = std::fs::remove_dir_all(&work);
    0
}
