//! EndpointDebug domain (C17 at the control endpoint): the run-control requests `pause`, `resume`,
//! `step_in/over/out`, `breakpoints.set`, `breakpoints.clear_all` are sent as request lines to a real
//! `ControlServer` (control mode `debug`) whose `DebugControl` belongs to a runtime with three tasks
//! (one due in every cycle, one event task, one slow periodic task); a thread of the harness runs the
//! cycles.  Every request, every collected batch of stop notifications (`debug.stops`) and every
//! finished cycle go into one totally ordered log; `EndpointDebugTrace` judges it.
use crate::ctrlauth::{Cfg, Fx};
use crate::util::*;
use rand::{rngs::StdRng, Rng, SeedableRng};
use serde_json::{json, Value as J};
use std::sync::atomic::{AtomicBool, Ordering};
use std::sync::{Arc, Mutex};
use trust_runtime::harness::TestHarness;
use trust_runtime::value::Duration;

// line numbers (0-based, as `breakpoints.set` counts them) of the three statements that can carry a breakpoint are
// computed from the text; a line that does not resolve to its own statement is a tool error
const SRC: &str = r#"CONFIGURATION C
VAR_GLOBAL
  zq_g : LINT := 1;
  zq_b : BOOL := FALSE;
  zq_f : LINT := 2;
  trig : BOOL := FALSE;
  fast_n : DINT := 0;
  ev_n : DINT := 0;
  slow_n : DINT := 0;
END_VAR
TASK Fast (INTERVAL := T#10ms, PRIORITY := 0);
TASK Ev (SINGLE := trig, PRIORITY := 1);
TASK Slow (INTERVAL := T#70ms, PRIORITY := 2);
PROGRAM P1 WITH Fast : FastProg;
PROGRAM P2 WITH Ev : EvProg;
PROGRAM P3 WITH Slow : SlowProg;
END_CONFIGURATION
PROGRAM FastProg
fast_n := fast_n + 1; (* bp-fast *)
trig := (fast_n MOD 8) = 3;
END_PROGRAM
PROGRAM EvProg
ev_n := ev_n + 1; (* bp-ev *)
END_PROGRAM
PROGRAM SlowProg
slow_n := slow_n + 1; (* bp-slow *)
END_PROGRAM
"#;
fn line_of(marker: &str) -> u32 {
    SRC.lines().position(|l| l.contains(marker)).map(|i| i as u32).expect("marker line")
}

type Log = Arc<Mutex<Vec<J>>>;

pub fn run(args: &[String]) -> i32 {
    let seed = arg_u64(args, "--seed", 1);
    let runs = arg_u64(args, "--runs", 40) as usize;
    let work = std::path::PathBuf::from(arg(args, "--work").expect("--work"));
    std::fs::create_dir_all(&work).expect("work dir");
    let mut o = Out::create(arg(args, "--out").expect("--out"));
    crate::ctrlauth::install_panic_hook();
    // (every run builds an endpoint fixture that leaves threads behind: the driver runs this in chunks, `--offset`
    // being the index of the chunk's first run)
    let offset = arg_u64(args, "--offset", 0) as usize;
    let mut rng = StdRng::seed_from_u64(seed ^ 0xc17_e9 ^ (offset as u64).wrapping_mul(0x9e37_79b9));
    let production = arg(args, "--mode") == Some("production");
    for k in offset..offset + runs {
        match if production { one_run_production(&mut rng, k, &work) } else { one_run(&mut rng, k, &work) } {
            Ok(evs) => {
                for e in evs {
                    o.line(&e);
                }
            }
            Err(e) => {
                eprintln!("dbgep-run: {e}");
                return 2;
            }
        }
    }
    o.flush();
    let _ = std::fs::remove_dir_all(&work);
    0
}

struct Ctl {
    fx: Fx,
    log: Log,
    id: u64,
}
impl Ctl {
    fn ask(&mut self, ty: &str, params: Option<J>) -> Result<J, String> {
        self.id += 1;
        let mut req = json!({"id": self.id, "type": ty});
        if let Some(p) = params {
            req["params"] = p;
        }
        let line = self.fx.ask(&req.to_string()).line().ok_or_else(|| format!("no reply to {ty}"))?;
        serde_json::from_str::<J>(&line).map_err(|e| format!("reply to {ty}: {e}"))
    }
    /// a run-control request.  `pause` is logged when its reply is there (the rule counts the cycles that end
    /// after the acknowledgement); every other request is logged before it is sent, because what it sets off --
    /// execution going on -- can be seen before the reply arrives.
    fn request(&mut self, ty: &str, params: Option<J>, label: J) -> Result<bool, String> {
        let mut e = label;
        e["a"] = json!("Req");
        e["t"] = json!(ty);
        e["ok"] = json!(true);
        if ty != "pause" {
            self.log.lock().unwrap().push(e.clone());
        }
        let r = self.ask(ty, params)?;
        let ok = r["ok"] == json!(true);
        if ty == "pause" {
            e["ok"] = json!(ok);
            self.log.lock().unwrap().push(e);
        } else if !ok {
            self.log.lock().unwrap().push(json!({"a": "Refused", "t": ty, "err": r["error"]}));
        }
        Ok(ok)
    }
    /// collects the pending stop notifications; a non-empty batch is logged
    fn collect(&mut self) -> Result<usize, String> {
        let r = self.ask("debug.stops", None)?;
        let n = r["result"]["stops"].as_array().map(|a| a.len()).unwrap_or(0);
        if n > 0 {
            let reasons: Vec<String> = r["result"]["stops"].as_array().unwrap().iter().map(|s| s["reason"].as_str().unwrap_or("?").to_string()).collect();
            self.log.lock().unwrap().push(json!({"a": "Stops", "n": n, "reasons": reasons}));
        }
        Ok(n)
    }
    fn cycles(&self) -> usize {
        self.log.lock().unwrap().iter().filter(|e| e["a"] == "Cyc").count()
    }
    /// polls for a stop for at most `ms`; -> stopped?
    fn await_stop(&mut self, ms: u64) -> Result<bool, String> {
        let t0 = std::time::Instant::now();
        loop {
            if self.collect()? > 0 {
                return Ok(true);
            }
            if t0.elapsed().as_millis() as u64 >= ms {
                return Ok(false);
            }
            std::thread::sleep(std::time::Duration::from_millis(2));
        }
    }
}

fn one_run(rng: &mut StdRng, k: usize, work: &std::path::Path) -> Result<Vec<J>, String> {
    let mut fx = Fx::build_with_source(work, &Cfg { token: false, debug: true, mode: "debug".into() }, None, SRC);
    let dummy = TestHarness::from_source("PROGRAM ZqDummy\nVAR a : INT; END_VAR\na := a;\nEND_PROGRAM\n").map_err(|e| e.to_string())?;
    let mut h = fx.swap_harness(dummy);
    let log: Log = Arc::new(Mutex::new(Vec::new()));
    let mut c = Ctl { fx, log: log.clone(), id: 0 };
    // the fixture arrives with a breakpoint and forces of its own: start clean and running
    c.ask("breakpoints.clear_all", None)?;
    c.ask("resume", None)?;
    c.ask("debug.stops", None)?;
    let stop = Arc::new(AtomicBool::new(false));
    let th = {
        let (log, stop) = (log.clone(), stop.clone());
        std::thread::Builder::new().name("zq-cycles".into()).spawn(move || {
            let mut n = 0u64;
            while !stop.load(Ordering::SeqCst) {
                h.advance_time(Duration::from_millis(10));
                let r = h.cycle();
                n += 1;
                log.lock().unwrap().push(json!({"a": "Cyc", "n": n, "err": !r.errors.is_empty()}));
                std::thread::sleep(std::time::Duration::from_micros(300));
            }
        }).map_err(|e| e.to_string())?
    };
    // a disciplined controller: it knows whether it has seen a stop that it has not resumed from
    let mut stopped = false;
    let mut bps: Vec<&str> = vec![];
    let tasks = ["fast", "ev", "slow"];
    let nops = rng.gen_range(6..16);
    // every third run starts with the shape "breakpoint in the event task, stop there, clear, resume, pause"
    let mut forced: Vec<&str> = if k % 3 == 0 { vec!["bp:ev", "await", "clear", "resume", "pause"] } else { vec![] };
    forced.reverse();
    for _ in 0..nops {
        let op: String = match forced.pop() {
            Some(f) => f.to_string(),
            None => {
                let r = rng.gen_range(0..100);
                if stopped {
                    if r < 35 { "resume".into() } else if r < 65 { "step".into() } else if r < 80 { "clear".into() } else if r < 92 { format!("bp:{}", tasks[rng.gen_range(0..3)]) } else { "wait".into() }
                } else if r < 30 && bps.is_empty() { "pause".into() } else if r < 60 { format!("bp:{}", tasks[rng.gen_range(0..3)]) } else if r < 75 { "clear".into() } else if r < 90 { "await".into() } else { "wait".into() }
            }
        };
        match op.as_str() {
            "pause" => {
                if stopped || !bps.is_empty() {
                    continue;
                }
                c.request("pause", None, json!({}))?;
                let got = c.await_stop(5000)?;
                if !got {
                    log.lock().unwrap().push(json!({"a": "NoStop", "after": "pause"}));
                }
                stopped = got;
            }
            "resume" => {
                if !stopped {
                    continue;
                }
                let c0 = c.cycles();
                c.request("resume", None, json!({"bps": bps.len()}))?;
                stopped = false;
                // progress: two more cycles, or a stop (a breakpoint on a due task)
                let t0 = std::time::Instant::now();
                loop {
                    if c.collect()? > 0 {
                        stopped = true;
                        break;
                    }
                    if c.cycles() >= c0 + 2 {
                        break;
                    }
                    if t0.elapsed().as_secs() >= 5 {
                        log.lock().unwrap().push(json!({"a": "NoProgress", "after": "resume"}));
                        break;
                    }
                    std::thread::sleep(std::time::Duration::from_millis(1));
                }
            }
            "step" => {
                if !stopped {
                    continue;
                }
                let ty = ["step_in", "step_over", "step_out"][rng.gen_range(0..3)];
                c.request(ty, None, json!({}))?;
                stopped = c.await_stop(5000)?;
                if !stopped {
                    log.lock().unwrap().push(json!({"a": "NoStop", "after": "step"}));
                }
            }
            "clear" => {
                c.request("breakpoints.clear_all", None, json!({}))?;
                bps.clear();
            }
            "await" => {
                // a breakpoint on a task that is due at some time: the event task every 8th cycle, the slow one every 7th
                if !stopped && !bps.is_empty() {
                    stopped = c.await_stop(3000)?;
                    if !stopped {
                        log.lock().unwrap().push(json!({"a": "NoStop", "after": "breakpoint"}));
                    }
                }
            }
            "wait" => {
                std::thread::sleep(std::time::Duration::from_millis(rng.gen_range(1..25)));
                if !stopped && c.collect()? > 0 {
                    stopped = true;
                }
            }
            b if b.starts_with("bp:") => {
                let t = &b[3..];
                let t: &'static str = tasks.iter().copied().find(|x| *x == t).unwrap();
                if !bps.contains(&t) {
                    bps.push(t);
                }
                let lines: Vec<u32> = bps.iter().map(|t| line_of(&format!("bp-{t}"))).collect();
                c.request("breakpoints.set", Some(json!({"source": "main.st", "lines": lines})), json!({"tasks": bps}))?;
                let r = c.ask("breakpoints.list", None)?;
                let got: Vec<usize> = r["result"]["breakpoints"].as_array().map(|a| a.iter().map(|b| b["start"].as_u64().unwrap_or(0) as usize).collect()).unwrap_or_default();
                let want: Vec<usize> = bps.iter().map(|t| SRC.find(&format!("{t}_n := ")).unwrap_or(usize::MAX)).collect();
                if got.len() != want.len() || want.iter().any(|w| !got.contains(w)) {
                    return Err(format!("breakpoints {bps:?} at lines {lines:?} resolved to {r}"));
                }
                if !stopped {
                    stopped = c.await_stop(30)?;
                }
            }
            o => return Err(format!("unknown op {o}")),
        }
    }
    // let everything go and end the cycle thread
    c.request("breakpoints.clear_all", None, json!({}))?;
    stop.store(true, Ordering::SeqCst);
    c.request("resume", None, json!({"bps": 0, "cleanup": true}))?;
    let (tx, rx) = std::sync::mpsc::channel();
    std::thread::spawn(move || {
        let _ = th.join();
        let _ = tx.send(());
    });
    let mut joined = false;
    let t0 = std::time::Instant::now();
    while t0.elapsed().as_secs() < 10 {
        if rx.recv_timeout(std::time::Duration::from_millis(20)).is_ok() {
            joined = true;
            break;
        }
        let _ = c.ask("resume", None);
    }
    let mut evs = vec![json!({"a": "Reset", "k": k})];
    evs.extend(log.lock().unwrap().drain(..));
    evs.push(json!({"a": "End", "joined": joined}));
    Ok(evs)
}

// ------------------------------------------------------------------ control mode `production`: pause / resume of the resource
const SRCP: &str = r#"CONFIGURATION C
VAR_GLOBAL
  zq_g : LINT := 1;
  zq_b : BOOL := FALSE;
  zq_f : LINT := 2;
  n : DINT := 0;
END_VAR
PROGRAM I1 : MainP;
END_CONFIGURATION
PROGRAM MainP
VAR_EXTERNAL n : DINT; END_VAR
VAR q0 AT %QB0 : BYTE; END_VAR
n := n + 1;
q0 := BYTE#1;
END_PROGRAM
"#;
struct CycDrv {
    log: Log,
    n: u64,
}
impl trust_runtime::io::IoDriver for CycDrv {
    fn read_inputs(&mut self, _inputs: &mut [u8]) -> Result<(), trust_runtime::error::RuntimeError> {
        Ok(())
    }
    fn write_outputs(&mut self, _o: &[u8]) -> Result<(), trust_runtime::error::RuntimeError> {
        self.n += 1;
        self.log.lock().unwrap().push(json!({"a": "Cyc", "n": self.n, "err": false}));
        Ok(())
    }
}

/// In control mode `production` the endpoint's `pause` / `resume` go to the resource thread (ResourceControl):
/// a real thread on the wall clock, requests in quick succession (well inside one cycle interval) as well as spaced.
fn one_run_production(rng: &mut StdRng, k: usize, work: &std::path::Path) -> Result<Vec<J>, String> {
    use trust_runtime::scheduler::{ResourceRunner, ResourceState, StdClock};
    let mut fx = Fx::build_with_pairing(work, &Cfg { token: false, debug: true, mode: "production".into() }, None);
    let log: Log = Arc::new(Mutex::new(Vec::new()));
    let mut rt = TestHarness::from_source(SRCP).map_err(|e| e.to_string())?.into_runtime();
    rt.io_mut().resize(0, 4, 0);
    rt.add_io_driver("zq".to_string(), Box::new(CycDrv { log: log.clone(), n: 0 }));
    let interval_ms = [2i64, 5, 12][k % 3];
    let mut handle = ResourceRunner::new(rt, StdClock::new(), Duration::from_millis(interval_ms)).spawn("zq-prod").map_err(|e| e.to_string())?;
    let rc = handle.control();
    fx.swap_resource(rc.clone());
    let mut c = Ctl { fx, log: log.clone(), id: 0 };
    // wait for the first cycles
    let t0 = std::time::Instant::now();
    while c.cycles() < 2 && t0.elapsed().as_secs() < 10 {
        std::thread::sleep(std::time::Duration::from_millis(1));
    }
    let mut paused = false;
    for _ in 0..rng.gen_range(6..18) {
        // the gap before the request: none at all (the two requests reach the queue within one iteration of the
        // loop), a fraction of the interval, or several intervals
        match rng.gen_range(0..3) {
            0 => {}
            1 => std::thread::sleep(std::time::Duration::from_micros(rng.gen_range(50..(interval_ms as u64 * 700)))),
            _ => std::thread::sleep(std::time::Duration::from_millis(rng.gen_range(1..4) * interval_ms as u64)),
        }
        if paused {
            let c0 = c.cycles();
            c.request("resume", None, json!({"bps": 0}))?;
            paused = false;
            if rng.gen_bool(0.5) {
                let t0 = std::time::Instant::now();
                while c.cycles() < c0 + 2 {
                    if t0.elapsed().as_secs() >= 5 {
                        log.lock().unwrap().push(json!({"a": "NoProgress", "after": "resume"}));
                        break;
                    }
                    std::thread::sleep(std::time::Duration::from_millis(1));
                }
            }
        } else {
            c.request("pause", None, json!({}))?;
            paused = true;
        }
    }
    // end: resumed, two more cycles must come, then stop
    if paused {
        let c0 = c.cycles();
        c.request("resume", None, json!({"bps": 0}))?;
        let t0 = std::time::Instant::now();
        while c.cycles() < c0 + 2 {
            if t0.elapsed().as_secs() >= 5 {
                log.lock().unwrap().push(json!({"a": "NoProgress", "after": "resume"}));
                break;
            }
            std::thread::sleep(std::time::Duration::from_millis(1));
        }
    }
    rc.stop();
    let (tx, rx) = std::sync::mpsc::channel();
    std::thread::spawn(move || {
        let _ = handle.join();
        let _ = tx.send(());
    });
    let joined = rx.recv_timeout(std::time::Duration::from_secs(10)).is_ok();
    let state_ok = rc.state() == ResourceState::Stopped;
    let mut evs = vec![json!({"a": "Reset", "k": k, "mode": "production", "interval_ms": interval_ms})];
    evs.extend(log.lock().unwrap().drain(..));
    evs.push(json!({"a": "End", "joined": joined && state_ok}));
    Ok(evs)
}
