//! StbcContainer domain (C11: total decoder / validator, exact round trip, validated => safe).
//!
//! `stbc-gen` — seeded random scripts, one JSON per line.  Two families:
//!     kind "frame": an abstract container layout (header fields + section table over vendor /
//!                   raw sections) that the runner turns into bytes;
//!     kind "life" : a program shape (rendered to ST and compiled by the real compiler) plus one
//!                   mutation of the emitted container (structure-aware field x hostile value
//!                   class, raw bytes, truncation, random blob, alias cycle) with recomputed CRC.
//! `stbc-run` — executes the scripts on the real code through the public API only
//!     (`bytecode_*_from_source`, `BytecodeModule::{decode,validate,metadata,encode}`,
//!     `Runtime::apply_bytecode_bytes`, `Runtime::restart`) and records one ndjson event per
//!     specification action.  The scripts run in a child process of this binary with an
//!     address-space limit; every phase runs under `catch_unwind` on a thread with a fixed stack.
//!     A panic is recorded as `res:"panic"`; when the child dies (failed allocation, stack
//!     overflow, signal) the parent records `res:"abort"` for the phase that was running and
//!     restarts the child at the next script.  Whether that is a violation is decided by the
//!     trace specification alone.
use crate::util::*;
use rand::{rngs::StdRng, Rng, SeedableRng};
use serde_json::{json, Map, Value as J};
use std::io::{BufRead, Write};
use trust_runtime::bytecode::BytecodeModule;
use trust_runtime::harness::CompileSession;
use trust_runtime::harness::SourceFile;

const BIG: u64 = 1 << 24;
const AS_LIMIT: u64 = 2 << 30; // address-space limit of the child (2 GiB)
const STACK: usize = 8 << 20; // stack of the thread the phases run on (a main thread's default)
const VCS: [&str; 9] = ["0", "1", "n-1", "n", "n+1", "2^16", "2^31-1", "2^31", "2^32-1"];

/// Order- and alignment-preserving projection of a u32/u64 into TLC's integers: every file
/// handled here is shorter than 2^24 bytes, so "is beyond the file" and "mod 4" survive.
fn clamp(v: u64) -> u64 {
    if v < BIG {
        v
    } else {
        BIG + v % 4
    }
}
fn rd16(b: &[u8], o: usize) -> u64 {
    u16::from_le_bytes([b[o], b[o + 1]]) as u64
}
fn rd32(b: &[u8], o: usize) -> u64 {
    u32::from_le_bytes([b[o], b[o + 1], b[o + 2], b[o + 3]]) as u64
}
fn fix_crc(b: &mut [u8]) {
    if b.len() < 24 {
        return;
    }
    let off = rd32(b, 16) as usize;
    if off <= b.len() {
        let c = crc32fast::hash(&b[off..]);
        b[20..24].copy_from_slice(&c.to_le_bytes());
    }
}

// ------------------------------------------------------------------ program shapes
fn gen_prog(rng: &mut StdRng) -> J {
    json!({
        "types": rng.gen_bool(0.6), "classes": rng.gen_bool(0.4), "ifaces": rng.gen_bool(0.35),
        "fb": rng.gen_bool(0.6), "func": rng.gen_bool(0.6), "ctrl": rng.gen_bool(0.6),
        "cfg": rng.gen_range(0..3), "io": rng.gen_bool(0.5), "retain": rng.gen_bool(0.5),
        "ntasks": rng.gen_range(1..=3), "taskfb": rng.gen_bool(0.4), "dbg": rng.gen_bool(0.6),
        "strs": rng.gen_bool(0.5), "k": rng.gen_range(0..50),
    })
}
fn full_prog(k: u64) -> J {
    json!({"types": true, "classes": true, "ifaces": true, "fb": true, "func": true, "ctrl": true, "cfg": 2,
           "io": true, "retain": true, "ntasks": 3, "taskfb": true, "dbg": true, "strs": true, "k": k})
}

pub fn render_source(p: &J) -> String {
    let b = |k: &str| p[k].as_bool().unwrap_or(false);
    let k = p["k"].as_u64().unwrap_or(0);
    let cfg = p["cfg"].as_u64().unwrap_or(0);
    let ntasks = p["ntasks"].as_u64().unwrap_or(1).clamp(1, 3);
    let mut s = String::new();
    if b("types") {
        s.push_str("TYPE\n  SubT : INT(0..10);\n  AliT : INT;\n  ArrT : ARRAY[1..3] OF INT;\n  Arr2T : ARRAY[0..1, 0..2] OF BOOL;\n  StT : STRUCT\n    a : INT;\n    b : BOOL;\n  END_STRUCT;\n  UnT : UNION\n    u1 : INT;\n    u2 : BOOL;\n  END_UNION;\n  EnT : (Red := 1, Green := 2, Blue := 3) INT;\n  RefT : REF_TO INT;\nEND_TYPE\n");
    }
    if b("ifaces") {
        s.push_str("INTERFACE IBase\nMETHOD Foo : INT\nEND_METHOD\nEND_INTERFACE\nINTERFACE IDerived EXTENDS IBase\nMETHOD Bar : INT\nEND_METHOD\nEND_INTERFACE\nCLASS Impl IMPLEMENTS IDerived\nMETHOD PUBLIC Foo : INT\nFoo := INT#1;\nEND_METHOD\nMETHOD PUBLIC Bar : INT\nBar := INT#2;\nEND_METHOD\nEND_CLASS\n");
    }
    if b("classes") {
        s.push_str(&format!("CLASS Base\nMETHOD PUBLIC Foo : INT\nFoo := INT#{};\nEND_METHOD\nEND_CLASS\nCLASS Derived EXTENDS Base\nMETHOD PUBLIC OVERRIDE Foo : INT\nFoo := INT#2;\nEND_METHOD\nMETHOD PUBLIC Bar : INT\nVAR\n  temp : INT;\nEND_VAR\ntemp := INT#3;\nBar := temp;\nEND_METHOD\nEND_CLASS\n", k + 1));
    }
    if b("fb") {
        s.push_str("FUNCTION_BLOCK Acc\nVAR_INPUT\n  i : INT;\n  en2 : BOOL := TRUE;\nEND_VAR\nVAR_OUTPUT\n  o : INT;\nEND_VAR\nVAR\n  sum : INT;\nEND_VAR\nIF en2 THEN\n  sum := sum + i;\nEND_IF;\no := sum;\nEND_FUNCTION_BLOCK\n");
    }
    if b("func") {
        s.push_str(&format!("FUNCTION AddK : INT\nVAR_INPUT\n  x : INT := INT#{};\n  y : INT;\nEND_VAR\nVAR\n  t : INT;\nEND_VAR\nt := x + y;\nAddK := t;\nEND_FUNCTION\n", k));
    }
    // ---- PROGRAM Main
    s.push_str("PROGRAM Main\nVAR\n  counter : INT := 0;\n  total : INT := 0;\n  idx : INT := 0;\n  flag : BOOL;\n");
    if b("io") {
        s.push_str("  inb AT %IX0.1 : BOOL;\n  outw AT %QW2 : WORD;\n  memb AT %MB1 : BYTE;\n");
    }
    if b("types") {
        s.push_str("  sr : SubT;\n  al : AliT := 5;\n  arr : ArrT;\n  arr2 : Arr2T;\n  st : StT;\n  un : UnT;\n  ev : EnT := EnT#Green;\n  rf : RefT;\n");
    }
    if b("strs") {
        s.push_str(&format!("  msg : STRING := 'hello {}';\n  tm : TIME := T#{}ms;\n  r : REAL := 1.5;\n  lw : LWORD;\n", k, k + 1));
    }
    if b("fb") {
        s.push_str("  acc : Acc;\n  acc2 : Acc;\n");
    }
    if b("classes") {
        s.push_str("  obj : Derived;\n");
    }
    if b("ifaces") {
        s.push_str("  itf : IDerived;\n  ibase : IBase;\n  impl : Impl;\n");
    }
    s.push_str("END_VAR\n");
    s.push_str(&format!("counter := counter + INT#{};\n", k % 7 + 1));
    if b("ctrl") {
        s.push_str("IF counter < 10 THEN\n  counter := counter + 1;\nELSIF counter = 10 THEN\n  counter := counter + 2;\nELSE\n  counter := counter + 3;\nEND_IF;\nCASE counter OF\n  1: total := total + 1;\n  2..3: total := total + 2;\nELSE\n  total := total + 3;\nEND_CASE;\nWHILE counter < 5 DO\n  counter := counter + 1;\nEND_WHILE;\nREPEAT\n  counter := counter + 1;\nUNTIL counter > 10\nEND_REPEAT;\nFOR idx := 1 TO 3 BY 1 DO\n  total := total + idx;\nEND_FOR;\n");
    }
    if b("io") {
        s.push_str("IF inb THEN\n  outw := WORD#16#1;\nEND_IF;\nflag := inb;\n");
    }
    if b("types") {
        s.push_str("arr[2] := counter;\nst.a := arr[1];\narr2[1, 2] := flag;\n");
    }
    if b("fb") {
        s.push_str("acc(i := counter, o => total);\n");
    }
    if b("func") {
        s.push_str("total := AddK(y := total);\n");
    }
    if b("ifaces") {
        s.push_str("itf := impl;\n");
    }
    s.push_str("END_PROGRAM\n");
    s.push_str(&format!("PROGRAM Aux\nVAR\n  n : INT;\nEND_VAR\nn := n + INT#{};\nEND_PROGRAM\n", k % 5 + 1));
    if cfg > 0 {
        s.push_str("CONFIGURATION Conf\n");
        if cfg == 2 {
            s.push_str("RESOURCE Res ON CPU\n");
        }
        if b("retain") {
            s.push_str(&format!("VAR_GLOBAL RETAIN\n  g_count : INT := INT#{};\nEND_VAR\n", k + 7));
        }
        s.push_str("VAR_GLOBAL\n  trig : BOOL;\n  g2 : INT;\nEND_VAR\n");
        for t in 0..ntasks {
            if t == 1 {
                s.push_str("TASK T1 (SINGLE := trig, PRIORITY := 1);\n");
            } else {
                s.push_str(&format!("TASK T{t} (INTERVAL := T#{}ms, PRIORITY := {});\n", 10 * (t + 1) + k % 3, t));
            }
        }
        if b("fb") && b("taskfb") && ntasks >= 2 {
            s.push_str("PROGRAM I0 WITH T0 : Main (acc2 WITH T1);\n");
        } else {
            s.push_str("PROGRAM I0 WITH T0 : Main;\n");
        }
        if ntasks >= 2 {
            s.push_str("PROGRAM I1 WITH T1 : Aux;\n");
        } else {
            s.push_str("PROGRAM I1 : Aux;\n");
        }
        if cfg == 2 {
            s.push_str("END_RESOURCE\n");
        }
        s.push_str("END_CONFIGURATION\n");
    }
    s
}

fn session(p: &J, src: &str) -> CompileSession {
    if p["dbg"].as_bool().unwrap_or(false) {
        CompileSession::from_sources(vec![SourceFile::with_path("/verif/p.st", src)])
    } else {
        CompileSession::from_source(src)
    }
}

// ------------------------------------------------------------------ field walker (docs/specs/10-runtime.md, "ST Bytecode Format")
#[derive(Clone, Debug)]
pub struct Field {
    sec: &'static str,
    path: String,
    cls: &'static str,
    tgt: &'static str,
    off: usize,
    width: usize,
    n: u64,   // the natural bound of the field (table size, value that just fits, ...)
    rem: u64, // bytes of the section after this field
    old: u64,
}
fn sec_name(id: u64) -> &'static str {
    match id {
        1 => "STRING_TABLE",
        2 => "TYPE_TABLE",
        3 => "CONST_POOL",
        4 => "REF_TABLE",
        5 => "POU_INDEX",
        6 => "POU_BODIES",
        7 => "RESOURCE_META",
        8 => "IO_MAP",
        9 => "DEBUG_MAP",
        10 => "DEBUG_STRING_TABLE",
        11 => "VAR_META",
        12 => "RETAIN_INIT",
        _ => "VENDOR",
    }
}
struct W<'a> {
    b: &'a [u8],
    pos: usize,
    end: usize,
    sec: &'static str,
    out: Vec<Field>,
    sizes: std::collections::HashMap<&'static str, u64>,
}
impl<'a> W<'a> {
    fn need(&self, n: usize) -> Result<(), String> {
        if self.pos + n > self.end {
            Err(format!("walker: {} runs past its end at {}", self.sec, self.pos))
        } else {
            Ok(())
        }
    }
    fn size(&self, tgt: &str) -> u64 {
        *self.sizes.get(tgt).unwrap_or(&0)
    }
    fn f(&mut self, path: &str, cls: &'static str, tgt: &'static str, width: usize, n: Option<u64>) -> Result<u64, String> {
        self.need(width)?;
        let o = self.pos;
        let v = match width {
            1 => self.b[o] as u64,
            2 => rd16(self.b, o),
            4 => rd32(self.b, o),
            _ => u64::from_le_bytes(self.b[o..o + 8].try_into().unwrap()),
        };
        self.pos += width;
        let rem = (self.end - self.pos) as u64;
        let n = n.unwrap_or(match cls {
            "count" | "size" | "u32" | "i64" => v,
            "index" | "optindex" | "id" | "optid" => self.size(tgt),
            "length" => rem,
            _ => v,
        });
        self.out.push(Field { sec: self.sec, path: path.to_string(), cls, tgt, off: o, width, n, rem, old: v });
        Ok(v)
    }
    fn skip(&mut self, n: usize) -> Result<(), String> {
        self.need(n)?;
        self.pos += n;
        Ok(())
    }
}

pub struct Walk {
    fields: Vec<Field>,
    secs: Vec<(u64, usize, usize)>, // id, off, len
    table_off: usize,
    ntypes: u64,
    nconsts: u64,
    type_kinds: Vec<u64>,
    const_type_fields: Vec<usize>, // indexes into fields
}

/// Walks a compiler-emitted (version 1.1) container and lists every field with its class.
/// Every section must be consumed exactly; anything else is a tool error (the walker no longer
/// matches the format), never a verdict.
pub fn walk(b: &[u8]) -> Result<Walk, String> {
    if b.len() < 24 || &b[0..4] != b"STBC" {
        return Err("walker: not a container".into());
    }
    if rd16(b, 4) != 1 || rd16(b, 6) != 1 {
        return Err(format!("walker: only version 1.1 is known, found {}.{}", rd16(b, 4), rd16(b, 6)));
    }
    let count = rd16(b, 14) as usize;
    let toff = rd32(b, 16) as usize;
    if toff + count * 12 > b.len() {
        return Err("walker: section table out of file".into());
    }
    let mut secs = Vec::new();
    let mut sizes = std::collections::HashMap::new();
    let mut code_len = 0u64;
    for i in 0..count {
        let e = toff + 12 * i;
        let (id, off, len) = (rd16(b, e), rd32(b, e + 4) as usize, rd32(b, e + 8) as usize);
        if off + len > b.len() {
            return Err("walker: section out of file".into());
        }
        secs.push((id, off, len));
        let first = if len >= 4 { rd32(b, off) } else { 0 };
        match id {
            1 => sizes.insert("string", first),
            2 => sizes.insert("type", first),
            3 => sizes.insert("const", first),
            4 => sizes.insert("ref", first),
            5 => sizes.insert("pou", first),
            10 => sizes.insert("dstring", first),
            6 => {
                code_len = len as u64;
                None
            }
            _ => None,
        };
    }
    let mut w = W { b, pos: 0, end: 24, sec: "HEADER", out: Vec::new(), sizes };
    let flen = b.len() as u64;
    w.f("magic", "hdr", "", 4, Some(rd32(b, 0)))?;
    w.f("major", "hdr", "", 2, Some(1))?;
    w.f("minor", "hdr", "", 2, Some(1))?;
    w.f("flags", "hdr", "", 4, Some(1))?;
    w.f("header_size", "hdr", "", 2, Some(24))?;
    w.f("section_count", "hdr", "", 2, Some(count as u64))?;
    w.f("section_table_off", "hdr", "", 4, Some(flen - 12 * count as u64))?;
    w.f("checksum", "hdr", "", 4, Some(rd32(b, 20)))?;
    w.sec = "SECTION_TABLE";
    w.pos = toff;
    w.end = toff + 12 * count;
    for i in 0..count {
        let (_, off, _) = secs[i];
        w.f(&format!("[{i}].id"), "tbl-id", "", 2, Some(13))?;
        w.f(&format!("[{i}].flags"), "tbl-flags", "", 2, Some(1))?;
        w.f(&format!("[{i}].offset"), "tbl-off", "", 4, Some(flen))?;
        w.f(&format!("[{i}].length"), "tbl-len", "", 4, Some(flen - off as u64))?;
    }
    let mut pous: Vec<(u64, u64)> = Vec::new(); // code_offset, code_length
    let mut type_kinds = Vec::new();
    for &(id, off, len) in &secs {
        w.sec = sec_name(id);
        w.pos = off;
        w.end = off + len;
        match id {
            1 | 10 => {
                let c = w.f("count", "count", "", 4, None)?;
                for i in 0..c {
                    let l = w.f(&format!("[{i}].len"), "length", "", 4, None)? as usize;
                    w.skip(l)?;
                    let pad = (4 - (4 + l) % 4) % 4;
                    w.skip(pad)?;
                }
            }
            2 => {
                let c = w.f("count", "count", "", 4, None)?;
                let mut offs = Vec::new();
                for i in 0..c {
                    offs.push(w.f(&format!("offsets[{i}]"), "offset", "", 4, Some(len as u64))? as usize);
                }
                for (i, o) in offs.iter().enumerate() {
                    if off + *o != w.pos {
                        return Err(format!("walker: type entry {i} not where its offset says"));
                    }
                    let p = format!("[{i}]");
                    let kind = w.f(&format!("{p}.kind"), "tag", "", 1, Some(11))?;
                    type_kinds.push(kind);
                    w.skip(3)?;
                    w.f(&format!("{p}.name_idx"), "optindex", "string", 4, None)?;
                    match kind {
                        0 => {
                            w.f(&format!("{p}.prim_id"), "tag", "", 2, Some(28))?;
                            w.f(&format!("{p}.max_length"), "u32", "", 2, None)?;
                        }
                        1 => {
                            w.f(&format!("{p}.array.elem_type_id"), "index", "type", 4, None)?;
                            let d = w.f(&format!("{p}.array.dim_count"), "count", "", 4, None)?;
                            for j in 0..d {
                                w.f(&format!("{p}.array.dims[{j}].lower"), "i64", "", 8, None)?;
                                w.f(&format!("{p}.array.dims[{j}].upper"), "i64", "", 8, None)?;
                            }
                        }
                        2 | 7 => {
                            let c2 = w.f(&format!("{p}.fields.count"), "count", "", 4, None)?;
                            for j in 0..c2 {
                                w.f(&format!("{p}.fields[{j}].name_idx"), "index", "string", 4, None)?;
                                w.f(&format!("{p}.fields[{j}].type_id"), "index", "type", 4, None)?;
                            }
                        }
                        3 => {
                            w.f(&format!("{p}.enum.base_type_id"), "index", "type", 4, None)?;
                            let c2 = w.f(&format!("{p}.enum.variant_count"), "count", "", 4, None)?;
                            for j in 0..c2 {
                                w.f(&format!("{p}.enum.variants[{j}].name_idx"), "index", "string", 4, None)?;
                                w.f(&format!("{p}.enum.variants[{j}].value"), "i64", "", 8, None)?;
                            }
                        }
                        4 => {
                            w.f(&format!("{p}.alias.target_type_id"), "index", "type", 4, None)?;
                        }
                        5 => {
                            w.f(&format!("{p}.subrange.base_type_id"), "index", "type", 4, None)?;
                            w.f(&format!("{p}.subrange.lower"), "i64", "", 8, None)?;
                            w.f(&format!("{p}.subrange.upper"), "i64", "", 8, None)?;
                        }
                        6 => {
                            w.f(&format!("{p}.reference.target_type_id"), "index", "type", 4, None)?;
                        }
                        8 | 9 => {
                            w.f(&format!("{p}.pou_id"), "id", "pou", 4, None)?;
                        }
                        10 => {
                            let c2 = w.f(&format!("{p}.interface.method_count"), "count", "", 4, None)?;
                            for j in 0..c2 {
                                w.f(&format!("{p}.interface.methods[{j}].name_idx"), "index", "string", 4, None)?;
                                w.f(&format!("{p}.interface.methods[{j}].slot"), "u32", "", 4, None)?;
                            }
                        }
                        _ => return Err(format!("walker: type kind {kind}")),
                    }
                }
            }
            3 => {
                let c = w.f("count", "count", "", 4, None)?;
                for i in 0..c {
                    w.f(&format!("[{i}].type_id"), "index", "type", 4, None)?;
                    let l = w.f(&format!("[{i}].payload_len"), "length", "", 4, None)? as usize;
                    w.skip(l)?;
                }
            }
            4 => {
                let c = w.f("count", "count", "", 4, None)?;
                for i in 0..c {
                    w.f(&format!("[{i}].location"), "tag", "", 1, Some(5))?;
                    w.skip(3)?;
                    w.f(&format!("[{i}].owner_id"), "u32", "", 4, None)?;
                    w.f(&format!("[{i}].offset"), "u32", "", 4, None)?;
                    let sc = w.f(&format!("[{i}].segment_count"), "count", "", 4, None)?;
                    for j in 0..sc {
                        let kind = w.f(&format!("[{i}].seg[{j}].kind"), "tag", "", 1, Some(2))?;
                        w.skip(3)?;
                        if kind == 0 {
                            let ic = w.f(&format!("[{i}].seg[{j}].index_count"), "count", "", 4, None)?;
                            for q in 0..ic {
                                w.f(&format!("[{i}].seg[{j}].indices[{q}]"), "i64", "", 8, None)?;
                            }
                        } else if kind == 1 {
                            w.f(&format!("[{i}].seg[{j}].name_idx"), "index", "string", 4, None)?;
                        } else {
                            return Err("walker: ref segment kind".into());
                        }
                    }
                }
            }
            5 => {
                let c = w.f("count", "count", "", 4, None)?;
                for i in 0..c {
                    let p = format!("[{i}]");
                    w.f(&format!("{p}.id"), "u32", "", 4, None)?;
                    w.f(&format!("{p}.name_idx"), "index", "string", 4, None)?;
                    let kind = w.f(&format!("{p}.kind"), "tag", "", 1, Some(5))?;
                    w.skip(3)?;
                    let co = w.f(&format!("{p}.code_offset"), "offset", "", 4, Some(code_len))?;
                    let cl = w.f(&format!("{p}.code_length"), "length", "", 4, Some(code_len.saturating_sub(co)))?;
                    pous.push((co, cl));
                    w.f(&format!("{p}.local_ref_start"), "u32", "", 4, None)?;
                    w.f(&format!("{p}.local_ref_count"), "u32", "", 4, None)?;
                    w.f(&format!("{p}.return_type_id"), "optindex", "type", 4, None)?;
                    w.f(&format!("{p}.owner_pou_id"), "optid", "pou", 4, None)?;
                    let pc = w.f(&format!("{p}.param_count"), "count", "", 4, None)?;
                    for j in 0..pc {
                        w.f(&format!("{p}.params[{j}].name_idx"), "index", "string", 4, None)?;
                        w.f(&format!("{p}.params[{j}].type_id"), "index", "type", 4, None)?;
                        w.f(&format!("{p}.params[{j}].direction"), "tag", "", 1, Some(3))?;
                        w.skip(3)?;
                        w.f(&format!("{p}.params[{j}].default_const_idx"), "optindex", "const", 4, None)?;
                    }
                    if kind == 1 || kind == 3 {
                        w.f(&format!("{p}.parent_pou_id"), "optid", "pou", 4, None)?;
                        let ic = w.f(&format!("{p}.interface_count"), "count", "", 4, None)?;
                        for j in 0..ic {
                            w.f(&format!("{p}.interfaces[{j}].interface_type_id"), "index", "type", 4, None)?;
                            let mc = w.f(&format!("{p}.interfaces[{j}].method_count"), "count", "", 4, None)?;
                            for q in 0..mc {
                                w.f(&format!("{p}.interfaces[{j}].vtable_slots[{q}]"), "u32", "", 4, None)?;
                            }
                        }
                        let mc = w.f(&format!("{p}.method_count"), "count", "", 4, None)?;
                        for j in 0..mc {
                            w.f(&format!("{p}.methods[{j}].name_idx"), "index", "string", 4, None)?;
                            w.f(&format!("{p}.methods[{j}].pou_id"), "id", "pou", 4, None)?;
                            w.f(&format!("{p}.methods[{j}].vtable_slot"), "u32", "", 4, None)?;
                            w.f(&format!("{p}.methods[{j}].access"), "tag", "", 1, Some(3))?;
                            w.f(&format!("{p}.methods[{j}].flags"), "u32", "", 1, None)?;
                            w.skip(2)?;
                        }
                    }
                }
            }
            6 => {
                w.pos = w.end; // instruction streams are walked per POU below
            }
            7 => {
                let c = w.f("resource_count", "count", "", 4, None)?;
                for i in 0..c {
                    let p = format!("[{i}]");
                    w.f(&format!("{p}.name_idx"), "index", "string", 4, None)?;
                    w.f(&format!("{p}.inputs_size"), "size", "", 4, None)?;
                    w.f(&format!("{p}.outputs_size"), "size", "", 4, None)?;
                    w.f(&format!("{p}.memory_size"), "size", "", 4, None)?;
                    let tc = w.f(&format!("{p}.task_count"), "count", "", 4, None)?;
                    for j in 0..tc {
                        let t = format!("{p}.tasks[{j}]");
                        w.f(&format!("{t}.name_idx"), "index", "string", 4, None)?;
                        w.f(&format!("{t}.priority"), "u32", "", 4, None)?;
                        w.f(&format!("{t}.interval_nanos"), "i64", "", 8, None)?;
                        w.f(&format!("{t}.single_name_idx"), "optindex", "string", 4, None)?;
                        let pc = w.f(&format!("{t}.program_count"), "count", "", 4, None)?;
                        for q in 0..pc {
                            w.f(&format!("{t}.program_name_idx[{q}]"), "index", "string", 4, None)?;
                        }
                        let fc = w.f(&format!("{t}.fb_ref_count"), "count", "", 4, None)?;
                        for q in 0..fc {
                            w.f(&format!("{t}.fb_ref_idx[{q}]"), "index", "ref", 4, None)?;
                        }
                    }
                }
            }
            8 => {
                let c = w.f("binding_count", "count", "", 4, None)?;
                for i in 0..c {
                    w.f(&format!("[{i}].address_str_idx"), "index", "string", 4, None)?;
                    w.f(&format!("[{i}].ref_idx"), "index", "ref", 4, None)?;
                    w.f(&format!("[{i}].type_id"), "optindex", "type", 4, None)?;
                }
            }
            9 => {
                let c = w.f("entry_count", "count", "", 4, None)?;
                for i in 0..c {
                    w.f(&format!("[{i}].pou_id"), "id", "pou", 4, None)?;
                    w.f(&format!("[{i}].code_offset"), "offset", "", 4, Some(code_len))?;
                    w.f(&format!("[{i}].file_idx"), "index", "dstring", 4, None)?;
                    w.f(&format!("[{i}].line"), "u32", "", 4, None)?;
                    w.f(&format!("[{i}].column"), "u32", "", 4, None)?;
                    w.f(&format!("[{i}].kind"), "u32", "", 1, None)?;
                    w.skip(3)?;
                }
            }
            11 => {
                let c = w.f("entry_count", "count", "", 4, None)?;
                for i in 0..c {
                    w.f(&format!("[{i}].name_idx"), "index", "string", 4, None)?;
                    w.f(&format!("[{i}].type_id"), "index", "type", 4, None)?;
                    w.f(&format!("[{i}].ref_idx"), "index", "ref", 4, None)?;
                    w.f(&format!("[{i}].retain"), "tag", "", 1, Some(4))?;
                    w.skip(3)?;
                    w.f(&format!("[{i}].init_const_idx"), "optindex", "const", 4, None)?;
                }
            }
            12 => {
                let c = w.f("entry_count", "count", "", 4, None)?;
                for i in 0..c {
                    w.f(&format!("[{i}].ref_idx"), "index", "ref", 4, None)?;
                    w.f(&format!("[{i}].const_idx"), "index", "const", 4, None)?;
                }
            }
            _ => {
                w.pos = w.end;
            }
        }
        if w.pos != w.end {
            return Err(format!("walker: {} not consumed exactly ({} of {})", w.sec, w.pos - off, len));
        }
    }
    // instruction streams
    if let Some(&(_, boff, blen)) = secs.iter().find(|s| s.0 == 6) {
        w.sec = "POU_BODIES";
        let mut seen = std::collections::HashSet::new();
        for (pi, &(co, cl)) in pous.iter().enumerate() {
            if cl == 0 || !seen.insert((co, cl)) {
                continue;
            }
            if (co + cl) as usize > blen {
                return Err("walker: POU code out of POU_BODIES".into());
            }
            w.pos = boff + co as usize;
            w.end = w.pos + cl as usize;
            while w.pos < w.end {
                let at = w.pos - boff;
                let p = format!("pou[{pi}]@{at}");
                let op = w.f(&format!("{p}.opcode"), "opcode", "", 1, Some(0x56))?;
                match op {
                    0x02..=0x04 => {
                        let n = (w.end - (w.pos + 4)) as u64;
                        w.f(&format!("{p}.jump"), "jump", "", 4, Some(n))?;
                    }
                    0x05 => {
                        w.f(&format!("{p}.call_pou_id"), "id", "pou", 4, None)?;
                    }
                    0x07 | 0x70 => {
                        w.f(&format!("{p}.operand"), "u32", "", 4, None)?;
                    }
                    0x08 => {
                        w.f(&format!("{p}.interface_type_id"), "index", "type", 4, None)?;
                        w.f(&format!("{p}.slot"), "u32", "", 4, None)?;
                    }
                    0x10 => {
                        w.f(&format!("{p}.const_idx"), "index", "const", 4, None)?;
                    }
                    0x16 => {
                        w.f(&format!("{p}.pick"), "u32", "", 1, None)?;
                    }
                    0x20..=0x22 => {
                        w.f(&format!("{p}.ref_idx"), "index", "ref", 4, None)?;
                    }
                    0x30 => {
                        w.f(&format!("{p}.field_name_idx"), "index", "string", 4, None)?;
                    }
                    0x60 => {
                        w.f(&format!("{p}.cast_type_id"), "index", "type", 4, None)?;
                    }
                    _ => {}
                }
            }
            if w.pos != w.end {
                return Err("walker: instruction stream not consumed exactly".into());
            }
        }
    }
    let const_type_fields = w.out.iter().enumerate().filter(|(_, f)| f.sec == "CONST_POOL" && f.path.ends_with(".type_id")).map(|(i, _)| i).collect();
    Ok(Walk { ntypes: w.size("type"), nconsts: w.size("const"), fields: w.out, secs, table_off: toff, type_kinds, const_type_fields })
}

// ------------------------------------------------------------------ mutations
fn hostile(vc: &str, f: &Field) -> u64 {
    let n = f.n;
    if f.width == 8 {
        return match vc {
            "0" => 0,
            "1" => 1,
            "n-1" => u64::MAX,            // -1
            "n" => i64::MAX as u64,
            "n+1" => i64::MIN as u64,
            "2^16" => 65536,
            "2^31-1" => 0x7fff_ffff,
            "2^31" => 0x8000_0000,
            _ => 0xffff_ffff,
        };
    }
    let v = match vc {
        "0" => 0,
        "1" => 1,
        "n-1" => n.wrapping_sub(1) & 0xffff_ffff,
        "n" => n,
        "n+1" => n + 1,
        "2^16" => 65536,
        "2^31-1" => 0x7fff_ffff,
        "2^31" => 0x8000_0000,
        _ => 0xffff_ffff,
    };
    let max = match f.width {
        1 => 0xff,
        2 => 0xffff,
        _ => 0xffff_ffffu64,
    };
    v.min(max)
}
fn put(b: &mut [u8], off: usize, width: usize, v: u64) {
    b[off..off + width].copy_from_slice(&v.to_le_bytes()[..width]);
}
/// The k-th field of class `cls` in section `sec` ("*" = any).  With `group`, fields are first
/// grouped by what they are (section + name without positions) and the group-th kind of field
/// is taken, then its k-th occurrence: every decoder site is reached with few scripts.
fn pick<'a>(w: &'a Walk, sec: &str, cls: &str, k: u64, group: Option<u64>) -> Option<&'a Field> {
    let m = |f: &&Field| (sec == "*" || f.sec == sec) && (cls == "*" || f.cls == cls);
    let mut c: Vec<&Field> = w.fields.iter().filter(m).collect();
    if let (Some(g), false) = (group, c.is_empty()) {
        let mut kinds: Vec<(&str, String)> = Vec::new();
        for f in &c {
            let id = (f.sec, leaf(&f.path));
            if !kinds.contains(&id) {
                kinds.push(id);
            }
        }
        let want = kinds[(g % kinds.len() as u64) as usize].clone();
        c.retain(|f| (f.sec, leaf(&f.path)) == want);
    }
    if c.is_empty() {
        c = w.fields.iter().filter(|f| cls == "*" || f.cls == cls).collect();
    }
    if c.is_empty() {
        c = w.fields.iter().collect();
    }
    if c.is_empty() {
        None
    } else {
        Some(c[(k % c.len() as u64) as usize])
    }
}
/// The field's name without positions: "[3].params[0].name_idx" -> "params.name_idx".
fn leaf(path: &str) -> String {
    let mut out = String::new();
    let mut depth = 0;
    let p = match path.find("@") {
        Some(i) => path[i..].find('.').map(|j| &path[i + j + 1..]).unwrap_or(path),
        None => path,
    };
    for ch in p.chars() {
        match ch {
            '[' => depth += 1,
            ']' => depth -= 1,
            _ if depth == 0 => out.push(ch),
            _ => {}
        }
    }
    out.trim_matches('.').to_string()
}
fn field_json(f: &Field, vc: &str, newv: u64) -> J {
    json!({"sec": f.sec, "cls": f.cls, "tgt": f.tgt, "path": f.path, "leaf": leaf(&f.path), "off": f.off, "width": f.width, "vc": vc,
           "n": clamp(f.n), "rem": clamp(f.rem), "old": f.old.to_string(), "new": newv.to_string(), "newc": clamp(newv)})
}

/// Applies the script's mutation to the emitted container.  Returns the new bytes and the
/// `Mutate` event (without the frame).
fn mutate(base: &[u8], w: &Walk, m: &J) -> (Vec<u8>, J) {
    let mut b = base.to_vec();
    let kind = m["kind"].as_str().unwrap_or("none");
    let k = m["k"].as_u64().unwrap_or(0);
    let mut ev = json!({"a": "Mutate", "kind": kind, "single": false, "touchesFrame": false, "sec": "", "cls": "", "vc": "", "leaf": "", "newc": 0, "rem": 0});
    match kind {
        "field" => {
            let vc = m["vc"].as_str().unwrap_or("0");
            if let Some(f) = pick(w, m["sec"].as_str().unwrap_or("*"), m["cls"].as_str().unwrap_or("*"), k, m["group"].as_u64()) {
                let v = hostile(vc, f);
                put(&mut b, f.off, f.width, v);
                let fj = field_json(f, vc, v);
                ev["single"] = json!(true);
                ev["touchesFrame"] = json!(f.sec == "HEADER" || f.sec == "SECTION_TABLE");
                for key in ["sec", "cls", "vc", "leaf", "newc", "rem"] {
                    ev[key] = fj[key].clone();
                }
                ev["fields"] = json!([fj]);
                if !(f.sec == "HEADER" && f.path == "checksum") {
                    fix_crc(&mut b);
                }
            }
        }
        "pair" => {
            let mut fs = Vec::new();
            for part in ["m1", "m2"] {
                let q = &m[part];
                let vc = q["vc"].as_str().unwrap_or("0");
                if let Some(f) = pick(w, q["sec"].as_str().unwrap_or("*"), q["cls"].as_str().unwrap_or("*"), q["k"].as_u64().unwrap_or(0), q["group"].as_u64()) {
                    let v = hostile(vc, f);
                    put(&mut b, f.off, f.width, v);
                    if f.sec == "HEADER" || f.sec == "SECTION_TABLE" {
                        ev["touchesFrame"] = json!(true);
                    }
                    fs.push(field_json(f, vc, v));
                }
            }
            ev["sec"] = json!("*");
            ev["cls"] = json!("pair");
            ev["fields"] = json!(fs);
            fix_crc(&mut b);
        }
        "twin" => {
            // two sibling entries made to carry the same name (or the same reference): the value of one `...name_idx` /
            // index field copied onto another field of the same kind (two tasks of one name, two variables, two POUs):
            // every index stays inside its table, so validation has no reason to object
            let mut groups: std::collections::BTreeMap<(String, String), Vec<usize>> = std::collections::BTreeMap::new();
            for (i, f) in w.fields.iter().enumerate() {
                if (f.cls == "index" || f.cls == "optindex") && (f.sec == "RESOURCE_META" || leaf(&f.path).ends_with("name_idx")) {
                    groups.entry((f.sec.to_string(), leaf(&f.path))).or_default().push(i);
                }
            }
            let cands: Vec<&Vec<usize>> = groups.values().filter(|g| g.len() >= 2).collect();
            if !cands.is_empty() {
                let want_tasks = m["tasks"].as_bool().unwrap_or(false);
                let g = match groups.iter().find(|((sec, l), g)| want_tasks && sec == "RESOURCE_META" && l == "tasks.name_idx" && g.len() >= 2) {
                    Some((_, g)) => g,
                    None => cands[(k % cands.len() as u64) as usize],
                };
                let k2 = m["k2"].as_u64().unwrap_or(1) as usize;
                let a = &w.fields[g[k2 % g.len()]];
                let bidx = g[(k2 % g.len() + 1 + (k2 / 7) % (g.len() - 1)) % g.len()];
                let bf = &w.fields[bidx];
                if a.off != bf.off && a.old != bf.old {
                    put(&mut b, bf.off, bf.width, a.old);
                    let fj = field_json(bf, "twin", a.old);
                    ev["single"] = json!(true);
                    for key in ["sec", "cls", "leaf", "newc", "rem"] {
                        ev[key] = fj[key].clone();
                    }
                    ev["vc"] = json!("twin");
                    ev["fields"] = json!([fj]);
                    fix_crc(&mut b);
                }
            }
        }
        "cycle" => {
            // a type whose definition refers to itself (alias / subrange / array element / struct
            // field), and a constant of that type: the recursive constant-payload walk of the
            // validator must still terminate
            let via = m["via"].as_str().unwrap_or("alias");
            let suffix = match via {
                "alias" => ".alias.target_type_id",
                "subrange" => ".subrange.base_type_id",
                "array" => ".array.elem_type_id",
                _ => ".type_id",
            };
            let c: Vec<&Field> = w.fields.iter().filter(|f| f.sec == "TYPE_TABLE" && f.path.ends_with(suffix)).collect();
            let mut fs = Vec::new();
            if !c.is_empty() {
                let f = c[(k % c.len() as u64) as usize];
                let tidx: u64 = f.path[1..f.path.find(']').unwrap_or(1)].parse().unwrap_or(0);
                put(&mut b, f.off, 4, tidx);
                fs.push(field_json(f, "self", tidx));
                if m["detach"].as_bool().unwrap_or(false) {
                    // aliases naming the now-cyclic type are pointed at its former target, so
                    // that the cycle is reachable only through its own entry (and the constant)
                    for g in w.fields.iter().filter(|g| g.sec == "TYPE_TABLE" && g.path.ends_with(".alias.target_type_id")
                                                     && g.old == tidx && g.off != f.off) {
                        put(&mut b, g.off, 4, f.old);
                        fs.push(field_json(g, "detach", f.old));
                    }
                }
                if !w.const_type_fields.is_empty() && m["retarget"].as_bool().unwrap_or(true) {
                    let cf = &w.fields[w.const_type_fields[(m["k2"].as_u64().unwrap_or(0) % w.const_type_fields.len() as u64) as usize]];
                    put(&mut b, cf.off, 4, tidx);
                    fs.push(field_json(cf, "cyclic-type", tidx));
                }
            }
            ev["sec"] = json!("TYPE_TABLE");
            ev["cls"] = json!(format!("cycle-{via}"));
            ev["fields"] = json!(fs);
            fix_crc(&mut b);
        }
        "inject" => {
            // the compiler never emits interface mappings: switch one on (interface_count := 1) so
            // that the bytes behind it are read as { interface_type_id, method_count, slots... }
            // and give that method_count a hostile value
            let vc = m["vc"].as_str().unwrap_or("2^32-1");
            let c: Vec<&Field> = w.fields.iter().filter(|f| f.sec == "POU_INDEX" && f.path.ends_with(".interface_count")).collect();
            let mut fs = Vec::new();
            if !c.is_empty() {
                let f = c[(k % c.len() as u64) as usize];
                put(&mut b, f.off, 4, 1);
                fs.push(field_json(f, "1", 1));
                if f.rem >= 12 {
                    let g = Field { sec: f.sec, path: format!("{}.injected.method_count", f.path), cls: "count", tgt: "", off: f.off + 8,
                                    width: 4, n: 0, rem: f.rem - 8, old: rd32(&b, f.off + 8) };
                    let v = hostile(vc, &g);
                    put(&mut b, g.off, 4, v);
                    fs.push(field_json(&g, vc, v));
                }
            }
            ev["sec"] = json!("POU_INDEX");
            ev["cls"] = json!("inject-interface");
            ev["vc"] = json!(vc);
            ev["fields"] = json!(fs);
            fix_crc(&mut b);
        }
        "raw" => {
            let width = m["width"].as_u64().unwrap_or(4).clamp(1, 8) as usize;
            if b.len() >= width {
                let off = (k % (b.len() - width + 1) as u64) as usize;
                let v: u64 = m["val"].as_str().and_then(|s| s.parse().ok()).unwrap_or(0);
                put(&mut b, off, width, v);
                ev["touchesFrame"] = json!(off < w.table_off + 12 * w.secs.len());
                ev["sec"] = json!("*");
                ev["cls"] = json!("raw");
                ev["fields"] = json!([{"off": off, "width": width, "new": v.to_string()}]);
                fix_crc(&mut b);
            }
        }
        "trunc" => {
            let mut bounds = vec![24usize, w.table_off + 12 * w.secs.len()];
            for &(_, off, len) in &w.secs {
                bounds.push(off);
                bounds.push(off + len);
            }
            let at = bounds[(k % bounds.len() as u64) as usize] as i64 + m["delta"].as_i64().unwrap_or(0);
            let at = at.clamp(0, b.len() as i64) as usize;
            b.truncate(at);
            fix_crc(&mut b);
            ev["touchesFrame"] = json!(true);
            ev["sec"] = json!("*");
            ev["cls"] = json!("trunc");
            ev["newc"] = json!(at);
        }
        "pad" => {
            let n = (k % 64) as usize + 1;
            b.extend(std::iter::repeat(m["byte"].as_u64().unwrap_or(0) as u8).take(n));
            fix_crc(&mut b);
            ev["touchesFrame"] = json!(true);
            ev["sec"] = json!("*");
            ev["cls"] = json!("pad");
        }
        "blob" => {
            let mut rng = StdRng::seed_from_u64(k);
            let len = m["len"].as_u64().unwrap_or(64) as usize;
            b = (0..len).map(|_| rng.gen()).collect();
            if m["hdr"].as_bool().unwrap_or(false) && len >= 24 {
                b[0..4].copy_from_slice(b"STBC");
                put(&mut b, 4, 2, 1);
                put(&mut b, 6, 2, 1);
                put(&mut b, 8, 4, 1);
                put(&mut b, 12, 2, 24);
                let cnt = rng.gen_range(0..4u64);
                put(&mut b, 14, 2, cnt);
                put(&mut b, 16, 4, 24);
                let mut off = (24 + 12 * cnt as usize + 3) & !3;
                for i in 0..cnt as usize {
                    let e = 24 + 12 * i;
                    if e + 12 > len {
                        break;
                    }
                    let l = rng.gen_range(0..40usize);
                    put(&mut b, e, 2, rng.gen_range(1..13));
                    put(&mut b, e + 2, 2, 0);
                    put(&mut b, e + 4, 4, off as u64);
                    put(&mut b, e + 8, 4, l as u64);
                    off = (off + l + 3) & !3;
                }
                fix_crc(&mut b);
            }
            ev["touchesFrame"] = json!(true);
            ev["sec"] = json!("*");
            ev["cls"] = json!("blob");
        }
        _ => {}
    }
    (b, ev)
}

// ------------------------------------------------------------------ framing projection
/// The header and section table of a byte string as the specification's frame record.
fn frame_of(b: &[u8]) -> J {
    let len = b.len();
    if len < 24 {
        return json!({"len": len, "magicOk": false, "major": 0, "minor": 0, "headerSize": 0, "count": 0, "tableOff": 0,
                      "crcFlag": false, "crcOk": false, "table": []});
    }
    let count = rd16(b, 14);
    let toff = rd32(b, 16);
    let fits = toff >= 24 && toff + 12 * count <= len as u64;
    let mut table = Vec::new();
    if fits {
        for i in 0..count as usize {
            let e = toff as usize + 12 * i;
            table.push(json!({"id": rd16(b, e), "off": clamp(rd32(b, e + 4)), "length": clamp(rd32(b, e + 8))}));
        }
    }
    let crc_ok = toff <= len as u64 && crc32fast::hash(&b[toff as usize..]) as u64 == rd32(b, 20);
    json!({"len": len, "magicOk": &b[0..4] == b"STBC", "major": rd16(b, 4), "minor": rd16(b, 6), "headerSize": rd16(b, 12),
           "count": count, "tableOff": clamp(toff), "crcFlag": rd32(b, 8) & 1 == 1, "crcOk": crc_ok, "table": table})
}

/// Values >= 2^24 in a frame script stand for a hostile u32 with the same residue mod 4.
fn wide(v: u64, sel: u64) -> u64 {
    if v < BIG {
        v
    } else {
        [0xffff_fffcu64, 0x7fff_fffc, 0x8000_0000, 0x0100_0000][(sel % 4) as usize] + v % 4
    }
}
/// Bytes of an abstract layout (frame family).
fn build_layout(l: &J) -> Vec<u8> {
    let len = l["len"].as_u64().unwrap_or(0) as usize;
    let sel = l["sel"].as_u64().unwrap_or(0);
    let mut b: Vec<u8> = (0..len).map(|i| (i * 7 + 3) as u8).collect();
    let mut hdr = Vec::new();
    hdr.extend_from_slice(if l["magicOk"].as_bool().unwrap_or(true) { b"STBC" } else { b"STBX" });
    hdr.extend_from_slice(&(l["major"].as_u64().unwrap_or(1) as u16).to_le_bytes());
    hdr.extend_from_slice(&(l["minor"].as_u64().unwrap_or(1) as u16).to_le_bytes());
    hdr.extend_from_slice(&(if l["crcFlag"].as_bool().unwrap_or(true) { 1u32 } else { 0 }).to_le_bytes());
    hdr.extend_from_slice(&(l["headerSize"].as_u64().unwrap_or(24) as u16).to_le_bytes());
    hdr.extend_from_slice(&(l["count"].as_u64().unwrap_or(0) as u16).to_le_bytes());
    let toff = wide(l["tableOff"].as_u64().unwrap_or(24), sel);
    hdr.extend_from_slice(&(toff as u32).to_le_bytes());
    hdr.extend_from_slice(&0u32.to_le_bytes());
    for (i, x) in hdr.iter().enumerate() {
        if i < len {
            b[i] = *x;
        }
    }
    let mut e = toff as usize;
    for ent in l["table"].as_array().map(|a| a.as_slice()).unwrap_or(&[]) {
        let mut rec = Vec::new();
        rec.extend_from_slice(&(ent["id"].as_u64().unwrap_or(0x8001) as u16).to_le_bytes());
        rec.extend_from_slice(&0u16.to_le_bytes());
        rec.extend_from_slice(&(wide(ent["off"].as_u64().unwrap_or(0), sel) as u32).to_le_bytes());
        rec.extend_from_slice(&(wide(ent["length"].as_u64().unwrap_or(0), sel) as u32).to_le_bytes());
        for (i, x) in rec.iter().enumerate() {
            if e + i < len {
                b[e + i] = *x;
            }
        }
        e = e.saturating_add(12);
    }
    if len >= 24 && l["crcFlag"].as_bool().unwrap_or(true) {
        let c = if (toff as usize) <= len { crc32fast::hash(&b[toff as usize..]) } else { 0 };
        let c = if l["crcOk"].as_bool().unwrap_or(true) { c } else { c ^ 0x5a5a_5a5a };
        b[20..24].copy_from_slice(&c.to_le_bytes());
    }
    b
}

// ------------------------------------------------------------------ generation
fn gen_frame(rng: &mut StdRng) -> J {
    let count = rng.gen_range(0..=4u64);
    let toff = match rng.gen_range(0..12) {
        0 => 20,
        1 => 26,
        2 => 28,
        3 => BIG + rng.gen_range(0..4),
        4 => 32,
        _ => 24,
    };
    let tend = if toff < BIG { toff + 12 * count } else { 24 + 12 * count };
    let mut table = Vec::new();
    let mut cursor = (tend + 3) & !3;
    for i in 0..count {
        let length = match rng.gen_range(0..10) {
            0 => 0,
            1 => BIG + rng.gen_range(0..4),
            _ => rng.gen_range(1..24),
        };
        let mut off = cursor + 4 * rng.gen_range(0..3);
        match rng.gen_range(0..16) {
            0 => off += rng.gen_range(1..4),                          // unaligned
            1 => off = off.saturating_sub(4 * rng.gen_range(1..4)),   // into the previous section
            2 => off = BIG + rng.gen_range(0..4),
            3 => off = 4 * rng.gen_range(0..8),                       // into header / table
            _ => {}
        }
        let id = if rng.gen_bool(0.2) { 6 } else { 0x8001 + i };
        table.push(json!({"id": id, "off": off, "length": length}));
        if off < BIG && length < BIG {
            cursor = (off + length + 3) & !3;
        }
    }
    // shuffle: entries may appear in any order
    for i in (1..table.len()).rev() {
        let j = rng.gen_range(0..=i);
        table.swap(i, j);
    }
    let len = match rng.gen_range(0..8) {
        0 => cursor.saturating_sub(rng.gen_range(1..6)),
        1 => rng.gen_range(0..30),
        2 => cursor + rng.gen_range(1..9),
        _ => cursor,
    };
    json!({"kind": "frame", "from": "random", "layout": {
        "len": len, "magicOk": !rng.gen_ratio(1, 25), "major": if rng.gen_ratio(1, 20) { rng.gen_range(0..4) } else { 1 },
        "minor": 1, "headerSize": match rng.gen_range(0..20) { 0 => 20, 1 => 23, 2 => 28, 3 => 25, _ => 24 },
        "count": if rng.gen_ratio(1, 15) { count + rng.gen_range(1..4) } else { count }, "tableOff": toff,
        "crcFlag": !rng.gen_ratio(1, 8), "crcOk": !rng.gen_ratio(1, 12), "table": table, "sel": rng.gen_range(0..4)}})
}

fn ch<T: Copy>(rng: &mut StdRng, xs: &[T]) -> T {
    xs[rng.gen_range(0..xs.len())]
}
fn gen_mut(rng: &mut StdRng) -> J {
    let vc = ch(rng, &VCS);
    let hot = ch(rng, &["2^16", "2^31-1", "2^31", "2^32-1", "n+1"]);
    let sec = ch(rng, &["STRING_TABLE", "TYPE_TABLE", "CONST_POOL", "REF_TABLE", "POU_INDEX", "POU_BODIES", "RESOURCE_META", "IO_MAP",
                        "DEBUG_MAP", "DEBUG_STRING_TABLE", "VAR_META", "RETAIN_INIT", "*", "*"]);
    let k = rng.gen_range(0..100_000u64);
    let k2 = rng.gen_range(0..100_000u64);
    match rng.gen_range(0..100) {
        0..=13 => {
            let v = if rng.gen_bool(0.6) { hot } else { vc };
            json!({"kind": "field", "sec": "*", "cls": "count", "group": k2 % 32, "k": k, "vc": v})
        }
        14..=19 => json!({"kind": "field", "sec": sec, "cls": "count", "k": k, "vc": vc}),
        20..=33 => {
            let cls = ch(rng, &["index", "optindex", "id", "optid", "offset", "length", "jump", "tag", "size", "i64", "u32"]);
            json!({"kind": "field", "sec": "*", "cls": cls, "group": k2 % 40, "k": k, "vc": vc})
        }
        34..=50 => {
            let cls = ch(rng, &["index", "optindex", "id", "optid"]);
            json!({"kind": "field", "sec": sec, "cls": cls, "k": k, "vc": vc})
        }
        51..=58 => {
            let cls = ch(rng, &["offset", "length"]);
            json!({"kind": "field", "sec": "*", "cls": cls, "k": k, "vc": vc})
        }
        59..=66 => {
            let cls = ch(rng, &["jump", "jump", "opcode"]);
            json!({"kind": "field", "sec": "POU_BODIES", "cls": cls, "k": k, "vc": vc})
        }
        67..=70 => {
            let cls = ch(rng, &["tag", "size", "i64", "u32"]);
            json!({"kind": "field", "sec": "*", "cls": cls, "k": k, "vc": vc})
        }
        71..=76 => {
            let s = ch(rng, &["HEADER", "SECTION_TABLE"]);
            json!({"kind": "field", "sec": s, "cls": "*", "k": k, "vc": vc})
        }
        77..=81 => json!({"kind": "trunc", "k": k, "delta": rng.gen_range(-1..=1)}),
        82 => json!({"kind": "pad", "k": k, "byte": rng.gen_range(0..2) * 255}),
        83..=86 => {
            let width = ch(rng, &[1, 2, 4, 4, 8]);
            let r = rng.gen::<u32>() as u64;
            let val = ch(rng, &[0u64, 1, 0xffff, 0x7fff_ffff, 0x8000_0000, 0xffff_ffff, r]).to_string();
            json!({"kind": "raw", "k": k, "width": width, "val": val})
        }
        87 => json!({"kind": "inject", "k": k, "vc": hot}),
        88..=89 => json!({"kind": "blob", "k": k, "len": rng.gen_range(0..400), "hdr": rng.gen_bool(0.7)}),
        90..=94 => {
            let cls = ch(rng, &["count", "index", "offset", "jump"]);
            json!({"kind": "pair", "m1": {"sec": sec, "cls": "*", "k": k, "vc": vc}, "m2": {"sec": "*", "cls": cls, "k": k2, "vc": hot}})
        }
        95..=96 => json!({"kind": "twin", "k": k, "k2": k2 % 1000, "tasks": rng.gen_bool(0.5)}),
        _ => {
            let via = ch(rng, &["alias", "alias", "subrange", "array", "field"]);
            json!({"kind": "cycle", "via": via, "k": k, "k2": k2 % 1000, "retarget": rng.gen_bool(0.8), "detach": rng.gen_bool(0.5)})
        }
    }
}

pub fn gen(args: &[String]) -> i32 {
    let seed = arg_u64(args, "--seed", 1);
    let runs = arg_u64(args, "--runs", 100) as usize;
    let frames = arg_u64(args, "--frames", 100) as usize;
    let nprogs = arg_u64(args, "--progs", 12) as usize;
    let out = arg(args, "--out").expect("--out");
    let mut rng = StdRng::seed_from_u64(seed ^ 0x57bc_c11);
    let mut o = Out::create(out);
    for _ in 0..frames {
        o.line(&gen_frame(&mut rng));
    }
    // a pool of program shapes; every shape once unmutated (round trip, emitted => validates),
    // then mutants grouped by shape so that the runner compiles each shape once
    let mut progs = vec![full_prog(seed % 50)];
    while progs.len() < nprogs.max(1) {
        progs.push(gen_prog(&mut rng));
    }
    // systematic part on the richest shape: every array count, jump, offset / length and
    // section-table field with the values that overflow, wrap or point far outside
    let sweep = arg_u64(args, "--sweep", 1);
    if sweep > 0 {
        let p = &progs[0];
        let mut line = |m: J| o.line(&json!({"kind": "life", "from": "sweep", "prog": p, "mut": m}));
        let count_vcs: &[&str] = if sweep > 1 { &VCS } else { &["2^32-1", "0", "n-1"] };
        for group in 0..32u64 {
            for k in 0..(if sweep > 1 { 8u64 } else { 3 }) {
                for vc in count_vcs {
                    line(json!({"kind": "field", "sec": "*", "cls": "count", "group": group, "k": k, "vc": vc}));
                }
            }
        }
        for k in 0..30u64 {
            for vc in if sweep > 1 { &VCS[..] } else { &["2^31-1", "2^31", "n+1"][..] } {
                line(json!({"kind": "field", "sec": "POU_BODIES", "cls": "jump", "k": k, "vc": vc}));
            }
        }
        for (sec, cls) in [("POU_INDEX", "offset"), ("POU_INDEX", "length"), ("TYPE_TABLE", "offset"), ("DEBUG_MAP", "offset"),
                           ("STRING_TABLE", "length"), ("CONST_POOL", "length"), ("DEBUG_STRING_TABLE", "length")] {
            for k in 0..(if sweep > 1 { 60u64 } else { 16 }) {
                for vc in if sweep > 1 { &VCS[..] } else { &["2^32-1", "n+1"][..] } {
                    line(json!({"kind": "field", "sec": sec, "cls": cls, "k": k, "vc": vc}));
                }
            }
        }
        for k in 0..12u64 {
            for cls in ["tbl-off", "tbl-len"] {
                for vc in ["n+1", "2^32-1"] {
                    line(json!({"kind": "field", "sec": "SECTION_TABLE", "cls": cls, "k": k, "vc": vc}));
                }
            }
        }
        for k in 0..8u64 {
            for vc in ["2^32-1", "2^31-1", "2^16"] {
                line(json!({"kind": "inject", "k": k, "vc": vc}));
            }
        }
        // the version 1.0 layouts of the decoder (no type offsets, no parameter defaults)
        for (sec, k) in [("TYPE_TABLE", 0u64), ("POU_INDEX", 0), ("POU_INDEX", 1), ("STRING_TABLE", 0)] {
            for vc in ["2^32-1", "n"] {
                line(json!({"kind": "pair", "m1": {"sec": "HEADER", "cls": "hdr", "k": 2, "vc": "0"},
                            "m2": {"sec": sec, "cls": "count", "k": k, "vc": vc}}));
            }
        }
        for k in 0..10u64 {
            line(json!({"kind": "twin", "k": k, "k2": k * 3 + 1, "tasks": k % 2 == 0}));
        }
        for via in ["alias", "subrange", "array", "field"] {
            for k in 0..4u64 {
                line(json!({"kind": "cycle", "via": via, "k": k, "k2": k * 7, "retarget": true}));
                line(json!({"kind": "cycle", "via": via, "k": k, "k2": k * 7, "retarget": true, "detach": true}));
            }
        }
    }
    let per = runs / progs.len() + 1;
    for p in &progs {
        o.line(&json!({"kind": "life", "from": "random", "prog": p, "mut": {"kind": "none"}}));
        for _ in 0..per {
            o.line(&json!({"kind": "life", "from": "random", "prog": p, "mut": gen_mut(&mut rng)}));
        }
    }
    o.flush();
    0
}

// ------------------------------------------------------------------ running (child)
static PANIC_MSG: std::sync::Mutex<String> = std::sync::Mutex::new(String::new());

fn guarded<T: Send + 'static>(f: impl FnOnce() -> Result<T, String> + Send + 'static) -> (&'static str, String, Option<T>) {
    let h = match std::thread::Builder::new().stack_size(STACK).spawn(move || std::panic::catch_unwind(std::panic::AssertUnwindSafe(f))) {
        Ok(h) => h,
        Err(e) => {
            // the machine, not the code under test: a tool error, never an outcome
            println!("{}", json!({"a": "ToolError", "why": format!("cannot start the phase thread: {e}")}));
            let _ = std::io::stdout().flush();
            std::process::exit(3);
        }
    };
    match h.join() {
        Ok(Ok(Ok(v))) => ("ok", String::new(), Some(v)),
        Ok(Ok(Err(e))) => ("err", e, None),
        _ => ("panic", std::mem::take(&mut *PANIC_MSG.lock().unwrap()), None),
    }
}

struct Child {
    out: std::io::Stdout,
}
impl Child {
    fn line(&mut self, v: &J) {
        let mut l = self.out.lock();
        writeln!(l, "{}", v).unwrap();
        l.flush().unwrap();
    }
    fn begin(&mut self, i: usize, phase: &str) {
        self.line(&json!({"a": "Begin", "i": i, "phase": phase}));
    }
}

fn variant(e: &trust_runtime::bytecode::BytecodeError) -> String {
    let d = format!("{e:?}");
    d.split(|c: char| !c.is_alphanumeric()).next().unwrap_or("").to_string()
}

fn child_main(scripts: &[J], from: usize) -> i32 {
    unsafe {
        let lim = libc::rlimit { rlim_cur: AS_LIMIT, rlim_max: AS_LIMIT };
        libc::setrlimit(libc::RLIMIT_AS, &lim);
        let core = libc::rlimit { rlim_cur: 0, rlim_max: 0 };
        libc::setrlimit(libc::RLIMIT_CORE, &core);
    }
    std::panic::set_hook(Box::new(|info| {
        let loc = info.location().map(|l| format!("{}:{}", l.file(), l.line())).unwrap_or_default();
        let msg = info.payload().downcast_ref::<&str>().map(|s| s.to_string())
            .or_else(|| info.payload().downcast_ref::<String>().cloned()).unwrap_or_default();
        eprintln!("panic: {msg} @ {loc}");
        *PANIC_MSG.lock().unwrap() = format!("{msg} @ {loc}");
    }));
    let mut c = Child { out: std::io::stdout() };
    let mut cache: Option<(String, String, Result<Vec<u8>, String>)> = None; // prog digest, src, bytes
    for (i, sc) in scripts.iter().enumerate().skip(from) {
        c.line(&json!({"a": "Script", "i": i}));
        match sc["kind"].as_str().unwrap_or("") {
            "frame" => run_frame(&mut c, i, sc),
            _ => run_life(&mut c, i, sc, &mut cache),
        }
        c.line(&json!({"a": "ScriptDone", "i": i}));
    }
    0
}

fn run_frame(c: &mut Child, i: usize, sc: &J) {
    let bytes = build_layout(&sc["layout"]);
    let mut frame = frame_of(&bytes);
    // the abstract layout is what the specification judges; the projection of the bytes built
    // from it must agree with it wherever the header is readable (harness self-check)
    let l = &sc["layout"];
    if bytes.len() >= 24 {
        for key in ["len", "magicOk", "major", "headerSize", "count", "tableOff", "crcFlag"] {
            if frame[key] != l[key] {
                frame["selfcheck"] = json!(format!("{key}: built {} from {}", frame[key], l[key]));
            }
        }
    }
    c.line(&json!({"a": "Reset", "kind": "frame", "i": i}));
    c.line(&json!({"a": "Layout", "frame": frame}));
    c.begin(i, "Decode");
    let b2 = bytes.clone();
    let (res, detail, m) = guarded(move || BytecodeModule::decode(&b2).map_err(|e| variant(&e)));
    let mut secs = Vec::new();
    let mut same = true;
    if let Some(m) = &m {
        // Decode is the abstraction function: section i of the module is entry i of the table
        // and its payload is the bytes the entry denotes
        let f = frame_of(&bytes);
        let table = f["table"].as_array().cloned().unwrap_or_default();
        for (j, s) in m.sections.iter().enumerate() {
            let payload: Option<&Vec<u8>> = match &s.data {
                trust_runtime::bytecode::SectionData::Raw(p) | trust_runtime::bytecode::SectionData::PouBodies(p) => Some(p),
                _ => None,
            };
            let plen = payload.map(|p| p.len() as i64).unwrap_or(-1);
            secs.push(json!({"id": s.id, "length": plen}));
            if let (Some(p), Some(t)) = (payload, table.get(j)) {
                let (o, n) = (t["off"].as_u64().unwrap_or(0) as usize, t["length"].as_u64().unwrap_or(0) as usize);
                if o + n > bytes.len() || &bytes[o..o + n] != p.as_slice() {
                    same = false;
                }
            }
        }
    }
    c.line(&json!({"a": "Decode", "res": res, "detail": detail, "secs": secs, "payloadSame": same}));
}

fn run_life(c: &mut Child, i: usize, sc: &J, cache: &mut Option<(String, String, Result<Vec<u8>, String>)>) {
    let prog = &sc["prog"];
    let key = prog.to_string();
    if cache.as_ref().map(|x| x.0 != key).unwrap_or(true) {
        let src = render_source(prog);
        c.begin(i, "Compile");
        let (p2, s2) = (prog.clone(), src.clone());
        let (res, detail, bytes) = guarded(move || session(&p2, &s2).build_bytecode_bytes().map_err(|e| e.to_string()));
        *cache = Some((key, src, bytes.ok_or(format!("{res}: {detail}"))));
    }
    let (_, src, emitted) = cache.as_ref().unwrap();
    let base = match emitted {
        Ok(b) => b.clone(),
        Err(e) => {
            // the generated program was not accepted by the compiler: nothing to judge
            c.line(&json!({"a": "Reset", "kind": "dropped", "i": i, "why": e}));
            return;
        }
    };
    let w = match walk(&base) {
        Ok(w) => w,
        Err(e) => {
            c.line(&json!({"a": "ToolError", "i": i, "why": e}));
            return;
        }
    };
    let mkind = sc["mut"]["kind"].as_str().unwrap_or("none").to_string();
    c.line(&json!({"a": "Reset", "kind": "life", "i": i, "mutKind": mkind}));
    c.line(&json!({"a": "Emit", "res": "ok", "len": base.len(), "frame": frame_of(&base), "fields": w.fields.len(),
                   "ntypes": w.ntypes, "nconsts": w.nconsts, "typeKinds": w.type_kinds.len()}));
    let bytes = if mkind == "none" {
        // round trip of the emitted container and of the compiler's module
        c.begin(i, "RoundTrip");
        let (b2, p2, s2) = (base.clone(), prog.clone(), src.clone());
        let (res, detail, v) = guarded(move || {
            let m = BytecodeModule::decode(&b2).map_err(|e| format!("decode: {e}"))?;
            let enc = m.encode().map_err(|e| format!("encode: {e}"))?;
            let m2 = BytecodeModule::decode(&enc).map_err(|e| format!("decode(encode): {e}"))?;
            let cm = session(&p2, &s2).build_bytecode_module().map_err(|e| format!("compile: {e}"))?;
            let cenc = cm.encode().map_err(|e| format!("encode(compiled): {e}"))?;
            let cdec = BytecodeModule::decode(&cenc).map_err(|e| format!("decode(encode(compiled)): {e}"))?;
            Ok((enc == b2, m2 == m, cdec == cm, cenc == b2))
        });
        let (a, b, d, e) = v.unwrap_or((false, false, false, false));
        c.line(&json!({"a": "RoundTrip", "res": res, "detail": detail, "encSame": a, "decSame": b, "modSame": d, "emitSame": e}));
        base.clone()
    } else {
        let (b, mut ev) = mutate(&base, &w, &sc["mut"]);
        ev["len"] = json!(b.len());
        ev["changed"] = json!(b != base);
        ev["frame"] = frame_of(&b);
        c.line(&ev);
        b
    };
    // ---- Decode
    c.begin(i, "Decode");
    let b2 = bytes.clone();
    let (res, detail, module) = guarded(move || BytecodeModule::decode(&b2).map_err(|e| variant(&e)));
    c.line(&json!({"a": "Decode", "res": res, "detail": detail}));
    let Some(module) = module else { return };
    let module = std::sync::Arc::new(module);
    // ---- Validate
    c.begin(i, "Validate");
    let m2 = module.clone();
    let (vres, detail, _) = guarded(move || m2.validate().map_err(|e| variant(&e)));
    c.line(&json!({"a": "Validate", "res": vres, "detail": detail}));
    // ---- Metadata
    c.begin(i, "Metadata");
    let m2 = module.clone();
    let (res, detail, img) = guarded(move || {
        m2.metadata().map_err(|e| variant(&e)).map(|md| {
            let r = md.primary_resource();
            (r.map(|r| r.process_image.inputs as u64 + r.process_image.outputs as u64 + r.process_image.memory as u64).unwrap_or(0),
             r.map(|r| r.tasks.len()).unwrap_or(0), md.resources.len())
        })
    });
    let (imgb, ntasks, nres) = img.unwrap_or((0, 0, 0));
    c.line(&json!({"a": "Metadata", "res": res, "detail": detail, "img": clamp(imgb), "tasks": ntasks, "resources": nres}));
    // ---- Apply (task and process-image metadata onto a runtime built from the same program,
    //      then the warm restart of a hot reload)
    let rt = {
        let (p2, s2) = (prog.clone(), src.clone());
        guarded(move || session(&p2, &s2).build_runtime().map_err(|e| e.to_string())).2
    };
    let Some(mut rt) = rt else {
        c.line(&json!({"a": "ToolError", "i": i, "why": "runtime for Apply could not be built"}));
        return;
    };
    c.begin(i, "Apply");
    let b2 = bytes.clone();
    let (res, detail, hot) = guarded(move || {
        // (1) the loader path: decode -> validate -> metadata -> images and tasks, then the
        //     warm restart that follows a reload
        let direct = rt.apply_bytecode_bytes(&b2, None).map_err(|e| format!("{e:?}").chars().take(80).collect::<String>());
        let warm = if direct.is_ok() {
            let r = rt.restart(trust_runtime::RestartMode::Warm);
            let _ = rt.metadata_snapshot();
            if r.is_ok() { "ok" } else { "err" }
        } else {
            "-"
        };
        // (2) hot reload: the same bytes sent as ResourceCommand::ReloadBytecode to a running
        //     resource thread (paused first, so that no cycle of the reloaded tasks runs here)
        //     The commands are queued before the start gate opens: the thread handles Pause and
        //     the reload first and never runs a cycle, whatever the OS schedule.
        use trust_runtime::scheduler::{ResourceCommand, ResourceRunner, StartGate, StdClock};
        let gate = std::sync::Arc::new(StartGate::new());
        let mut handle = ResourceRunner::new(rt, StdClock::new(), trust_runtime::value::Duration::from_millis(1))
            .with_start_gate(gate.clone())
            .spawn("c11-reload").map_err(|e| format!("TOOL: resource thread: {e:?}"))?;
        let control = handle.control();
        let (tx, rx) = std::sync::mpsc::channel();
        let sent = control.send_command(ResourceCommand::Pause).and_then(|_| control.send_command(ResourceCommand::ReloadBytecode { bytes: b2.clone(), respond_to: tx }));
        gate.open();
        let answer = match sent {
            Ok(()) => rx.recv_timeout(std::time::Duration::from_secs(60)),
            Err(_) => Err(std::sync::mpsc::RecvTimeoutError::Disconnected),
        };
        handle.stop();
        let reload = match answer {
            Ok(Ok(_)) => "ok",
            Ok(Err(_)) => "err",
            Err(std::sync::mpsc::RecvTimeoutError::Timeout) => return Err("TOOL: no answer to ReloadBytecode within 60 s".to_string()),
            Err(std::sync::mpsc::RecvTimeoutError::Disconnected) => {
                // the resource thread is gone without answering: a panic while reloading if
                // the thread panicked, otherwise it merely ended (not judged)
                if handle.join().is_err() {
                    panic!("resource thread panicked in ReloadBytecode: {}", PANIC_MSG.lock().map(|m| m.clone()).unwrap_or_default());
                }
                "no-answer"
            }
        };
        let _ = handle.join();
        match direct {
            Ok(()) => Ok((warm, reload)),
            Err(e) => Err(format!("{e} [reload {reload}]")),
        }
    });
    if res == "err" && detail.starts_with("TOOL:") {
        c.line(&json!({"a": "ToolError", "i": i, "why": detail}));
        return;
    }
    let (warm, reload) = hot.unwrap_or(("-", "-"));
    c.line(&json!({"a": "Apply", "res": res, "detail": detail, "hot": warm, "reload": reload, "img": clamp(imgb), "validated": vres == "ok"}));
}

// ------------------------------------------------------------------ running (parent)
fn cpu_ticks(pid: u32) -> u64 {
    let s = std::fs::read_to_string(format!("/proc/{pid}/stat")).unwrap_or_default();
    let rest = s.rsplit(')').next().unwrap_or("");
    let f: Vec<&str> = rest.split_whitespace().collect();
    // fields after the command: state is [0]; utime / stime are fields 14 / 15 of the line
    f.get(11).and_then(|x| x.parse::<u64>().ok()).unwrap_or(0) + f.get(12).and_then(|x| x.parse::<u64>().ok()).unwrap_or(0)
}

pub fn run(args: &[String]) -> i32 {
    let spath = arg(args, "--scripts").expect("--scripts").to_string();
    if let Some(from) = arg(args, "--child") {
        // a restarted child parses only the scripts it still has to run
        let from: usize = from.parse().unwrap_or(0);
        let f = std::fs::File::open(&spath).unwrap_or_else(|e| panic!("open {spath}: {e}"));
        let scripts: Vec<J> = std::io::BufReader::new(f).lines().map(|l| l.unwrap()).filter(|l| !l.trim().is_empty()).enumerate()
            .map(|(i, l)| if i < from { J::Null } else { serde_json::from_str(&l).unwrap_or_else(|e| panic!("bad json line: {e}")) })
            .collect();
        return child_main(&scripts, from);
    }
    let scripts = read_ndjson(&spath);
    if arg(args, "--dump").is_some() {
        return dump(&scripts);
    }
    let mut o = Out::create(arg(args, "--out").expect("--out"));
    let exe = crate::util::self_exe();
    let errp = format!("{}.stderr", arg(args, "--out").unwrap());
    let mut from = 0usize;
    let (mut aborts, mut dropped, mut toolerr) = (0usize, 0usize, 0usize);
    while from < scripts.len() {
        let errf = std::fs::File::create(&errp).expect("stderr file");
        let mut ch = std::process::Command::new(&exe)
            .args(["stbc-run", "--scripts", &spath, "--child", &from.to_string()])
            .stdout(std::process::Stdio::piped())
            .stderr(errf)
            .spawn()
            .expect("spawn child");
        let pid = ch.id();
        let stdout = ch.stdout.take().unwrap();
        let (tx, rx) = std::sync::mpsc::channel::<String>();
        let reader = std::thread::spawn(move || {
            for l in std::io::BufReader::new(stdout).lines() {
                match l {
                    Ok(l) => {
                        if tx.send(l).is_err() {
                            break;
                        }
                    }
                    Err(_) => break,
                }
            }
        });
        let mut cur: Option<usize> = None; // script in progress
        let mut phase: Option<String> = None; // phase in progress
        let mut hang = false;
        loop {
            match rx.recv_timeout(std::time::Duration::from_secs(60)) {
                Ok(l) => {
                    let v: J = match serde_json::from_str(&l) {
                        Ok(v) => v,
                        Err(_) => continue,
                    };
                    match v["a"].as_str().unwrap_or("") {
                        "Script" => {
                            cur = v["i"].as_u64().map(|x| x as usize);
                            phase = None;
                        }
                        "ScriptDone" => {
                            from = v["i"].as_u64().unwrap_or(0) as usize + 1;
                            cur = None;
                            phase = None;
                        }
                        "Begin" => phase = v["phase"].as_str().map(String::from),
                        "ToolError" => {
                            eprintln!("stbc-run: {}", v["why"]);
                            toolerr += 1;
                        }
                        _ => {
                            if v["a"] == "Reset" && v["kind"] == "dropped" {
                                dropped += 1;
                            }
                            phase = None;
                            o.line(&v);
                        }
                    }
                }
                Err(std::sync::mpsc::RecvTimeoutError::Timeout) => {
                    // no progress for a minute: a phase that burnt CPU all that time does not
                    // terminate (data); anything else is a starved machine (tool error)
                    let ticks = cpu_ticks(pid);
                    let hz = unsafe { libc::sysconf(libc::_SC_CLK_TCK) }.max(1) as u64;
                    let _ = ch.kill();
                    if ticks / hz >= 30 {
                        hang = true;
                        break;
                    }
                    eprintln!("stbc-run: child made no progress for 60 s with {} s CPU: giving up", ticks / hz);
                    return 2;
                }
                Err(std::sync::mpsc::RecvTimeoutError::Disconnected) => break,
            }
        }
        let status = ch.wait().expect("wait");
        let _ = reader.join();
        if let Some(i) = cur {
            // the child died inside script i
            let err = std::fs::read_to_string(&errp).unwrap_or_default();
            let why = if hang {
                "hang".to_string()
            } else if err.contains("memory allocation of") {
                format!("alloc: {}", err.lines().find(|l| l.contains("memory allocation of")).unwrap_or("").trim())
            } else if err.contains("has overflowed its stack") {
                "stack-overflow".to_string()
            } else {
                use std::os::unix::process::ExitStatusExt;
                format!("signal {:?} code {:?}", status.signal(), status.code())
            };
            let class = if hang { "hang" } else { why.split(':').next().unwrap_or("").split(' ').next().unwrap_or("") };
            match phase.as_deref() {
                Some("Compile") => {
                    // compiling the generated program is not a phase of this property: dropped
                    o.line(&json!({"a": "Reset", "kind": "dropped", "i": i, "why": format!("child died while compiling: {why}")}));
                    dropped += 1;
                }
                None => {
                    // the harness itself failed (walker, mutation, projection): a tool error
                    eprintln!("stbc-run: child died outside a phase in script {i}: {why}\n{}", err.lines().take(6).collect::<Vec<_>>().join("\n"));
                    return 2;
                }
                Some(p) => {
                    o.line(&json!({"a": p, "res": if hang { "hang" } else { "abort" }, "detail": why, "class": class,
                                   "secs": [], "payloadSame": true, "img": 0, "hot": "-", "validated": false}));
                    aborts += 1;
                }
            }
            from = i + 1;
        } else if !status.success() && from < scripts.len() {
            eprintln!("stbc-run: child failed between scripts: {status:?}");
            return 2;
        }
    }
    o.flush();
    let _ = std::fs::remove_file(&errp);
    eprintln!("stbc-run: {} scripts, {} dropped, {} child deaths, {} tool errors", scripts.len(), dropped, aborts, toolerr);
    if toolerr > 0 || dropped * 5 > scripts.len() {
        return 2;
    }
    0
}

/// `--dump 1`: print the field list of the first life script's container (development aid).
fn dump(scripts: &[J]) -> i32 {
    for sc in scripts.iter().filter(|s| s["kind"] == "life").take(1) {
        let src = render_source(&sc["prog"]);
        println!("{src}");
        match session(&sc["prog"], &src).build_bytecode_bytes() {
            Ok(b) => match walk(&b) {
                Ok(w) => {
                    println!("{} bytes, {} fields", b.len(), w.fields.len());
                    let mut m: Map<String, J> = Map::new();
                    for f in &w.fields {
                        let k = format!("{}/{}", f.sec, f.cls);
                        m.insert(k.clone(), json!(m.get(&k).and_then(|x| x.as_u64()).unwrap_or(0) + 1));
                    }
                    println!("{}", J::Object(m));
                    for f in &w.fields {
                        println!("{:?}", f);
                    }
                }
                Err(e) => println!("WALK: {e}"),
            },
            Err(e) => println!("COMPILE: {e}"),
        }
    }
    0
}
