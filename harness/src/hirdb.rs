//! HirDb domain (C13): incremental analysis equals from-scratch analysis.
//!
//! A script is a catalogue of file contents (abstract: which scripted names a content
//! *declares* — with which type — and which it *references*; rendered to Structured Text
//! here) plus a history of `Set(f,t) / Remove(f) / Query(kind,f)` steps.  `run` executes the
//! history on ONE long-lived `trust_hir::Database` through its public API and, at every
//! `Query`, loads two brand-new databases with the same `(FileId -> text)` map (ascending and
//! descending load order) and asks them the same question.  One ndjson event per
//! specification action is recorded with the projected answers; `HirDbTrace.tla` judges them.
//!
//! Process structure: the parent splits the scripts over child processes of this same
//! binary (address-space rlimit); panics of the code under test are caught in the child
//! (`catch_unwind`) and recorded as `{"a":"Panic",..}`; a child killed by a signal (abort,
//! stack overflow, allocation failure) is recorded by the parent as `{"a":"Panic","op":"abort"}`
//! for the script that was running, and the remaining scripts are resumed in a new child.
use crate::util::*;
use rand::{rngs::StdRng, Rng, SeedableRng};
use serde_json::{json, Value as J};
use sha2::{Digest, Sha256};
use std::collections::BTreeMap;
use std::panic::{catch_unwind, AssertUnwindSafe};
use std::sync::Mutex;
use trust_hir::db::{Database, FileId, SemanticDatabase, SourceDatabase};
use trust_hir::symbols::SymbolTable;
use trust_hir::diagnostics::DiagnosticCode;
use trust_hir::{Diagnostic, TypeId};

pub const KINDS: [&str; 4] = ["diagnostics", "analyze", "symbols", "types"];
const NAMES: [&str; 3] = ["Fn1", "Fn2", "Ty1"];
const BROKEN: &str = "PROGRAM Brk\nVAR\n    q : ;\n    w : INT\nEND_VAR\nq := (1 + ;\nIF w THEN\nEND_PROGRAM\nFUNCTION_BLOCK\n";

// ------------------------------------------------------------------ rendering
fn is_fn(n: &str) -> bool {
    n.starts_with("Fn")
}

/// Concrete Structured Text of a catalogue entry.  `idx` (1-based) makes every entry a
/// different string even when two entries have the same abstract content.
pub fn render(idx: usize, e: &J) -> String {
    if let Some(t) = e.get("text").and_then(|t| t.as_str()) {
        return t.to_string();
    }
    match e["shape"].as_str().unwrap_or("ok") {
        "empty" => return String::new(),
        "broken" => return format!("(* text {idx} *)\n{BROKEN}"),
        _ => {}
    }
    let mut s = format!("(* text {idx} *)\n");
    for d in e["decls"].as_array().map(|a| a.as_slice()).unwrap_or(&[]) {
        let (n, ty) = (d["n"].as_str().unwrap(), d["ty"].as_str().unwrap());
        if is_fn(n) {
            let body = if ty == "BOOL" { format!("{n} := x > 0;") } else { format!("{n} := x + 0;") };
            s.push_str(&format!("FUNCTION {n} : {ty}\nVAR_INPUT\n    x : INT;\nEND_VAR\n{body}\nEND_FUNCTION\n\n"));
        } else {
            s.push_str(&format!("TYPE {n} : {ty};\nEND_TYPE\n\n"));
        }
    }
    let refs: Vec<&str> = e["refs"].as_array().map(|a| a.iter().map(|x| x.as_str().unwrap()).collect()).unwrap_or_default();
    if !refs.is_empty() {
        s.push_str(&format!("PROGRAM Main{idx}\nVAR\n"));
        for r in &refs {
            if is_fn(r) {
                s.push_str(&format!("    r_{r} : DINT;\n"));
            } else {
                s.push_str(&format!("    v_{r} : {r};\n"));
            }
        }
        s.push_str("END_VAR\n");
        for r in &refs {
            if is_fn(r) {
                s.push_str(&format!("r_{r} := {r}(1);\n"));
            }
        }
        s.push_str("END_PROGRAM\n");
    }
    s
}

/// Byte range of the reference to `name` in a rendered "ok" text: the call `name(` for a
/// function, the type position `: name;` for a type.
fn ref_range(text: &str, name: &str) -> Option<(u32, u32)> {
    let pat = if is_fn(name) { format!(":= {name}(1);") } else { format!(": {name};\n") };
    let skip = if is_fn(name) { 3 } else { 2 };
    text.find(&pat).map(|p| ((p + skip) as u32, (p + skip + name.len()) as u32))
}

// ------------------------------------------------------------------ generation
pub fn gen(args: &[String]) -> i32 {
    let seed = arg_u64(args, "--seed", 1);
    let runs = arg_u64(args, "--runs", 100) as usize;
    let mut rng = StdRng::seed_from_u64(seed ^ 0xc13_d8);
    let mut o = Out::create(arg(args, "--out").expect("--out"));
    for n in 0..runs {
        o.line(&gen_script(&mut rng, n));
    }
    o.flush();
    0
}

/// Object-oriented cross-file material (inheritance, interfaces, aliases, constants used in bounds):
/// four roles of file, each with same-length variants selected by `bits`; for the specification these
/// contents are opaque (only incremental = fresh is judged).
fn oop_text(idx: usize, role: usize, bits: u32) -> String {
    let b = |k: u32, x: &'static str, y: &'static str| if bits >> k & 1 == 0 { x } else { y };
    match role % 4 {
        0 => format!("(* text {idx} *)\nINTERFACE IfcA\nMETHOD GetSpeed : DINT\nEND_METHOD\nEND_INTERFACE\nINTERFACE IfcB\nMETHOD GetOther : BOOL\nEND_METHOD\nEND_INTERFACE\n\
FUNCTION_BLOCK BaseA\nVAR PUBLIC\n  va : {};\nEND_VAR\nMETHOD PUBLIC GetSpeed : DINT\nGetSpeed := DINT#1;\nEND_METHOD\nEND_FUNCTION_BLOCK\n\
FUNCTION_BLOCK BaseB\nVAR PUBLIC\n  vb : BOOL;\nEND_VAR\nMETHOD PUBLIC GetOther : BOOL\nGetOther := vb;\nEND_METHOD\nEND_FUNCTION_BLOCK\n\
TYPE Alias1 : {}; END_TYPE\nTYPE Rec1 : STRUCT\n  f1 : {};\n  f2 : INT;\nEND_STRUCT END_TYPE\n", b(0, "DINT", "BOOL"), b(1, "DINT", "BOOL"), b(2, "DINT", "BOOL")),
        1 => format!("(* text {idx} *)\nFUNCTION_BLOCK Derived EXTENDS Base{} IMPLEMENTS Ifc{}\nVAR PUBLIC\n  extra : Alias1;\nEND_VAR\nEND_FUNCTION_BLOCK\n\
FUNCTION_BLOCK Leaf EXTENDS {}\nMETHOD PUBLIC Twice : DINT\nTwice := DINT#2;\nEND_METHOD\nEND_FUNCTION_BLOCK\n", b(0, "A", "B"), b(1, "A", "B"), b(2, "Derived", "BaseA  ")),
        2 => format!("(* text {idx} *)\nPROGRAM Use{idx}\nVAR\n  d : {};\n  x : DINT;\n  y : BOOL;\n  a : Alias1;\n  r : Rec1;\nEND_VAR\nx := d.GetSpeed();\ny := d.GetOther();\nx := d.{};\na := x;\nr.f1 := x;\nx := d.Twice();\nEND_PROGRAM\n",
                     b(0, "Derived", "Leaf   "), b(1, "va", "vb")),
        _ => format!("(* text {idx} *)\nCONFIGURATION Cfg{idx}\nVAR_GLOBAL CONSTANT\n  Lim : DINT := {};\nEND_VAR\nVAR_GLOBAL\n  G1 : {};\nEND_VAR\nEND_CONFIGURATION\n\
PROGRAM Ext{idx}\nVAR_EXTERNAL CONSTANT\n  Lim : DINT;\nEND_VAR\nVAR_EXTERNAL\n  G1 : {};\nEND_VAR\nVAR\n  arr : ARRAY[0..{}] OF INT;\n  e : (Red, Green) := {};\nEND_VAR\narr[3] := 1;\nG1 := Lim;\nEND_PROGRAM\n",
                     b(0, "1", "5"), b(1, "DINT", "BOOL"), b(2, "DINT", "BOOL"), b(3, "2", "4"), b(0, "Red  ", "Green")),
    }
}
fn oop_entry(idx: usize, role: usize, bits: u32) -> J {
    json!({"shape": "oop", "decls": [], "refs": [], "opaque": true, "text": oop_text(idx, role, bits), "role": role, "bits": bits, "idx": idx})
}

fn gen_entry(rng: &mut StdRng, idx: usize, soups: bool) -> J {
    let r = rng.gen_range(0..100);
    if soups && (14..34).contains(&r) {
        return oop_entry(idx, rng.gen_range(0..4), rng.gen_range(0..16));
    }
    if r < 7 {
        return json!({"shape": "empty", "decls": [], "refs": [], "opaque": false});
    }
    if r < 14 {
        return json!({"shape": "broken", "decls": [], "refs": [], "opaque": false});
    }
    let mut decls = Vec::new();
    let mut refs = Vec::new();
    for n in NAMES {
        if rng.gen_bool(0.35) {
            let tys: &[&str] = if is_fn(n) { &["INT", "BOOL", "DINT"] } else { &["INT", "BOOL"] };
            decls.push(json!({"n": n, "ty": tys[rng.gen_range(0..tys.len())]}));
        }
        if rng.gen_bool(0.45) {
            refs.push(json!(n));
        }
    }
    let e = json!({"shape": "ok", "decls": decls, "refs": refs, "opaque": false});
    if soups && r >= 86 {
        // an arbitrary content: a rendered text damaged at random places; the specification
        // knows nothing about what it declares (opaque)
        let text = soup(rng, &render(idx, &e));
        return json!({"shape": "soup", "decls": [], "refs": [], "opaque": true, "text": text});
    }
    e
}

/// Same rendering length, different meaning: Fn1 <-> Fn2 swapped, or DINT <-> BOOL in a declaration.
fn twin(rng: &mut StdRng, b: &J) -> J {
    let mut e = b.clone();
    let swap = |n: &str| match n {
        "Fn1" => "Fn2".to_string(),
        "Fn2" => "Fn1".to_string(),
        o => o.to_string(),
    };
    let sorted = |mut v: Vec<J>, key: fn(&J) -> String| {
        v.sort_by_key(key);
        v
    };
    if rng.gen_bool(0.5) {
        let refs: Vec<J> = b["refs"].as_array().unwrap().iter().map(|n| json!(swap(n.as_str().unwrap()))).collect();
        e["refs"] = json!(sorted(refs, |x| x.as_str().unwrap().to_string()));
        if rng.gen_bool(0.5) {
            let decls: Vec<J> = b["decls"].as_array().unwrap().iter().map(|d| json!({"n": swap(d["n"].as_str().unwrap()), "ty": d["ty"]})).collect();
            e["decls"] = json!(sorted(decls, |x| x["n"].as_str().unwrap().to_string()));
        }
    } else {
        let decls: Vec<J> = b["decls"]
            .as_array()
            .unwrap()
            .iter()
            .map(|d| {
                let ty = match (d["n"].as_str().unwrap(), d["ty"].as_str().unwrap()) {
                    (n, "DINT") if is_fn(n) => "BOOL",
                    (n, "BOOL") if is_fn(n) => "DINT",
                    (_, t) => t,
                };
                json!({"n": d["n"], "ty": ty})
            })
            .collect();
        e["decls"] = json!(decls);
    }
    e
}

fn soup(rng: &mut StdRng, text: &str) -> String {
    const JUNK: [&str; 22] = ["END_VAR", "(", ")", "PROGRAM ", "FUNCTION ", "'", ":=", "(*", "*)", "%IX0.0", "16#", "END_TYPE", "é", "😀", "\u{0}",
        "END_PROGRAM", ";", "VAR_EXTERNAL ", " : ", "Fn1", "Ty1", "\r\n"];
    let mut s: Vec<char> = text.chars().collect();
    for _ in 0..rng.gen_range(1..4) {
        let len = s.len();
        match rng.gen_range(0..4) {
            0 if len > 2 => {
                let a = rng.gen_range(0..len);
                let b = (a + rng.gen_range(1..40)).min(len);
                s.drain(a..b);
            }
            1 if len > 2 => {
                let a = rng.gen_range(0..len);
                let b = (a + rng.gen_range(1..60)).min(len);
                let dup: Vec<char> = s[a..b].to_vec();
                let at = rng.gen_range(0..=len);
                s.splice(at..at, dup);
            }
            2 if len > 2 => {
                s.truncate(rng.gen_range(0..len));
            }
            _ => {
                let at = rng.gen_range(0..=len);
                let j: Vec<char> = JUNK[rng.gen_range(0..JUNK.len())].chars().collect();
                s.splice(at..at, j);
            }
        }
    }
    s.into_iter().collect()
}

fn gen_script(rng: &mut StdRng, n: usize) -> J {
    let nfiles = rng.gen_range(1..=5usize);
    let ncat = rng.gen_range(3..=8usize);
    let soups = n % 3 == 0;
    let mut cat: Vec<J> = Vec::new();
    for i in 0..ncat {
        // a twin: the same shape (and byte length) as an earlier content, but another meaning
        let bj = if i > 0 { rng.gen_range(0..i) } else { 0 };
        let base: Option<J> = if i > 0 && rng.gen_bool(0.3) { Some(cat[bj].clone()) } else { None };
        // a case twin: the text of an earlier content with the letter case of one stretch (or of everything) swapped -- the
        // same program to a case-insensitive language, another string (names are reported as they are spelled)
        if i > 0 && rng.gen_range(0..8) == 0 {
            let t = render(bj + 1, &cat[bj]);
            let chars: Vec<char> = t.chars().collect();
            let (a, b) = if rng.gen_bool(0.5) || chars.len() < 4 { (0, chars.len()) } else { let a = rng.gen_range(0..chars.len() - 1); (a, (a + rng.gen_range(1..12)).min(chars.len())) };
            let text: String = chars.iter().enumerate().map(|(k, c)| if k >= a && k < b && c.is_ascii_alphabetic() { if c.is_ascii_lowercase() { c.to_ascii_uppercase() } else { c.to_ascii_lowercase() } } else { *c }).collect();
            if text != t {
                cat.push(json!({"shape": "soup", "decls": [], "refs": [], "opaque": true, "text": text}));
                continue;
            }
        }
        match base {
            Some(b) if b["shape"] == "ok" && b["opaque"] == json!(false) => cat.push(twin(rng, &b)),
            // the same text with ONE same-length variant flipped (EXTENDS BaseA -> BaseB, DINT -> BOOL, ...)
            Some(b) if b["shape"] == "oop" => cat.push(oop_entry(b["idx"].as_u64().unwrap() as usize, b["role"].as_u64().unwrap() as usize,
                                                                  b["bits"].as_u64().unwrap() as u32 ^ (1 << rng.gen_range(0..4)))),
            _ => cat.push(gen_entry(rng, i + 1, soups)),
        }
    }
    let nsteps = rng.gen_range(3..=30usize);
    let mut cur: Vec<usize> = vec![0; nfiles + 1];
    let mut steps = Vec::new();
    for _ in 0..nsteps {
        let f = rng.gen_range(1..=nfiles);
        let r = rng.gen_range(0..100);
        if r < 42 {
            let t = if cur[f] != 0 && rng.gen_bool(0.12) { cur[f] } else { rng.gen_range(1..=ncat) };
            cur[f] = t;
            steps.push(json!({"a": "Set", "f": f, "t": t}));
        } else if r < 57 {
            cur[f] = 0;
            steps.push(json!({"a": "Remove", "f": f}));
        } else {
            steps.push(json!({"a": "Query", "kind": KINDS[rng.gen_range(0..4)], "f": f}));
        }
    }
    // every history ends with the full comparison of every file
    for f in 1..=nfiles {
        for k in KINDS {
            steps.push(json!({"a": "Query", "kind": k, "f": f}));
        }
    }
    json!({"nfiles": nfiles, "cat": cat, "steps": steps, "from": "random"})
}

// ------------------------------------------------------------------ answers
fn sha(s: &str) -> String {
    let d = Sha256::digest(s.as_bytes());
    d.iter().take(8).map(|b| format!("{b:02x}")).collect()
}

/// Order-independent text form of a symbol table (hash maps are walked in key order).
fn canon_table(t: &SymbolTable) -> String {
    let mut out = String::new();
    let mut syms: Vec<_> = t.iter().collect();
    syms.sort_by_key(|s| s.id.0);
    for s in syms {
        out.push_str(&format!("{s:?} tyname={:?} ty={:?} ext={:?} impl={:?}\n", t.type_name(s.type_id), t.type_by_id(s.type_id),
            t.extends_name(s.id), t.implements_names(s.id)));
    }
    for sc in t.scopes() {
        let mut names: Vec<_> = sc.symbols.iter().map(|(k, v)| (k.to_string(), v.0)).collect();
        names.sort();
        out.push_str(&format!("scope {:?} parent={:?} owner={:?} kind={:?} using={:?} names={:?}\n", sc.id, sc.parent, sc.owner, sc.kind, sc.using_directives, names));
    }
    out
}

enum Ans {
    Diags(std::sync::Arc<Vec<Diagnostic>>),
    Table(std::sync::Arc<SymbolTable>),
    Analysis(std::sync::Arc<SymbolTable>, std::sync::Arc<Vec<Diagnostic>>),
    Types(Vec<(u32, Option<u32>, Option<TypeId>)>),
}
impl Ans {
    /// Equality of two answers is judged on their canonical text (Debug rendering, maps in key order), not
    /// with the `PartialEq` of the answer types: that is the very relation salsa uses to decide that a
    /// recomputed result "did not change", so a hole in it must not blind the comparison as well.
    fn same(&self, o: &Ans) -> bool {
        std::mem::discriminant(self) == std::mem::discriminant(o) && self.canon() == o.canon()
    }
    fn canon(&self) -> String {
        match self {
            Ans::Diags(d) => format!("{d:?}"),
            Ans::Table(t) => canon_table(t),
            Ans::Analysis(t, d) => format!("{}{d:?}", canon_table(t)),
            Ans::Types(v) => format!("{v:?}"),
        }
    }
}

fn offsets(text: &str, refs: &[(String, (u32, u32))]) -> Vec<u32> {
    let mut v: Vec<u32> = (0..=text.len() as u32).step_by(3).collect();
    for (_, (a, _)) in refs {
        v.push(*a);
    }
    v.sort();
    v.dedup();
    v
}

/// The query of `kind` on file `f` through the public API.
fn ask(db: &Database, kind: &str, f: u32, offs: &[u32]) -> Ans {
    let id = FileId(f);
    match kind {
        "diagnostics" => Ans::Diags(db.diagnostics(id)),
        "symbols" => Ans::Table(db.file_symbols(id)),
        "analyze" => {
            let a = db.analyze(id);
            Ans::Analysis(a.symbols.clone(), a.diagnostics.clone())
        }
        "types" => Ans::Types(
            offs.iter()
                .map(|&o| {
                    let e = db.expr_id_at_offset(id, o);
                    (o, e, e.map(|e| db.type_of(id, e)))
                })
                .collect(),
        ),
        o => panic!("harness: unknown query kind {o}"),
    }
}

/// Projection of an answer onto the scripted names (what the specification talks about):
/// a list of {n, v}.  diagnostics/analyze: v = "ok" | "unres" for every referenced name;
/// types: v = type name of the call expression for every referenced function;
/// symbols: v = "decl" | "none" for every scripted name.
fn project(ans: &Ans, refs: &[(String, (u32, u32))]) -> Vec<J> {
    let unres = |d: &Vec<Diagnostic>, r: (u32, u32)| {
        d.iter().any(|x| {
            matches!(x.code, DiagnosticCode::UndefinedFunction | DiagnosticCode::UndefinedType | DiagnosticCode::UndefinedVariable | DiagnosticCode::CannotResolve) && {
                let (a, b): (u32, u32) = (x.range.start().into(), x.range.end().into());
                a < r.1 && r.0 < b
            }
        })
    };
    match ans {
        Ans::Diags(d) | Ans::Analysis(_, d) => refs.iter().map(|(n, r)| json!({"n": n, "v": if unres(d, *r) { "unres" } else { "ok" }})).collect(),
        Ans::Types(v) => refs
            .iter()
            .filter(|(n, _)| is_fn(n))
            .map(|(n, r)| {
                let ty = v.iter().find(|(o, _, _)| *o == r.0).and_then(|(_, _, t)| *t);
                let name = match ty {
                    None => "none".to_string(),
                    Some(t) if t == TypeId::UNKNOWN => "unknown".to_string(),
                    Some(t) => t.builtin_name().map(|s| s.to_string()).unwrap_or_else(|| format!("#{}", t.0)),
                };
                json!({"n": n, "v": name})
            })
            .collect(),
        Ans::Table(t) => NAMES.iter().map(|n| json!({"n": n, "v": if t.lookup_any(n).is_some() { "decl" } else { "none" }})).collect(),
    }
}

// ------------------------------------------------------------------ execution
static LAST_PANIC: Mutex<String> = Mutex::new(String::new());

fn guarded<R>(f: impl FnOnce() -> R) -> Result<R, String> {
    catch_unwind(AssertUnwindSafe(f)).map_err(|e| {
        let msg = e.downcast_ref::<&str>().map(|s| s.to_string()).or_else(|| e.downcast_ref::<String>().cloned()).unwrap_or_default();
        let loc = LAST_PANIC.lock().map(|s| s.clone()).unwrap_or_default();
        format!("{msg} @ {loc}")
    })
}

fn fresh(map: &BTreeMap<u32, String>, rev: bool) -> Database {
    let mut db = Database::new();
    let mut ids: Vec<u32> = map.keys().copied().collect();
    if rev {
        ids.reverse();
    }
    for f in ids {
        db.set_source_text(FileId(f), map[&f].clone());
    }
    db
}

pub fn run(args: &[String]) -> i32 {
    if args.iter().any(|a| a == "--child") {
        return child(args);
    }
    if args.iter().any(|a| a == "--probe") {
        return probe(args);
    }
    let path = arg(args, "--scripts").expect("--scripts");
    let out = arg(args, "--out").expect("--out");
    let n = read_ndjson(path).len();
    let jobs = (arg_u64(args, "--jobs", 12) as usize).clamp(1, n.max(1));
    let exe = crate::util::self_exe();
    // job j runs the scripts j, j + jobs, j + 2*jobs, .. in a chain of children
    let handles: Vec<_> = (0..jobs)
        .map(|j| {
            let (exe, path, part) = (exe.clone(), path.to_string(), format!("{out}.part{j}"));
            std::thread::spawn(move || -> Result<(), String> {
                let _ = std::fs::remove_file(&part);
                std::fs::File::create(&part).map_err(|e| e.to_string())?;
                let mut started = 0usize; // scripts of this job begun so far
                while j + started * jobs < n {
                    let from = j + started * jobs;
                    let st = std::process::Command::new(&exe)
                        .args(["hirdb-run", "--child", "--scripts", &path, "--out", &part, "--from", &from.to_string(), "--to", &n.to_string(), "--step", &jobs.to_string()])
                        .stderr(std::process::Stdio::null())
                        .status()
                        .map_err(|e| e.to_string())?;
                    if st.success() {
                        break;
                    }
                    if st.code().is_some() {
                        return Err(format!("child of job {j} (from script {from}) failed with {st}"));
                    }
                    // killed by a signal while a script was running: that is data
                    let text = std::fs::read_to_string(&part).map_err(|e| e.to_string())?;
                    let now = text.lines().filter(|l| l.starts_with("{\"a\":\"Reset\"")).count();
                    if now <= started {
                        return Err(format!("child of job {j} died with {st} before starting a script"));
                    }
                    use std::io::Write;
                    let mut f = std::fs::OpenOptions::new().append(true).open(&part).map_err(|e| e.to_string())?;
                    let tail_ok = text.is_empty() || text.ends_with('\n');
                    writeln!(f, "{}{}", if tail_ok { "" } else { "\n" }, json!({"a": "Panic", "op": "abort", "db": "process", "msg": format!("{st}")})).map_err(|e| e.to_string())?;
                    started = now;
                }
                Ok(())
            })
        })
        .collect();
    let mut rc = 0;
    for h in handles {
        match h.join() {
            Ok(Ok(())) => {}
            Ok(Err(e)) => {
                eprintln!("hirdb-run: {e}");
                rc = 2;
            }
            Err(_) => rc = 2,
        }
    }
    if rc != 0 {
        return rc;
    }
    // merge: run i is the (i / jobs)-th run of part i % jobs
    use std::io::{BufRead, Write};
    let mut o = Out::create(out);
    let mut readers: Vec<_> = (0..jobs)
        .map(|j| std::io::BufReader::new(std::fs::File::open(format!("{out}.part{j}")).expect("open part")).lines().peekable())
        .collect();
    for i in 0..n {
        let r = &mut readers[i % jobs];
        let mut first = true;
        loop {
            let is_reset = match r.peek() {
                None => break,
                Some(Ok(l)) => l.starts_with("{\"a\":\"Reset\""),
                Some(Err(e)) => panic!("read part: {e}"),
            };
            if is_reset && !first {
                break;
            }
            if !is_reset && first {
                panic!("part {} does not continue with a Reset for script {i}", i % jobs);
            }
            first = false;
            let l = r.next().unwrap().unwrap();
            // a line cut short by a dying child is dropped (the Panic event follows it)
            if serde_json::from_str::<J>(&l).is_ok() {
                writeln!(o.0, "{l}").unwrap();
            }
        }
        if first {
            panic!("part {} has no run for script {i}", i % jobs);
        }
    }
    o.flush();
    for j in 0..jobs {
        let _ = std::fs::remove_file(format!("{out}.part{j}"));
    }
    0
}

fn child(args: &[String]) -> i32 {
    // 6 GiB of address space: a runaway allocation ends the child, not the machine
    unsafe {
        let lim = libc::rlimit { rlim_cur: 6 << 30, rlim_max: 6 << 30 };
        libc::setrlimit(libc::RLIMIT_AS, &lim);
    }
    std::panic::set_hook(Box::new(|info| {
        if let Ok(mut s) = LAST_PANIC.lock() {
            *s = info.location().map(|l| format!("{}:{}", l.file(), l.line())).unwrap_or_default();
        }
    }));
    let scripts = read_ndjson(arg(args, "--scripts").expect("--scripts"));
    let from = arg_u64(args, "--from", 0) as usize;
    let to = (arg_u64(args, "--to", scripts.len() as u64) as usize).min(scripts.len());
    let f = std::fs::OpenOptions::new().append(true).create(true).open(arg(args, "--out").expect("--out")).expect("open part");
    let mut o = Out(std::io::BufWriter::new(f));
    // self-test of the parent's bookkeeping only: TPV_HIRDB_SELFTEST_ABORT=<script index> makes the
    // child die by SIGABRT in the middle of that script (never set by the checks)
    let abort_at: Option<usize> = std::env::var("TPV_HIRDB_SELFTEST_ABORT").ok().and_then(|s| s.parse().ok());
    let step = (arg_u64(args, "--step", 1) as usize).max(1);
    for k in (from..to).step_by(step) {
        let sc = &scripts[k];
        if abort_at == Some(k) {
            o.line(&json!({"a": "Reset", "nfiles": sc["nfiles"], "cat": [], "names": NAMES, "fnames": ["Fn1", "Fn2"]}));
            o.flush();
            std::process::abort();
        }
        run_script(sc, &mut o);
    }
    o.flush();
    0
}

fn run_script(sc: &J, o: &mut Out) {
    let nfiles = sc["nfiles"].as_u64().unwrap();
    let cat = sc["cat"].as_array().unwrap();
    let texts: Vec<String> = cat.iter().enumerate().map(|(i, e)| render(i + 1, e)).collect();
    let refs_of = |t: usize| -> Vec<(String, (u32, u32))> {
        let e = &cat[t - 1];
        if e["opaque"] == json!(true) {
            return vec![];
        }
        e["refs"].as_array().map(|a| a.iter().filter_map(|n| n.as_str()).filter_map(|n| ref_range(&texts[t - 1], n).map(|r| (n.to_string(), r))).collect()).unwrap_or_default()
    };
    // the static configuration the specification needs: the abstract contents
    let acat: Vec<J> = cat.iter().map(|e| json!({"decls": e["decls"], "refs": e["refs"], "opaque": e["opaque"] == json!(true)})).collect();
    let fnames: Vec<&str> = NAMES.iter().copied().filter(|n| is_fn(n)).collect();
    o.line(&json!({"a": "Reset", "nfiles": nfiles, "cat": acat, "names": NAMES, "fnames": fnames}));
    o.flush();
    let mut db = Database::new();
    let mut map: BTreeMap<u32, String> = BTreeMap::new();
    let mut cur: BTreeMap<u32, usize> = BTreeMap::new();
    // answers given since the last set/remove, by (kind, file): a later repetition must agree
    let mut since_edit: BTreeMap<(String, u32), Ans> = BTreeMap::new();
    for st in sc["steps"].as_array().unwrap() {
        let f = st["f"].as_u64().unwrap() as u32;
        let a = st["a"].as_str().unwrap();
        let panic_ev = |op: &str, which: &str, msg: String| json!({"a": "Panic", "op": op, "db": which, "f": f, "msg": msg});
        match a {
            "Set" => {
                let t = st["t"].as_u64().unwrap() as usize;
                let text = texts[t - 1].clone();
                map.insert(f, text.clone());
                cur.insert(f, t);
                since_edit.clear();
                if let Err(m) = guarded(|| db.set_source_text(FileId(f), text)) {
                    o.line(&panic_ev("Set", "incremental", m));
                    o.flush();
                    return;
                }
                o.line(&json!({"a": "Set", "f": f, "t": t}));
            }
            "Remove" => {
                map.remove(&f);
                cur.remove(&f);
                since_edit.clear();
                if let Err(m) = guarded(|| db.remove_source_text(FileId(f))) {
                    o.line(&panic_ev("Remove", "incremental", m));
                    o.flush();
                    return;
                }
                o.line(&json!({"a": "Remove", "f": f}));
            }
            "Query" => {
                let kind = st["kind"].as_str().unwrap();
                let present = map.contains_key(&f);
                let refs = cur.get(&f).map(|&t| refs_of(t)).unwrap_or_default();
                let offs = map.get(&f).map(|t| offsets(t, &refs)).unwrap_or_else(|| vec![0, 1, 7]);
                let opq = format!("Query:{kind}");
                let inc = match guarded(|| ask(&db, kind, f, &offs)) {
                    Ok(x) => x,
                    Err(m) => {
                        o.line(&panic_ev(&opq, "incremental", m));
                        o.flush();
                        return;
                    }
                };
                let again = match guarded(|| ask(&db, kind, f, &offs)) {
                    Ok(x) => x,
                    Err(m) => {
                        o.line(&panic_ev(&opq, "incremental-repeat", m));
                        o.flush();
                        return;
                    }
                };
                let fr = guarded(|| {
                    let a = fresh(&map, false);
                    let b = fresh(&map, true);
                    (ask(&a, kind, f, &offs), ask(&b, kind, f, &offs))
                });
                let (fa, fd) = match fr {
                    Ok(x) => x,
                    Err(m) => {
                        o.line(&panic_ev(&opq, "fresh", m));
                        o.flush();
                        return;
                    }
                };
                let key = (kind.to_string(), f);
                let same = inc.same(&again) && since_edit.get(&key).map_or(true, |old| old.same(&inc));
                let (ci, cf) = (inc.canon(), fa.canon());
                let mut ev = json!({"a": "Query", "kind": kind, "f": f, "present": present,
                    "eq": inc.same(&fa), "same": same, "ord": fa.same(&fd),
                    "inc": sha(&ci), "fresh": sha(&cf),
                    "proj": if present { project(&inc, &refs) } else { vec![] },
                    "projFresh": if present { project(&fa, &refs) } else { vec![] }});
                if ev["eq"] == json!(false) {
                    // the replay file shows the two answers themselves
                    ev["incAnswer"] = json!(ci.chars().take(6000).collect::<String>());
                    ev["freshAnswer"] = json!(cf.chars().take(6000).collect::<String>());
                }
                o.line(&ev);
                since_edit.insert(key, inc);
            }
            o => panic!("harness: unknown step {o}"),
        }
        o.flush();
    }
}

/// Calibration aid: prints the diagnostics / projections of a few hand-made projects.
fn probe(_args: &[String]) -> i32 {
    let e = |decls: J, refs: J| json!({"shape": "ok", "decls": decls, "refs": refs, "opaque": false});
    let cat = vec![
        e(json!([{"n": "Fn1", "ty": "INT"}]), json!([])),
        e(json!([]), json!(["Fn1", "Fn2", "Ty1"])),
        e(json!([{"n": "Fn1", "ty": "BOOL"}, {"n": "Ty1", "ty": "BOOL"}]), json!(["Fn1", "Ty1"])),
        json!({"shape": "broken", "decls": [], "refs": [], "opaque": false}),
    ];
    let texts: Vec<String> = cat.iter().enumerate().map(|(i, e)| render(i + 1, e)).collect();
    for (i, t) in texts.iter().enumerate() {
        println!("--- text {}\n{}", i + 1, t);
    }
    for files in [vec![(1u32, 2usize)], vec![(1, 2), (2, 1)], vec![(1, 2), (2, 3)], vec![(1, 3), (2, 1)], vec![(1, 1), (2, 3)], vec![(1, 4), (2, 2)]] {
        let map: BTreeMap<u32, String> = files.iter().map(|(f, t)| (*f, texts[*t - 1].clone())).collect();
        let db = fresh(&map, false);
        println!("=== project {files:?}");
        for (f, t) in &files {
            let refs: Vec<(String, (u32, u32))> = cat[*t - 1]["refs"].as_array().unwrap().iter().filter_map(|n| n.as_str()).filter_map(|n| ref_range(&texts[*t - 1], n).map(|r| (n.to_string(), r))).collect();
            let offs = offsets(&texts[*t - 1], &refs);
            for k in KINDS {
                let a = ask(&db, k, *f, &offs);
                println!("file {f} {k}: {:?}", project(&a, &refs));
                if k == "diagnostics" {
                    if let Ans::Diags(d) = &a {
                        for x in d.iter() {
                            println!("    {:?} {:?} {:?} {}", x.code, x.severity, x.range, x.message);
                        }
                    }
                }
            }
        }
    }
    0
}
