//! Feature programs (C01): hand-written program families for the language features the random
//! generators do not reach (references, methods and inheritance, subranges, enums, multi-dimensional
//! arrays, nested aggregates, strings, date and time arithmetic, unbounded loops, nested control flow
//! with RETURN / EXIT, FB instances inside FBs, faults at every call depth).  Each family has
//! parameters drawn per instance; only the outcome contract is judged (accepted program => every
//! cycle ends Ok or in a value-dependent fault, no panic / abort / hang, no frame left).
use crate::util::*;
use rand::{rngs::StdRng, Rng, SeedableRng};
use serde_json::json;
use trust_runtime::harness::TestHarness;

fn pick<'a>(rng: &mut StdRng, xs: &[&'a str]) -> &'a str {
    xs[rng.gen_range(0..xs.len())]
}

/// (family name, source)
pub fn program(rng: &mut StdRng, family: usize) -> (&'static str, String) {
    let i = |rng: &mut StdRng| pick(rng, &["-1", "0", "1", "2", "3", "4", "5", "32767", "-32768"]).to_string();
    let d = |rng: &mut StdRng| pick(rng, &["0", "1", "-1", "2", "7"]).to_string();
    match family % 27 {
        0 => ("ref-null", format!(
            "PROGRAM P\nVAR x : INT := 5; y : INT; r : REF_TO INT; k : INT := {}; END_VAR\nIF k > 0 THEN r := REF(x); END_IF;\nr^ := r^ + INT#1;\ny := r^;\nIF k > 2 THEN r := NULL; END_IF;\ny := y + r^;\nEND_PROGRAM\n", i(rng))),
        1 => ("ref-struct", format!(
            "TYPE S : STRUCT a : INT; b : BOOL; END_STRUCT END_TYPE\nPROGRAM P\nVAR s : S; t : S; r : REF_TO S; ri : REF_TO INT; k : INT := {}; y : INT; END_VAR\nr := REF(s);\nt := r^;\nt.a := t.a + k;\nr^ := t;\nri := REF(y);\nIF k > 2 THEN ri := NULL; END_IF;\nri^ := s.a;\nEND_PROGRAM\n", i(rng))),
        2 => {
            // a method called without qualification from a sibling method; every third instance names it like a
            // standard function (DIV), which the checker resolves to the method
            let (fam, m) = if rng.gen_range(0..3) == 0 { ("method-named-like-standard-function", "Div") } else { ("method-fault-depth", "Quot") };
            (fam, format!(
            "FUNCTION_BLOCK M\nVAR acc : INT; END_VAR\nMETHOD PUBLIC {m} : INT\nVAR_INPUT a : INT; b : INT; END_VAR\n{m} := a / b;\nacc := acc + {m};\nEND_METHOD\nMETHOD PUBLIC Twice : INT\nVAR_INPUT a : INT; b : INT; END_VAR\nTwice := {m}(a := a, b := b) + {m}(a := a, b := b - INT#1);\nEND_METHOD\nEND_FUNCTION_BLOCK\nFUNCTION F : INT\nVAR_INPUT n : INT; END_VAR\nVAR m : M; END_VAR\nF := m.Twice(a := INT#10, b := n);\nEND_FUNCTION\nPROGRAM P\nVAR m : M; y : INT; n : INT := {}; END_VAR\ny := m.Twice(a := INT#100, b := n) + F(n := n + INT#1);\nn := n - INT#1;\nEND_PROGRAM\n", i(rng))) },
        3 => ("inheritance-super", format!(
            "FUNCTION_BLOCK Base\nVAR PUBLIC v : INT := {}; END_VAR\nMETHOD PUBLIC GetV : INT\nGetV := v * INT#2;\nEND_METHOD\nEND_FUNCTION_BLOCK\nFUNCTION_BLOCK Der EXTENDS Base\nMETHOD PUBLIC OVERRIDE GetV : INT\nGetV := SUPER.GetV() + v;\nEND_METHOD\nEND_FUNCTION_BLOCK\nPROGRAM P\nVAR dd : Der; b : Base; y : INT; END_VAR\ny := dd.GetV() + b.GetV();\ndd.v := dd.v + y;\nEND_PROGRAM\n", i(rng))),
        4 => ("interface-dispatch", format!(
            "INTERFACE IVal\nMETHOD Val : INT\nEND_METHOD\nEND_INTERFACE\nFUNCTION_BLOCK A IMPLEMENTS IVal\nMETHOD PUBLIC Val : INT\nVal := INT#{};\nEND_METHOD\nEND_FUNCTION_BLOCK\nFUNCTION_BLOCK B IMPLEMENTS IVal\nVAR n : INT; END_VAR\nMETHOD PUBLIC Val : INT\nn := n + INT#1;\nVal := INT#100 / (INT#2 - n);\nEND_METHOD\nEND_FUNCTION_BLOCK\nPROGRAM P\nVAR a : A; b : B; iv : IVal; y : INT; sel : BOOL; END_VAR\nIF sel THEN iv := a; ELSE iv := b; END_IF;\ny := iv.Val();\nsel := NOT sel;\nEND_PROGRAM\n", d(rng))),
        5 => ("subrange", format!(
            "TYPE Small : INT(0..10); END_TYPE\nPROGRAM P\nVAR s : Small := 3; k : INT := {}; a : ARRAY[0..10] OF INT; END_VAR\ns := k;\na[s] := INT#1;\ns := s + INT#9;\nEND_PROGRAM\n", i(rng))),
        6 => ("enum-case", format!(
            "TYPE Color : (Red := 1, Green := 2, Blue := 5) INT; END_TYPE\nPROGRAM P\nVAR c : Color := Color#Red; n : INT := {}; y : INT; END_VAR\nCASE c OF\n  Color#Red: c := Color#Green; y := INT#10 / n;\n  Color#Green: c := Color#Blue;\nELSE\n  c := Color#Red; n := n - INT#1;\nEND_CASE;\nEND_PROGRAM\n", d(rng))),
        7 => ("multidim", format!(
            "PROGRAM P\nVAR m : ARRAY[0..2, -1..1] OF INT; i : INT := {}; j : INT := {}; y : INT; END_VAR\nm[i, j] := INT#3;\ny := m[j + INT#1, i - INT#1];\ni := i + INT#1;\nEND_PROGRAM\n", i(rng), d(rng))),
        8 => ("struct-copy", format!(
            "TYPE In : STRUCT v : DINT; w : ARRAY[1..3] OF INT; END_STRUCT END_TYPE\nPROGRAM P\nVAR a : In; b : In; arr : ARRAY[1..3] OF INT; k : INT := {}; END_VAR\narr[k] := INT#5;\na.w := arr;\na.v := DINT#2147483647;\nb := a;\nb.v := b.v + DINT#1;\nEND_PROGRAM\n", i(rng))),
        9 => ("string-ops", format!(
            "PROGRAM P\nVAR s : STRING[5] := 'abc'; t : STRING := 'hello world'; w : WSTRING := \"wide\"; n : INT := {}; b : BOOL; END_VAR\ns := CONCAT(s, t);\nt := MID(t, n, INT#2);\nt := INSERT(t, s, n);\nn := LEN(t) + FIND(t, 'l');\nw := CONCAT(w, w);\nt := REPLACE(t, 'x', n, n);\nEND_PROGRAM\n", i(rng))),
        10 => ("time-arith", format!(
            "PROGRAM P\nVAR t : TIME := T#24d; k : DINT := {}; u : TIME; lt : LTIME := LTIME#100d; END_VAR\nu := MUL_TIME(t, k);\nt := ADD_TIME(t, u);\nu := DIV_TIME(t, k);\nlt := MUL_LTIME(lt, k);\nEND_PROGRAM\n", pick(rng, &["0", "1", "-1", "1000", "2147483647", "100000"]))),
        11 => ("date-arith", format!(
            "PROGRAM P\nVAR vdt : DT := DT#2024-02-29-12:00:00; vd : DATE := D#2024-01-01; vtod : TOD := TOD#23:59:59; t : TIME := {}; y : TIME; END_VAR\nvdt := ADD_DT_TIME(vdt, t);\nvtod := ADD_TOD_TIME(vtod, t);\ny := SUB_DT_DT(vdt, DT#1970-01-01-00:00:00);\nvd := CONCAT_DATE(2024, 13, 1);\nEND_PROGRAM\n", pick(rng, &["T#1s", "T#-1s", "T#24d", "T#106751d", "T#0ms"]))),
        12 => ("unbounded-loop", format!(
            "PROGRAM P\nVAR n : DINT; k : INT := {}; END_VAR\nWHILE k <> 0 DO\n  n := n + DINT#1;\n  IF n > DINT#2000000000 THEN n := DINT#0; END_IF;\nEND_WHILE;\nEND_PROGRAM\n", d(rng))),
        13 => ("nested-control", format!(
            "FUNCTION G : INT\nVAR_INPUT n : INT; END_VAR\nVAR i : INT; j : INT; END_VAR\nG := INT#0;\nFOR i := 0 TO 5 DO\n  FOR j := 0 TO 5 DO\n    IF i * j = n THEN G := i + j; EXIT; END_IF;\n    IF j > i THEN EXIT; END_IF;\n    IF i = 3 THEN CONTINUE; END_IF;\n    G := G + INT#100 / (n - j);\n  END_FOR;\nEND_FOR;\nEND_FUNCTION\nPROGRAM P\nVAR y : INT; n : INT := {}; END_VAR\ny := G(n := n);\nn := n + INT#1;\nEND_PROGRAM\n", i(rng))),
        14 => ("fb-in-fb", format!(
            "FUNCTION_BLOCK Inner\nVAR_INPUT x : INT; END_VAR\nVAR_OUTPUT y : INT; END_VAR\nVAR c : INT; END_VAR\nc := c + INT#1;\ny := x / (INT#3 - c);\nEND_FUNCTION_BLOCK\nFUNCTION_BLOCK Outer\nVAR_INPUT x : INT; END_VAR\nVAR_OUTPUT y : INT; END_VAR\nVAR a : Inner; b0 : Inner; b1 : Inner; END_VAR\na(x := x, y => y);\nIF x MOD INT#2 = INT#0 THEN b0(x := y); ELSE b1(x := y); END_IF;\ny := y + b0.y + b1.y;\nEND_FUNCTION_BLOCK\nPROGRAM P\nVAR o : Outer; y : INT; k : INT := {}; END_VAR\no(x := k, y => y);\nk := k + INT#1;\nEND_PROGRAM\n", d(rng))),
        15 => ("default-params", format!(
            "FUNCTION H : INT\nVAR_INPUT a : INT; END_VAR\nH := INT#100 / a;\nEND_FUNCTION\nPROGRAM P\nVAR y : INT; ok : BOOL; k : INT := {}; END_VAR\nok := k > INT#0;\ny := H(a := k);\ny := H(k - INT#1) + H(a := H(a := k));\nk := k - INT#1;\nEND_PROGRAM\n", d(rng))),
        16 => ("var-temp-constant", format!(
            "CONFIGURATION C\nVAR_GLOBAL CONSTANT Lim : INT := {}; END_VAR\nPROGRAM I1 : P;\nEND_CONFIGURATION\nFUNCTION_BLOCK T\nVAR_TEMP tmp : INT; END_VAR\nVAR keep : INT; END_VAR\nVAR_EXTERNAL CONSTANT Lim : INT; END_VAR\ntmp := tmp + INT#1;\nkeep := keep + tmp + INT#100 / Lim;\nEND_FUNCTION_BLOCK\nPROGRAM P\nVAR t : T; a : ARRAY[0..3] OF INT; END_VAR\nVAR_EXTERNAL CONSTANT Lim : INT; END_VAR\nt();\na[Lim] := INT#1;\nEND_PROGRAM\n", d(rng))),
        17 => ("conversions", format!(
            "PROGRAM P\nVAR r : REAL := {}; lr : LREAL := 1.0E300; i : INT; di : DINT; u : USINT; s : STRING; END_VAR\ni := REAL_TO_INT(r);\ndi := LREAL_TO_DINT(lr);\nu := INT_TO_USINT(i);\nr := LREAL_TO_REAL(lr);\nEND_PROGRAM\n", pick(rng, &["1.5", "-1.5", "3.4E38", "70000.0", "-70000.0", "0.0"]))),
        18 => ("real-arith", format!(
            "PROGRAM P\nVAR r : REAL := {}; q : REAL; l : LREAL := 1.7E308; b : BOOL; END_VAR\nq := r / (r - r);\nq := SQRT(r - REAL#2.0);\nq := LN(r - r);\nl := l * l;\nb := q > r;\nq := EXPT(r, REAL#1000.0);\nq := r MOD REAL#0.0;\nEND_PROGRAM\n", pick(rng, &["1.5", "-1.5", "3.4E38", "0.0"]))),
        19 => ("bit-access", format!(
            "PROGRAM P\nVAR w : WORD := 16#8001; d : DWORD; b : BOOL; k : INT := {}; END_VAR\nb := w.%X0;\nw.%X15 := NOT b;\nd := SHL(DWORD#1, k);\nw := ROL(w, k);\nd := ROR(d, k + INT#31);\nEND_PROGRAM\n", i(rng))),
        20 => ("array-copy-bounds", format!(
            "PROGRAM P\nVAR a : ARRAY[1..4] OF INT; b : ARRAY[1..4] OF INT; i : INT; k : INT := {}; END_VAR\nb := a;\nFOR i := 1 TO k DO\n  b[i] := a[INT#5 - i] + b[i - INT#1 + INT#1];\nEND_FOR;\na := b;\nEND_PROGRAM\n", i(rng))),
        21 => ("global-in-function", format!(
            "CONFIGURATION C\nVAR_GLOBAL g : INT := {}; END_VAR\nPROGRAM I1 : P;\nEND_CONFIGURATION\nFUNCTION Bump : INT\nVAR_EXTERNAL g : INT; END_VAR\ng := g + INT#16000;\nBump := g;\nEND_FUNCTION\nPROGRAM P\nVAR_EXTERNAL g : INT; END_VAR\nVAR y : INT; END_VAR\ny := Bump() + Bump();\nEND_PROGRAM\n", d(rng))),
        22 => ("inout-aliasing", format!(
            "FUNCTION Swap : BOOL\nVAR_IN_OUT a : INT; b : INT; END_VAR\nVAR t : INT; END_VAR\nt := a; a := b; b := t + a;\nSwap := a > b;\nEND_FUNCTION\nPROGRAM P\nVAR x : INT := {}; arr : ARRAY[0..2] OF INT; ok : BOOL; k : INT := 1; END_VAR\nok := Swap(a := x, b := x);\nok := Swap(a := arr[k], b := arr[k - INT#1]);\nok := Swap(a := arr[k + x], b := x);\nEND_PROGRAM\n", i(rng))),
        23 => ("array-of-fb", format!(
            "FUNCTION_BLOCK Cell\nVAR_INPUT x : INT; END_VAR\nVAR_OUTPUT y : INT; END_VAR\ny := y + x;\nEND_FUNCTION_BLOCK\nPROGRAM P\nVAR cells : ARRAY[0..2] OF Cell; k : INT := {}; s : INT; END_VAR\ncells[k](x := INT#1);\ns := cells[0].y + cells[1].y + cells[2].y;\nk := k + INT#1;\nEND_PROGRAM\n", d(rng))),
        24 => ("en-eno", format!(
            "FUNCTION Work : INT\nVAR_INPUT EN : BOOL; a : INT; END_VAR\nVAR_OUTPUT ENO : BOOL; END_VAR\nWork := INT#100 / a;\nEND_FUNCTION\nFUNCTION Outer : INT\nVAR_INPUT n : INT; END_VAR\nVAR v : INT; ok : BOOL; END_VAR\nv := n + INT#1;\nOuter := Work(EN := n > INT#1, a := n, ENO => ok);\nv := v + Outer;\nIF NOT ok THEN v := v + n; END_IF;\nOuter := v;\nEND_FUNCTION\nFUNCTION_BLOCK Holder\nVAR_TEMP tmp : INT; END_VAR\nVAR keep : INT; ok : BOOL; END_VAR\nMETHOD PUBLIC Run : INT\nVAR_INPUT n : INT; END_VAR\nVAR loc : INT; END_VAR\nloc := n;\nRun := Work(EN := n < INT#0, a := n, ENO => ok);\nloc := loc + Run;\nRun := loc;\nEND_METHOD\ntmp := Work(EN := keep > INT#2, a := keep, ENO => ok);\nkeep := keep + tmp + INT#1;\nEND_FUNCTION_BLOCK\nPROGRAM P\nVAR y1 : INT; y2 : INT; e1 : INT; e2 : INT; k : INT := {}; h : Holder; selfcheck : BOOL := TRUE; END_VAR\ny1 := Outer(n := k);\nh();\ny2 := h.Run(n := k);\nIF k > INT#1 THEN e1 := k + INT#1 + INT#100 / k; ELSE e1 := k + INT#1 + k; END_IF;\nIF k < INT#0 THEN e2 := k + INT#100 / k; ELSE e2 := k; END_IF;\nselfcheck := (y1 = e1) AND (y2 = e2);\nk := k - INT#1;\nEND_PROGRAM\n", i(rng))),
        25 => ("fb-en-gate", format!(
            "FUNCTION_BLOCK Worker\nVAR_INPUT EN : BOOL; x : DINT; END_VAR\nVAR_OUTPUT ENO : BOOL; y : DINT; END_VAR\nVAR calls : DINT; END_VAR\ncalls := calls + DINT#1;\ny := x * DINT#2;\nEND_FUNCTION_BLOCK\nFUNCTION_BLOCK Station\nVAR w : Worker; END_VAR\nVAR_TEMP tt : DINT; END_VAR\nMETHOD PUBLIC Scale : DINT\nVAR_INPUT gate : BOOL; v : DINT; END_VAR\nVAR tmp : DINT; ok : BOOL; END_VAR\ntmp := v + DINT#1;\nw(EN := gate, x := tmp, ENO => ok);\nIF ok THEN Scale := w.y; ELSE Scale := tmp; END_IF;\nEND_METHOD\ntt := DINT#5;\nw(EN := FALSE, x := tt);\ntt := tt + DINT#1;\nEND_FUNCTION_BLOCK\nFUNCTION Via : DINT\nVAR_INPUT g : BOOL; v : DINT; END_VAR\nVAR_IN_OUT wk : Worker; END_VAR\nVAR loc : DINT; END_VAR\nloc := v;\nwk(EN := g, x := v);\nVia := loc + wk.y;\nEND_FUNCTION\nPROGRAM P\nVAR k : DINT := {}; w : Worker; w2 : Worker; st : Station; ok : BOOL; doubled : DINT; total : DINT; s : DINT; e : DINT; v : DINT; selfcheck : BOOL := TRUE; END_VAR\nVAR_TEMP t : DINT; END_VAR\nt := DINT#21;\nw(EN := k > DINT#1, x := t, ENO => ok, y => doubled);\ntotal := doubled + t;\ns := st.Scale(gate := k > DINT#2, v := k);\nst();\nIF k > DINT#2 THEN e := (k + DINT#1) * DINT#2; ELSE e := k + DINT#1; END_IF;\nv := Via(g := k > DINT#3, v := k, wk := w2);\nselfcheck := (s = e) AND (t = DINT#21) AND (ok = (k > DINT#1)) AND (v = k + w2.y);\nk := k - DINT#1;\nEND_PROGRAM\n", pick(rng, &["0", "1", "2", "3", "4", "5", "6"]))),
        _ => ("deep-expression", {
            let n = [10usize, 200, 2000][rng.gen_range(0..3)];
            let mut e = String::from("x");
            for _ in 0..n {
                e = format!("({e} + INT#0)");
            }
            format!("PROGRAM P\nVAR x : INT := 1; y : INT; END_VAR\ny := {e};\nEND_PROGRAM\n")
        }),
    }
}

/// `stfeat-child --seed S --from K --to N --cur FILE`: same protocol as `stwide-child`.
pub fn child(args: &[String]) -> i32 {
    let seed = arg_u64(args, "--seed", 1);
    let from = arg_u64(args, "--from", 0) as usize;
    let to = arg_u64(args, "--to", 100) as usize;
    let cur = arg(args, "--cur").expect("--cur").to_string();
    std::panic::set_hook(Box::new(|_| {}));
    for k in from..to {
        let mut rng = StdRng::seed_from_u64(seed.wrapping_mul(48_271).wrapping_add(k as u64));
        let (family, src) = program(&mut rng, k);
        println!("BEGIN {k} {family}");
        std::fs::write(&cur, &src).ok();
        let mut h = match std::panic::catch_unwind(|| TestHarness::from_source(&src)) {
            Ok(Ok(h)) => h,
            Ok(Err(e)) => { if arg_u64(args, "--why", 0) == 1 { eprintln!("WHY {family}: {}", e.to_string().lines().next().unwrap_or("")); } println!("END {k} {family} rejected - 0"); continue; }
            Err(_) => { println!("END {k} {family} outcome PanicInCompiler 0"); continue; }
        };
        let mut res = "ok".to_string();
        let mut frames = 0usize;
        for _ in 0..4 {
            h.runtime_mut().set_execution_deadline(Some(std::time::Instant::now() + std::time::Duration::from_millis(300)));
            let r = std::panic::catch_unwind(std::panic::AssertUnwindSafe(|| h.cycle()));
            res = match &r { Err(_) => "Panic".to_string(), Ok(c) => if c.errors.is_empty() { "ok".into() } else { format!("{:?}", c.errors[0]).split(|c: char| !c.is_alphanumeric()).next().unwrap().to_string() } };
            frames = h.runtime().storage().frames().len();
            if res != "ok" { break; }
            // a program may carry its own oracle: `selfcheck` compares what the feature under test produced with
            // the same quantity computed without it (C02)
            if let Some(trust_runtime::value::Value::Bool(false)) = h.get_output("selfcheck") {
                res = "SelfCheckFailed".into();
                break;
            }
        }
        println!("END {k} {family} outcome {res} {frames}");
    }
    0
}

/// `stfeat --seed S --runs N --out trace.ndjson`
pub fn run(args: &[String]) -> i32 {
    let seed = arg_u64(args, "--seed", 1);
    let runs = arg_u64(args, "--runs", 240) as usize;
    let mut o = Out::create(arg(args, "--out").expect("--out"));
    let cur = format!("{}.cur.st", arg(args, "--out").unwrap());
    let mut next = 0usize;
    while next < runs {
        let exe = crate::util::self_exe();
        let mut child = std::process::Command::new(exe).args(["stfeat-child", "--seed", &seed.to_string(), "--from", &next.to_string(), "--to", &(next + 400).min(runs).to_string(), "--cur", &cur])
            .stdout(std::process::Stdio::piped()).spawn().unwrap();
        // a program that hangs beyond the execution deadline would block the batch: watch the clock
        let t0 = std::time::Instant::now();
        let out = loop {
            match child.try_wait() {
                Ok(Some(_)) => break child.wait_with_output().unwrap(),
                Ok(None) if t0.elapsed().as_secs() > 120 => { let _ = child.kill(); break child.wait_with_output().unwrap(); }
                _ => std::thread::sleep(std::time::Duration::from_millis(20)),
            }
        };
        let text = String::from_utf8_lossy(&out.stdout).to_string();
        let mut began: Option<(usize, String)> = None;
        for line in text.lines() {
            let p: Vec<&str> = line.split(' ').collect();
            if p[0] == "BEGIN" { began = Some((p[1].parse().unwrap(), p[2].to_string())); }
            else if p[0] == "END" {
                let k: usize = p[1].parse().unwrap();
                // the source is a function of (seed, k): written out again for the evidence / replay file
                let mut rng = StdRng::seed_from_u64(seed.wrapping_mul(48_271).wrapping_add(k as u64));
                let (_, src) = program(&mut rng, k);
                o.line(&json!({"a": "Feature", "k": k, "family": p[2], "accepted": p[3] != "rejected", "res": p[4], "frames": p[5].parse::<i64>().unwrap_or(-1), "src": src}));
                next = k + 1; began = None;
            }
        }
        if let Some((k, family)) = began {
            let src = std::fs::read_to_string(&cur).unwrap_or_default();
            let hung = t0.elapsed().as_secs() > 120;
            o.line(&json!({"a": "Feature", "k": k, "family": family, "accepted": true, "res": if hung { "Hang" } else { "Abort" }, "frames": -1, "src": src}));
            next = k + 1;
        } else if text.lines().count() == 0 { eprintln!("stfeat: child produced no output"); return 2; }
    }
    o.flush();
    0
}

/// `stfeat-one --file F`: compile and run one program, print outcome per cycle (debugging aid).
pub fn one(args: &[String]) -> i32 {
    let src = std::fs::read_to_string(arg(args, "--file").expect("--file")).unwrap();
    std::panic::set_hook(Box::new(|_| {}));
    let mut h = match TestHarness::from_source(&src) {
        Ok(h) => h,
        Err(e) => { println!("rejected: {}", e.to_string().lines().next().unwrap_or("")); return 0; }
    };
    for c in 0..4 {
        h.runtime_mut().set_execution_deadline(Some(std::time::Instant::now() + std::time::Duration::from_millis(300)));
        let r = std::panic::catch_unwind(std::panic::AssertUnwindSafe(|| h.cycle()));
        match &r { Err(_) => println!("cycle {c}: Panic"), Ok(cy) => println!("cycle {c}: {:?} frames={}", cy.errors, h.runtime().storage().frames().len()) }
        if let Some(names) = arg(args, "--show") {
            for n in names.split(',') {
                println!("   {n} = {:?}", h.get_output(n));
            }
        }
    }
    0
}
