//! Shared helpers: argument parsing, value projection.
use serde_json::{json, Value as J};
use std::io::{BufRead, Write};
use trust_runtime::value::Value;

pub fn arg<'a>(args: &'a [String], key: &str) -> Option<&'a str> {
    args.iter().position(|a| a == key).and_then(|i| args.get(i + 1)).map(String::as_str)
}
pub fn arg_u64(args: &[String], key: &str, default: u64) -> u64 {
    arg(args, key).and_then(|s| s.parse().ok()).unwrap_or(default)
}
pub fn read_ndjson(path: &str) -> Vec<J> {
    let f = std::fs::File::open(path).unwrap_or_else(|e| panic!("open {path}: {e}"));
    std::io::BufReader::new(f)
        .lines()
        .map(|l| l.unwrap())
        .filter(|l| !l.trim().is_empty())
        .map(|l| serde_json::from_str(&l).unwrap_or_else(|e| panic!("bad json line: {e}: {l}")))
        .collect()
}
pub struct Out(pub std::io::BufWriter<std::fs::File>);
impl Out {
    pub fn create(path: &str) -> Self {
        Out(std::io::BufWriter::new(std::fs::File::create(path).unwrap_or_else(|e| panic!("create {path}: {e}"))))
    }
    pub fn line(&mut self, v: &J) {
        writeln!(self.0, "{}", v).unwrap();
    }
    pub fn flush(&mut self) {
        self.0.flush().unwrap();
    }
}

/// Tag (IEC type name of the runtime value) of an elementary value.
pub fn tag(v: &Value) -> &'static str {
    match v {
        Value::Bool(_) => "BOOL",
        Value::SInt(_) => "SINT",
        Value::Int(_) => "INT",
        Value::DInt(_) => "DINT",
        Value::LInt(_) => "LINT",
        Value::USInt(_) => "USINT",
        Value::UInt(_) => "UINT",
        Value::UDInt(_) => "UDINT",
        Value::ULInt(_) => "ULINT",
        Value::Real(_) => "REAL",
        Value::LReal(_) => "LREAL",
        Value::Byte(_) => "BYTE",
        Value::Word(_) => "WORD",
        Value::DWord(_) => "DWORD",
        Value::LWord(_) => "LWORD",
        Value::Time(_) => "TIME",
        Value::LTime(_) => "LTIME",
        Value::Date(_) => "DATE",
        Value::LDate(_) => "LDATE",
        Value::Tod(_) => "TOD",
        Value::LTod(_) => "LTOD",
        Value::Dt(_) => "DT",
        Value::Ldt(_) => "LDT",
        Value::String(_) => "STRING",
        Value::WString(_) => "WSTRING",
        Value::Char(_) => "CHAR",
        Value::WChar(_) => "WCHAR",
        Value::Array(_) => "ARRAY",
        Value::Struct(_) => "STRUCT",
        Value::Enum(_) => "ENUM",
        Value::Reference(_) => "REF",
        Value::Instance(_) => "INSTANCE",
        Value::Null => "NULL",
    }
}

/// Little-endian byte image of a bit-string / integer value (BOOL = one byte 0|1).
pub fn le_bytes(v: &Value) -> Option<Vec<u8>> {
    Some(match v {
        Value::Bool(b) => vec![*b as u8],
        Value::Byte(b) => vec![*b],
        Value::SInt(b) => vec![*b as u8],
        Value::USInt(b) => vec![*b],
        Value::Word(w) => w.to_le_bytes().to_vec(),
        Value::Int(w) => w.to_le_bytes().to_vec(),
        Value::UInt(w) => w.to_le_bytes().to_vec(),
        Value::DWord(w) => w.to_le_bytes().to_vec(),
        Value::DInt(w) => w.to_le_bytes().to_vec(),
        Value::UDInt(w) => w.to_le_bytes().to_vec(),
        Value::LWord(w) => w.to_le_bytes().to_vec(),
        Value::LInt(w) => w.to_le_bytes().to_vec(),
        Value::ULInt(w) => w.to_le_bytes().to_vec(),
        _ => return None,
    })
}

/// The value of IEC type `ty` with the given little-endian bytes.
pub fn from_le_bytes(ty: &str, b: &[u8]) -> Value {
    let u = |n: usize| -> u64 {
        let mut x = 0u64;
        for i in 0..n {
            x |= (b[i] as u64) << (8 * i);
        }
        x
    };
    match ty {
        "BOOL" => Value::Bool(b[0] != 0),
        "BYTE" => Value::Byte(b[0]),
        "SINT" => Value::SInt(b[0] as i8),
        "USINT" => Value::USInt(b[0]),
        "WORD" => Value::Word(u(2) as u16),
        "INT" => Value::Int(u(2) as u16 as i16),
        "UINT" => Value::UInt(u(2) as u16),
        "DWORD" => Value::DWord(u(4) as u32),
        "DINT" => Value::DInt(u(4) as u32 as i32),
        "UDINT" => Value::UDInt(u(4) as u32),
        "LWORD" => Value::LWord(u(8)),
        "LINT" => Value::LInt(u(8) as i64),
        "ULINT" => Value::ULInt(u(8)),
        o => panic!("from_le_bytes: {o}"),
    }
}

pub fn jbytes(b: &[u8]) -> J {
    json!(b)
}
pub fn bytes_of(j: &J) -> Vec<u8> {
    j.as_array().map(|a| a.iter().map(|x| x.as_u64().unwrap() as u8).collect()).unwrap_or_default()
}

/// The running binary, for spawning children of itself: `/proc/self/exe` (the inode this process runs, whatever a
/// concurrent rebuild has put at the path in the meantime), else the path of the executable.
pub fn self_exe() -> std::path::PathBuf {
    let p = std::path::Path::new("/proc/self/exe");
    if p.exists() { p.to_path_buf() } else { std::env::current_exe().expect("current exe") }
}
