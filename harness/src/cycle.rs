//! RuntimeCycle domain (C06 scheduling, C07 process image, C08 faults / safe state).
//!
//! `cycle-gen`  — seeded random scripts (configuration + environment steps), one JSON per line:
//!                `--runs N` scripts whose configurations associate only PROGRAMs with tasks, then
//!                `--fb-runs M` scripts that also associate FUNCTION_BLOCK instances of the programs
//!                with tasks (`PROGRAM P0 WITH T1 : PT0 (f0 WITH T2, f1 WITH T1);`), drawn from a
//!                second random stream so that the first N scripts do not depend on M.
//! `cycle-run`  — renders each script's configuration as an ST source, builds the real runtime
//!                with two logging I/O drivers, performs the steps through the public API and
//!                records one ndjson event per specification action with the projected state.
use crate::util::*;
use rand::{rngs::StdRng, Rng, SeedableRng};
use serde_json::{json, Map, Value as J};
use std::sync::{Arc, Mutex};
use trust_runtime::debug::RuntimeEvent;
use trust_runtime::error::RuntimeError;
use trust_runtime::harness::TestHarness;
use trust_runtime::io::{IoAddress, IoDriver, IoSafeState};
use trust_runtime::value::{Duration, Value};
use trust_runtime::watchdog::{FaultPolicy, WatchdogAction, WatchdogPolicy};

const IMG: usize = 8;
/// length of the MODEL's image areas: the runtime's areas are sized IMG (and the drivers cover IMG bytes), but they
/// are zero-extended vectors -- a 2/4/8-byte address may start inside and end beyond them (reads see zeros there,
/// writes grow the area) -- so the model looks at MIMG bytes
const MIMG: usize = 16;
static MODEL_LEN: std::sync::atomic::AtomicUsize = std::sync::atomic::AtomicUsize::new(IMG);
/// microseconds per model tick of the script being run (set by `setup`)
thread_local! {
    /// FB types of the global instances whose members are bound variables (collected while the copies are rendered)
    static GFB_TYPES: std::cell::RefCell<Vec<String>> = std::cell::RefCell::new(Vec::new());
}
static UNIT_US: std::sync::atomic::AtomicI64 = std::sync::atomic::AtomicI64::new(1000);
const TYPES: [(&str, &[&str]); 5] = [
    ("X", &["BOOL"]),
    ("B", &["BYTE", "SINT", "USINT"]),
    ("W", &["WORD", "INT", "UINT"]),
    ("D", &["DWORD", "DINT", "UDINT"]),
    ("L", &["LWORD", "LINT", "ULINT"]),
];
const SHAPES: [&str; 9] = ["INT", "DINT", "BOOL", "TIME", "STRING", "ARRAY", "STRUCT", "ENUM", "REAL"];
/// (type text, initialiser, bump statement) of a counter of the given shape
fn shape_decl(shape: &str, n: &str) -> (String, String, String) {
    // every other counter is initialised with an UNTYPED literal (its natural type differs from the
    // declared one: the initial value must be converted at start-up and again at every restart)
    let untyped = n.bytes().last().map_or(false, |b| b % 2 == 0) && !n.starts_with("cnt");
    match shape {
        "INT" if untyped => ("INT".into(), " := 3".into(), format!("{n} := {n} + INT#1;")),
        "REAL" if untyped => ("REAL".into(), " := 1.5".into(), format!("{n} := {n} + REAL#1.0;")),
        "INT" => ("INT".into(), " := INT#3".into(), format!("{n} := {n} + INT#1;")),
        "DINT" => ("DINT".into(), " := DINT#100000".into(), format!("{n} := {n} + DINT#1;")),
        "BOOL" => ("BOOL".into(), " := FALSE".into(), format!("{n} := NOT {n};")),
        "TIME" => ("TIME".into(), " := T#5ms".into(), format!("{n} := ADD_TIME({n}, T#1ms);")),
        "STRING" => ("STRING".into(), " := 'a'".into(), format!("{n} := CONCAT({n}, 'b');")),
        "ARRAY" => ("ARRAY[0..2] OF INT".into(), "".into(), format!("{n}[0] := {n}[0] + INT#1; {n}[2] := {n}[2] + INT#2;")),
        "STRUCT" => ("VPair".into(), "".into(), format!("{n}.x := {n}.x + INT#1; {n}.y := NOT {n}.y;")),
        "ENUM" => ("VColor".into(), " := VColor#VRed".into(), format!("IF {n} = VColor#VRed THEN {n} := VColor#VGreen; ELSIF {n} = VColor#VGreen THEN {n} := VColor#VBlue; ELSE {n} := VColor#VRed; END_IF;")),
        _ => ("REAL".into(), " := REAL#1.5".into(), format!("{n} := {n} + REAL#1.0;")),
    }
}
/// Decode the number of bumps from a stored value; -1 when the value is not of the form the
/// program can have produced.
fn decode_count(shape: &str, v: &Value) -> i64 {
    match (shape, v) {
        ("INT", Value::Int(x)) => *x as i64 - 3,
        ("INT", Value::DInt(x)) => *x as i64 - 3,
        ("DINT", Value::DInt(x)) => *x as i64 - 100000,
        ("BOOL", Value::Bool(b)) => *b as i64,
        ("TIME", Value::Time(d)) | ("TIME", Value::LTime(d)) => d.as_nanos() / 1_000_000 - 5,
        ("STRING", Value::String(s)) => if s.starts_with('a') && s[1..].bytes().all(|b| b == b'b') { s.len() as i64 - 1 } else { -1 },
        ("ARRAY", Value::Array(a)) => {
            let e: Vec<i64> = a.elements.iter().map(|x| match x { Value::Int(i) => *i as i64, Value::DInt(i) => *i as i64, _ => -99 }).collect();
            if e.len() == 3 && e[1] == 0 && e[2] == 2 * e[0] { e[0] } else { -1 }
        }
        ("STRUCT", Value::Struct(s)) => {
            let x = match s.fields.get("x") { Some(Value::Int(i)) => *i as i64, Some(Value::DInt(i)) => *i as i64, _ => return -1 };
            let y = matches!(s.fields.get("y"), Some(Value::Bool(true)));
            if y == (x % 2 == 1) { x } else { -1 }
        }
        ("ENUM", Value::Enum(e)) => e.numeric_value as i64,
        ("REAL", Value::Real(r)) => { let c = *r - 1.5; if c.fract() == 0.0 { c as i64 } else { -1 } }
        _ => -1,
    }
}
fn shape_tag(shape: &str, v: &Value) -> String {
    // the tag the specification expects is the shape name itself
    match (shape, tag(v)) {
        (s, t) if s == t => s.to_string(),
        ("TIME", "TIME") => "TIME".into(),
        (_, t) => t.to_string(),
    }
}

fn nbytes(sz: &str) -> usize {
    match sz {
        "X" | "B" => 1,
        "W" => 2,
        "D" => 4,
        _ => 8,
    }
}
fn addr_text(area: &str, sz: &str, byte: u64, bit: u64) -> String {
    if sz == "X" {
        format!("%{area}X{byte}.{bit}")
    } else {
        format!("%{area}{sz}{byte}")
    }
}
fn span(sz: &str, byte: usize, bit: usize) -> Vec<usize> {
    if sz == "X" {
        vec![byte * 8 + bit]
    } else {
        (byte * 8..(byte + nbytes(sz)) * 8).collect()
    }
}

// ------------------------------------------------------------------ generation
pub fn gen(args: &[String]) -> i32 {
    let seed = arg_u64(args, "--seed", 1);
    let runs = arg_u64(args, "--runs", 50) as usize;
    let out = arg(args, "--out").expect("--out");
    let mut rng = StdRng::seed_from_u64(seed ^ 0x5eed_c0de);
    let mut o = Out::create(out);
    let always_restart = arg_u64(args, "--restarts", 0) == 1;
    for _ in 0..runs {
        o.line(&gen_script(&mut rng, always_restart, false));
    }
    let fb_runs = arg_u64(args, "--fb-runs", 0) as usize;
    let mut rng = StdRng::seed_from_u64(seed ^ 0xfb7a_5c0d);
    for _ in 0..fb_runs {
        o.line(&gen_script(&mut rng, always_restart, true));
    }
    o.flush();
    0
}

/// Place an output / memory binding of size `sz` on bits nobody uses yet.
fn place_output(rng: &mut StdRng, used: &mut std::collections::HashMap<&str, Vec<bool>>, oarea: &str, sz: &str) -> Option<(usize, usize)> {
    let n = nbytes(sz);
    for _ in 0..30 {
        let (ob, obit) = (rng.gen_range(0..=IMG - n), rng.gen_range(0..8usize));
        let sp = span(sz, ob, obit);
        if sp.iter().all(|b| !used[oarea][*b]) {
            for b in sp {
                used.get_mut(oarea).unwrap()[b] = true;
            }
            return Some((ob, obit));
        }
    }
    None
}

/// `fbmode`: the configuration also associates FB instances of its programs with tasks.  Every
/// random draw that exists only for that is guarded by `fbmode`, so the scripts generated with
/// `fbmode = false` are the ones generated before FB associations were added.
fn gen_script(rng: &mut StdRng, always_restart: bool, fbmode: bool) -> J {
    let singles = ["s1", "s2"];
    let nt = if fbmode { rng.gen_range(1..=4usize) } else { rng.gen_range(0..=4usize) };
    let np = rng.gen_range(1..=4usize);
    let mut tasks = Vec::new();
    for i in 0..nt {
        let single = if rng.gen_bool(0.4) { singles[rng.gen_range(0..2)] } else { "" };
        let interval = if single.is_empty() { [0, 2, 3, 5][rng.gen_range(0..4)] } else { [0, 0, 2, 3][rng.gen_range(0..4)] };
        tasks.push(json!({"name": format!("T{i}"), "interval": interval, "single": single, "prio": rng.gen_range(0..3)}));
    }
    let mut used: std::collections::HashMap<&str, Vec<bool>> = std::collections::HashMap::new();
    used.insert("Q", vec![false; MIMG * 8]);
    used.insert("M", vec![false; MIMG * 8]);
    let mut programs = Vec::new();
    let mut bindings = Vec::new();
    let mut vars0 = Map::new();
    for j in 0..np {
        let task = if nt > 0 && rng.gen_bool(0.7) { format!("T{}", rng.gen_range(0..nt)) } else { String::new() };
        let mut copies = Vec::new();
        for c in 0..rng.gen_range(1..=3) {
            let (sz, tys) = TYPES[rng.gen_range(0..TYPES.len())];
            let ty = tys[rng.gen_range(0..tys.len())];
            let n = nbytes(sz);
            // now and then an address that starts inside the area and ends beyond it
            let (ib, ibit) = (if n >= 2 && rng.gen_bool(0.15) { rng.gen_range(IMG - n + 1..IMG) } else { rng.gen_range(0..=IMG - n) }, rng.gen_range(0..8usize));
            let oarea = if rng.gen_bool(0.8) { "Q" } else { "M" };
            // output / memory bindings never overlap each other (which of two conflicting
            // variables wins is not specified); inputs overlap freely
            let mut place = None;
            for _ in 0..30 {
                let (ob, obit) = (if n >= 2 && rng.gen_bool(0.15) { rng.gen_range(IMG - n + 1..IMG) } else { rng.gen_range(0..=IMG - n) }, rng.gen_range(0..8usize));
                let sp = span(sz, ob, obit);
                if sp.iter().all(|b| !used[oarea][*b]) {
                    for b in sp {
                        used.get_mut(oarea).unwrap()[b] = true;
                    }
                    place = Some((ob, obit));
                    break;
                }
            }
            let Some((ob, obit)) = place else { continue };
            let global = rng.gen_bool(0.25);
            // owner -2: both variables are members of a VAR_GLOBAL function-block instance of their own (directly
            // addressed members of a global instance; the program calls the instance instead of copying itself)
            let gfbm = !global && rng.gen_bool(0.12);
            let (iv, ov) = (format!("i{j}_{c}"), format!("o{j}_{c}"));
            let owner = if global { json!(-1) } else if gfbm { json!(-2) } else { json!(j) };
            let gfb = if gfbm { format!("g_{iv}") } else { String::new() };
            bindings.push(json!({"var": iv, "area": "I", "size": sz, "byte": ib, "bit": if sz == "X" { ibit } else { 0 }, "ty": ty, "owner": owner, "gfb": gfb}));
            bindings.push(json!({"var": ov, "area": oarea, "size": sz, "byte": ob, "bit": if sz == "X" { obit } else { 0 }, "ty": ty, "owner": owner, "gfb": gfb}));
            vars0.insert(iv.clone(), json!(vec![0; n]));
            vars0.insert(ov.clone(), json!(vec![0; n]));
            let via = if gfbm { "stmt" } else { ["stmt", "stmt", "func", "fb"][rng.gen_range(0..4)] };
            copies.push(json!({"from": iv, "to": ov, "via": via}));
        }
        programs.push(json!({"name": format!("P{j}"), "task": task, "copies": copies}));
    }
    // FB instances of the programs, each associated with a task of its own: the task of its program,
    // another task, a task that has no program at all; instances of background programs; several
    // instances per program and per task (declaration order); bodies that write bound outputs
    let mut fbs: Vec<J> = Vec::new();
    if fbmode {
        for j in 0..np {
            let ptask = programs[j]["task"].as_str().unwrap().to_string();
            let nf = if j == 0 && np == 1 { rng.gen_range(1..=3) } else { [0, 1, 1, 2, 3][rng.gen_range(0..5)] };
            for k in 0..nf {
                let task = if !ptask.is_empty() && rng.gen_bool(0.3) { ptask.clone() } else { format!("T{}", rng.gen_range(0..nt)) };
                let mut copies = Vec::new();
                for c in 0..[0, 0, 1, 1, 2][rng.gen_range(0..5)] {
                    let (sz, tys) = TYPES[rng.gen_range(0..TYPES.len())];
                    let ty = tys[rng.gen_range(0..tys.len())];
                    let n = nbytes(sz);
                    let (ib, ibit) = (rng.gen_range(0..=IMG - n), rng.gen_range(0..8usize));
                    let oarea = if rng.gen_bool(0.8) { "Q" } else { "M" };
                    let Some((ob, obit)) = place_output(rng, &mut used, oarea, sz) else { continue };
                    // an FB body reaches bound variables through VAR_EXTERNAL: they are globals
                    let (iv, ov) = (format!("i{j}f{k}_{c}"), format!("o{j}f{k}_{c}"));
                    bindings.push(json!({"var": iv, "area": "I", "size": sz, "byte": ib, "bit": if sz == "X" { ibit } else { 0 }, "ty": ty, "owner": -1}));
                    bindings.push(json!({"var": ov, "area": oarea, "size": sz, "byte": ob, "bit": if sz == "X" { obit } else { 0 }, "ty": ty, "owner": -1}));
                    vars0.insert(iv.clone(), json!(vec![0; n]));
                    vars0.insert(ov.clone(), json!(vec![0; n]));
                    let via = ["stmt", "stmt", "func", "fb"][rng.gen_range(0..4)];
                    copies.push(json!({"from": iv, "to": ov, "via": via}));
                }
                // every fourth instance is a member of another (never executed) FB instance of the
                // program: the association names it by a two-part path, `g1.f WITH T0`
                let inst = if rng.gen_bool(0.25) { format!("g{k}.f") } else { format!("f{k}") };
                fbs.push(json!({"name": format!("P{j}.{inst}"), "prog": format!("P{j}"), "inst": inst, "task": task, "copies": copies}));
            }
        }
        if fbs.is_empty() {
            fbs.push(json!({"name": "P0.f0", "prog": "P0", "inst": "f0", "task": format!("T{}", rng.gen_range(0..nt)), "copies": []}));
        }
    }
    let pols = ["halt", "safe_halt", "safe_halt", "restart"];
    let policy = pols[rng.gen_range(0..4)];
    let wd = pols[rng.gen_range(0..4)];
    let mut safe = Vec::new();
    let mut sused = vec![false; IMG * 8];
    for _ in 0..rng.gen_range(0..=3) {
        let sz = ["X", "B", "W", "D"][rng.gen_range(0..4)];
        let n = nbytes(sz);
        let (b, bit) = (rng.gen_range(0..=IMG - n), rng.gen_range(0..8usize));
        let sp = span(sz, b, bit);
        if sp.iter().any(|x| sused[*x]) {
            continue;
        }
        for x in sp {
            sused[x] = true;
        }
        let val: Vec<u8> = if sz == "X" { vec![rng.gen_range(0..2)] } else { (0..n).map(|_| rng.gen_range(0..=255)).collect() };
        safe.push(json!({"addr": {"area": "Q", "size": sz, "byte": b, "bit": if sz == "X" { bit } else { 0 }}, "val": val}));
    }
    let drivers = json!([{"off": 0, "len": IMG / 2}, {"off": IMG / 2, "len": IMG / 2}]);
    // C09: counters of every qualifier x scope x type shape, bumped by their owner program
    let restarts = always_restart || rng.gen_bool(0.4);
    let mut counters = Vec::new();
    for j in 0..np {
        counters.push(json!({"name": format!("cnt{j}"), "owner": j + 1, "fb": 0, "scope": "program", "qual": "none", "shape": "INT"}));
    }
    // the member counter of every task-associated FB instance (instance state: persists between activations)
    for f in 0..fbs.len() {
        counters.push(json!({"name": format!("fbn{f}"), "owner": 0, "fb": f + 1, "scope": "fb", "qual": "none", "shape": "INT"}));
    }
    if restarts {
        for c in 0..rng.gen_range(2..=6) {
            let scope = if rng.gen_bool(0.4) { "global" } else { "program" };
            let qual = ["none", "retain", "retain", "nonretain", "persistent"][rng.gen_range(0..5)];
            let shape = SHAPES[rng.gen_range(0..SHAPES.len())];
            counters.push(json!({"name": format!("k{c}"), "owner": rng.gen_range(1..=np), "fb": 0, "scope": scope, "qual": qual, "shape": shape}));
        }
        // a program variable whose initialiser reads a (non-retained) global that the programs keep changing:
        // `kref : INT := gsrc;` -- at every restart the globals are initialised before the program variables
        if rng.gen_bool(0.5) {
            let (q1, q2) = (["none", "nonretain"][rng.gen_range(0..2)], ["none", "nonretain"][rng.gen_range(0..2)]);
            counters.push(json!({"name": "gsrc", "owner": rng.gen_range(1..=np), "fb": 0, "scope": "global", "qual": q1, "shape": "INT"}));
            counters.push(json!({"name": "kref", "owner": rng.gen_range(1..=np), "fb": 0, "scope": "program", "qual": q2, "shape": "INT", "initFrom": "gsrc"}));
        }
    }
    let mut sinit = Map::new();
    for s in singles {
        sinit.insert(s.to_string(), json!(restarts && rng.gen_bool(0.3)));
    }
    let access: Vec<usize> = (0..np).filter(|_| restarts && rng.gen_bool(0.5)).collect();
    // the length of one model tick in microseconds: mostly a millisecond, sometimes a fraction of one, so that
    // intervals and due times do not sit on whole milliseconds (the model counts ticks either way)
    let unit_us = [1000i64, 1000, 1000, 250, 100, 37][rng.gen_range(0..6)];
    let cfg = json!({"tasks": tasks, "programs": programs, "fbs": fbs, "bindings": bindings, "drivers": drivers,
                     "policy": policy, "wd": wd, "safe": safe, "singles": singles, "imgLen": MIMG, "rtLen": IMG, "unitUs": unit_us,
                     "counters": counters, "sinit": sinit, "access": access, "vars0": vars0});
    let mut steps = Vec::new();
    let dbg_run = rng.gen_bool(0.5);
    let ncyc = rng.gen_range(3..10);
    let faulty = rng.gen_bool(0.45);
    for _ in 0..ncyc {
        if rng.gen_bool(0.8) {
            let dt = [0, 1, 2, 3, 5, 7, 11][rng.gen_range(0..7)];
            steps.push(json!({"a": "Advance", "dt": dt}));
        }
        if rng.gen_bool(0.45) {
            steps.push(json!({"a": "SetSingle", "s": singles[rng.gen_range(0..2)], "b": rng.gen_bool(0.5)}));
        }
        for d in 1..=2 {
            if rng.gen_bool(0.6) {
                let bytes: Vec<u8> = (0..IMG / 2).map(|_| rng.gen_range(0..=255)).collect();
                steps.push(json!({"a": "SetSrc", "d": d, "bytes": bytes}));
            }
        }
        if rng.gen_bool(0.15) {
            let sz = ["X", "B", "W", "D", "L"][rng.gen_range(0..5)];
            let n = nbytes(sz);
            let area = ["I", "Q", "M"][rng.gen_range(0..3)];
            let (b, bit) = (rng.gen_range(0..=IMG - n), rng.gen_range(0..8usize));
            let val: Vec<u8> = if sz == "X" { vec![rng.gen_range(0..2)] } else { (0..n).map(|_| rng.gen_range(0..=255)).collect() };
            steps.push(json!({"a": "DirectWrite", "addr": {"area": area, "size": sz, "byte": b, "bit": if sz == "X" { bit } else { 0 }}, "val": val}));
        }
        let writable: Vec<&J> = bindings.iter().filter(|b| b["owner"] != json!(-2)).collect();
        if dbg_run && !writable.is_empty() && rng.gen_bool(0.25) {
            // a debugger write to a bound variable (applied at the next cycle boundary)
            let b = writable[rng.gen_range(0..writable.len())];
            let n = nbytes(b["size"].as_str().unwrap());
            let val: Vec<u8> = if b["size"] == "X" { vec![rng.gen_range(0..2)] } else { (0..n).map(|_| rng.gen_range(0..=255)).collect() };
            steps.push(json!({"a": "DebugVarWrite", "var": b["var"], "val": val}));
            if rng.gen_bool(0.3) {
                let val2: Vec<u8> = if b["size"] == "X" { vec![rng.gen_range(0..2)] } else { (0..n).map(|_| rng.gen_range(0..=255)).collect() };
                steps.push(json!({"a": "DebugVarWrite", "var": b["var"], "val": val2}));
            }
        }
        if dbg_run && rng.gen_bool(0.15) {
            let sz = ["X", "B", "W", "D"][rng.gen_range(0..4)];
            let n = nbytes(sz);
            let (b, bit) = (rng.gen_range(0..=IMG - n), rng.gen_range(0..8usize));
            let val: Vec<u8> = if sz == "X" { vec![rng.gen_range(0..2)] } else { (0..n).map(|_| rng.gen_range(0..=255)).collect() };
            steps.push(json!({"a": "DebugIoWrite", "addr": {"area": "I", "size": sz, "byte": b, "bit": if sz == "X" { bit } else { 0 }}, "val": val}));
        }
        if fbmode && faulty && rng.gen_bool(0.35) {
            // a fault at a program point of a task-driven FB instance
            let f = &fbs[rng.gen_range(0..fbs.len())];
            let nst = f["copies"].as_array().unwrap().len();
            steps.push(json!({"a": "Inject", "prog": f["name"], "at": rng.gen_range(1..=nst + 1)}));
        } else if faulty && rng.gen_bool(0.2) {
            let j = rng.gen_range(0..np);
            let nst = programs[j]["copies"].as_array().unwrap().len();
            steps.push(json!({"a": "Inject", "prog": format!("P{j}"), "at": rng.gen_range(1..=nst + 1)}));
        }
        if faulty && rng.gen_bool(0.1) {
            steps.push(json!({"a": "FailDriver", "d": rng.gen_range(1..=2), "op": if rng.gen_bool(0.5) { "read" } else { "write" }}));
        }
        if faulty && rng.gen_bool(0.05) {
            steps.push(json!({"a": "Watchdog"}));
        }
        if faulty && rng.gen_bool(0.05) {
            steps.push(json!({"a": "SimFault"}));
        }
        steps.push(json!({"a": "Cycle"}));
        if restarts && rng.gen_bool(0.25) {
            match rng.gen_range(0..5) {
                0 | 1 => steps.push(json!({"a": "Restart", "mode": "warm"})),
                2 | 3 => steps.push(json!({"a": "Restart", "mode": "cold"})),
                _ => steps.push(json!({"a": "PowerCycle"})),
            }
        }
        if !access.is_empty() && rng.gen_bool(0.2) {
            let j = access[rng.gen_range(0..access.len())];
            steps.push(json!({"a": "SetAccess", "name": format!("cnt{j}"), "val": rng.gen_range(0..50)}));
        }
        if rng.gen_bool(0.2) {
            let sz = ["X", "B", "W", "D", "L"][rng.gen_range(0..5)];
            let n = nbytes(sz);
            let area = ["I", "Q", "M"][rng.gen_range(0..3)];
            let (b, bit) = (rng.gen_range(0..=IMG - n), rng.gen_range(0..8usize));
            steps.push(json!({"a": "DirectRead", "addr": {"area": area, "size": sz, "byte": b, "bit": if sz == "X" { bit } else { 0 }}}));
        }
    }
    // a second life: fault, restart, a few healthy cycles, and a fault again -- everything the fault handling
    // consumed or latched the first time must be there again the second time
    if faulty && rng.gen_bool(0.3) {
        let mut fault = |steps: &mut Vec<J>, rng: &mut StdRng| {
            match rng.gen_range(0..3) {
                0 => steps.push(json!({"a": "Watchdog"})),
                1 => steps.push(json!({"a": "SimFault"})),
                _ => {
                    let j = rng.gen_range(0..np);
                    let nst = programs[j]["copies"].as_array().unwrap().len();
                    steps.push(json!({"a": "Inject", "prog": format!("P{j}"), "at": rng.gen_range(1..=nst + 1)}));
                    steps.push(json!({"a": "Advance", "dt": 11}));
                    steps.push(json!({"a": "Cycle"}));
                }
            }
        };
        fault(&mut steps, rng);
        steps.push(json!({"a": "Cycle"}));
        steps.push(json!({"a": "Restart", "mode": if rng.gen_bool(0.5) { "warm" } else { "cold" }}));
        for _ in 0..rng.gen_range(1..3) {
            let dt = [2, 3, 5][rng.gen_range(0..3)];
            steps.push(json!({"a": "Advance", "dt": dt}));
            for d in 1..=2 {
                let bytes: Vec<u8> = (0..IMG / 2).map(|_| rng.gen_range(0..=255)).collect();
                steps.push(json!({"a": "SetSrc", "d": d, "bytes": bytes}));
            }
            steps.push(json!({"a": "Cycle"}));
        }
        fault(&mut steps, rng);
        steps.push(json!({"a": "Cycle"}));
    }
    json!({"cfg": cfg, "steps": steps, "dbg": dbg_run})
}

// ------------------------------------------------------------------ rendering
pub fn render_source(cfg: &J) -> String {
    let mut src = String::from("CONFIGURATION C\nVAR_GLOBAL\n");
    for s in cfg["singles"].as_array().unwrap() {
        let init = cfg["sinit"][s.as_str().unwrap()].as_bool().unwrap_or(false);
        src.push_str(&format!(" {} : BOOL := {};\n", s.as_str().unwrap(), if init { "TRUE" } else { "FALSE" }));
    }
    src.push_str(" elog : ARRAY[0..31] OF INT;\n lgn : INT := INT#0;\n inj : INT := INT#0;\n zero : INT := INT#0;\n");
    let bindings = cfg["bindings"].as_array().unwrap();
    GFB_TYPES.with(|g| g.borrow_mut().clear());
    for b in bindings.iter().filter(|b| b["owner"] == json!(-2) && b["area"] == "I") {
        let g = b["gfb"].as_str().unwrap();
        src.push_str(&format!(" {g} : T{g};\n"));
    }
    for b in bindings.iter().filter(|b| (b["owner"] == json!(-1))) {
        src.push_str(&format!(" {} AT {} : {};\n", b["var"].as_str().unwrap(),
            addr_text(b["area"].as_str().unwrap(), b["size"].as_str().unwrap(), b["byte"].as_u64().unwrap(), b["bit"].as_u64().unwrap()),
            b["ty"].as_str().unwrap()));
    }
    src.push_str("END_VAR\n");
    let counters: Vec<J> = cfg["counters"].as_array().cloned().unwrap_or_default();
    let qual_kw = |q: &str| match q { "retain" => " RETAIN", "nonretain" => " NON_RETAIN", "persistent" => " PERSISTENT", _ => "" };
    for c in counters.iter().filter(|c| c["scope"] == "global") {
        let (ty, init, _) = shape_decl(c["shape"].as_str().unwrap(), c["name"].as_str().unwrap());
        src.push_str(&format!("VAR_GLOBAL{}\n {} : {}{};\nEND_VAR\n", qual_kw(c["qual"].as_str().unwrap()), c["name"].as_str().unwrap(), ty, init));
    }
    for t in cfg["tasks"].as_array().unwrap() {
        let mut parts = Vec::new();
        if t["single"] != "" {
            parts.push(format!("SINGLE := {}", t["single"].as_str().unwrap()));
        }
        let unit = cfg["unitUs"].as_i64().unwrap_or(1000);
        parts.push(if unit == 1000 { format!("INTERVAL := T#{}ms", t["interval"]) } else { format!("INTERVAL := T#{}us", t["interval"].as_i64().unwrap_or(0) * unit) });
        parts.push(format!("PRIORITY := {}", t["prio"]));
        src.push_str(&format!("TASK {} ({});\n", t["name"].as_str().unwrap(), parts.join(", ")));
    }
    let programs = cfg["programs"].as_array().unwrap();
    let fbs: Vec<J> = cfg["fbs"].as_array().cloned().unwrap_or_default();
    for (j, p) in programs.iter().enumerate() {
        let task = p["task"].as_str().unwrap();
        // FB instances of this program that the configuration associates with a task
        let list: Vec<String> = fbs.iter().filter(|f| f["prog"] == p["name"])
            .map(|f| format!("{} WITH {}", f["inst"].as_str().unwrap(), f["task"].as_str().unwrap())).collect();
        let list = if list.is_empty() { String::new() } else { format!(" ({})", list.join(", ")) };
        if task.is_empty() {
            src.push_str(&format!("PROGRAM P{j} : PT{j}{list};\n"));
        } else {
            src.push_str(&format!("PROGRAM P{j} WITH {task} : PT{j}{list};\n"));
        }
    }
    let access: Vec<u64> = cfg["access"].as_array().map(|a| a.iter().map(|x| x.as_u64().unwrap()).collect()).unwrap_or_default();
    if !access.is_empty() {
        src.push_str("VAR_ACCESS\n");
        for j in &access {
            src.push_str(&format!(" Acc{j} : P{j}.cnt{j} : INT READ_WRITE;\n"));
        }
        src.push_str("END_VAR\n");
    }
    src.push_str("END_CONFIGURATION\n");
    if counters.iter().any(|c| c["shape"] == "STRUCT") {
        src = format!("TYPE VPair : STRUCT x : INT; y : BOOL; END_STRUCT END_TYPE\n{src}");
    }
    if counters.iter().any(|c| c["shape"] == "ENUM") {
        src = format!("TYPE VColor : (VRed, VGreen, VBlue); END_TYPE\n{src}");
    }
    let mut helper_types = std::collections::BTreeSet::new();
    for (j, p) in programs.iter().enumerate() {
        let mut decls = String::new();
        let mut ext = String::new();
        for b in bindings.iter() {
            if b["owner"] == json!(j) {
                decls.push_str(&format!("  {} AT {} : {};\n", b["var"].as_str().unwrap(),
                    addr_text(b["area"].as_str().unwrap(), b["size"].as_str().unwrap(), b["byte"].as_u64().unwrap(), b["bit"].as_u64().unwrap()),
                    b["ty"].as_str().unwrap()));
            }
        }
        let copies = p["copies"].as_array().unwrap();
        let mut body = format!("elog[lgn] := INT#{j}; lgn := lgn + INT#1;\n");
        let mut qdecls = String::new();
        for c in counters.iter().filter(|c| c["owner"] == json!(j + 1)) {
            let n = c["name"].as_str().unwrap();
            let (ty, mut init, bump) = shape_decl(c["shape"].as_str().unwrap(), n);
            if let Some(g) = c["initFrom"].as_str().filter(|g| !g.is_empty()) {
                init = format!(" := {g}");
                if !ext.contains(&format!(" {g} :")) {
                    ext.push_str(&format!(" {g} : INT;"));
                }
            }
            if c["scope"] == "global" {
                if !ext.contains(&format!(" {n} :")) {
                    ext.push_str(&format!(" {n} : {ty};"));
                }
            } else {
                qdecls.push_str(&format!("VAR{}\n  {n} : {ty}{init};\nEND_VAR\n", qual_kw(c["qual"].as_str().unwrap())));
            }
            body.push_str(&bump);
            body.push('\n');
        }
        render_copies(copies, j * 100, bindings, &mut decls, &mut ext, &mut helper_types, &mut body);
        // the instances the configuration associates with tasks are declared here and never called
        // by the program body: they execute under their task only
        for (f, fb) in fbs.iter().enumerate().filter(|(_, fb)| fb["prog"] == p["name"]) {
            match fb["inst"].as_str().unwrap().split_once('.') {
                Some((outer, _)) => decls.push_str(&format!("  {outer} : GT{f};\n")),
                None => decls.push_str(&format!("  {} : FT{f};\n", fb["inst"].as_str().unwrap())),
            }
        }
        body.push_str(&format!("IF inj = INT#{} THEN zz := INT#1 / zero; END_IF;\n", j * 100 + copies.len() + 1));
        src.push_str(&format!(
            "PROGRAM PT{j}\nVAR_EXTERNAL elog : ARRAY[0..31] OF INT; lgn : INT; inj : INT; zero : INT;{ext} END_VAR\nVAR\n{decls}  zz : INT;\nEND_VAR\n{qdecls}{body}END_PROGRAM\n"
        ));
    }
    // one FUNCTION_BLOCK type per task-associated instance: logs its execution (code 100 + index),
    // bumps its member counter, then copies like a program body, with a fault point before every
    // copy and after the last (inj = 1000 + 10 * index + point)
    for (f, fb) in fbs.iter().enumerate() {
        let copies = fb["copies"].as_array().unwrap();
        let (mut decls, mut ext) = (String::new(), String::new());
        let mut body = format!("elog[lgn] := INT#{}; lgn := lgn + INT#1;\nn := n + INT#1;\n", 100 + f);
        render_copies(copies, 1000 + f * 10, bindings, &mut decls, &mut ext, &mut helper_types, &mut body);
        body.push_str(&format!("IF inj = INT#{} THEN zz := INT#1 / zero; END_IF;\n", 1000 + f * 10 + copies.len() + 1));
        src.push_str(&format!(
            "FUNCTION_BLOCK FT{f}\nVAR_EXTERNAL elog : ARRAY[0..31] OF INT; lgn : INT; inj : INT; zero : INT;{ext} END_VAR\nVAR\n{decls}  n : INT := INT#3;\n  zz : INT;\nEND_VAR\n{body}END_FUNCTION_BLOCK\n"
        ));
        if let Some((_, member)) = fb["inst"].as_str().unwrap().split_once('.') {
            // the enclosing instance is neither called nor associated with a task: if it ever
            // executes, its log entry (900 + index) names no item of the specification
            src.push_str(&format!(
                "FUNCTION_BLOCK GT{f}\nVAR_EXTERNAL elog : ARRAY[0..31] OF INT; lgn : INT; END_VAR\nVAR\n  {member} : FT{f};\nEND_VAR\nelog[lgn] := INT#{}; lgn := lgn + INT#1;\nEND_FUNCTION_BLOCK\n", 900 + f
            ));
        }
    }
    GFB_TYPES.with(|g| {
        for t in g.borrow().iter() {
            src.push_str(t);
        }
    });
    for ty in helper_types {
        src.push_str(&format!(
            "FUNCTION FCopy_{ty} : {ty}\nVAR_INPUT x : {ty}; fire : BOOL; z : INT; END_VAR\nVAR t : INT; END_VAR\nIF fire THEN t := INT#1 / z; END_IF;\nFCopy_{ty} := x;\nEND_FUNCTION\n"
        ));
        src.push_str(&format!(
            "FUNCTION_BLOCK FbCopy_{ty}\nVAR_INPUT x : {ty}; fire : BOOL; z : INT; END_VAR\nVAR_OUTPUT y : {ty}; END_VAR\nVAR t : INT; n : INT; END_VAR\nn := n + INT#1;\nIF fire THEN t := INT#1 / z; END_IF;\ny := x;\nEND_FUNCTION_BLOCK\n"
        ));
    }
    src
}

/// The copies of a program / FB body: `to := from` directly, through a FUNCTION or through a nested
/// FB instance, each preceded by a fault point `inj = base + k + 1`.
fn render_copies(copies: &[J], base: usize, bindings: &[J], decls: &mut String, ext: &mut String,
                 helper_types: &mut std::collections::BTreeSet<String>, body: &mut String) {
    let ty_of = |var: &str| -> String {
        bindings.iter().find(|b| b["var"] == var).unwrap()["ty"].as_str().unwrap().to_string()
    };
    for (k, c) in copies.iter().enumerate() {
        let (from, to) = (c["from"].as_str().unwrap(), c["to"].as_str().unwrap());
        let ty = ty_of(from);
        if bindings.iter().any(|b| b["var"] == from && (b["owner"] == json!(-1))) {
            ext.push_str(&format!(" {from} : {ty}; {to} : {ty};"));
        }
        let code = base + k + 1;
        if let Some(b) = bindings.iter().find(|b| b["var"] == from && b["owner"] == json!(-2)) {
            let g = b["gfb"].as_str().unwrap();
            let bo = bindings.iter().find(|x| x["var"] == to).unwrap();
            let at = |x: &J| addr_text(x["area"].as_str().unwrap(), x["size"].as_str().unwrap(), x["byte"].as_u64().unwrap(), x["bit"].as_u64().unwrap());
            GFB_TYPES.with(|t| t.borrow_mut().push(format!(
                "FUNCTION_BLOCK T{g}\nVAR_EXTERNAL inj : INT; zero : INT; END_VAR\nVAR\n  {from} AT {} : {ty};\n  {to} AT {} : {ty};\n  zz : INT;\nEND_VAR\nIF inj = INT#{code} THEN zz := INT#1 / zero; END_IF;\n{to} := {from};\nEND_FUNCTION_BLOCK\n", at(b), at(bo))));
            ext.push_str(&format!(" {g} : T{g};"));
            body.push_str(&format!("{g}();\n"));
            continue;
        }
        match c["via"].as_str().unwrap() {
            "func" => {
                helper_types.insert(ty.clone());
                body.push_str(&format!("{to} := FCopy_{ty}(x := {from}, fire := (inj = INT#{code}), z := zero);\n"));
            }
            "fb" => {
                helper_types.insert(ty.clone());
                decls.push_str(&format!("  fb{k} : FbCopy_{ty};\n"));
                body.push_str(&format!("fb{k}(x := {from}, fire := (inj = INT#{code}), z := zero);\n{to} := fb{k}.y;\n"));
            }
            _ => {
                body.push_str(&format!("IF inj = INT#{code} THEN zz := INT#1 / zero; END_IF;\n{to} := {from};\n"));
            }
        }
    }
}

// ------------------------------------------------------------------ drivers
struct Shared {
    log: Vec<J>,
    src: Vec<Vec<u8>>,
    fail: (usize, String),
}
struct Drv {
    id: usize,
    off: usize,
    len: usize,
    sh: Arc<Mutex<Shared>>,
}
impl IoDriver for Drv {
    fn read_inputs(&mut self, inputs: &mut [u8]) -> Result<(), RuntimeError> {
        let mut sh = self.sh.lock().unwrap();
        for i in 0..self.len {
            inputs[self.off + i] = sh.src[self.id - 1][i];
        }
        sh.log.push(json!([self.id, "read"]));
        if sh.fail == (self.id, "read".to_string()) {
            return Err(RuntimeError::ControlError("scripted driver read failure".into()));
        }
        Ok(())
    }
    fn write_outputs(&mut self, outputs: &[u8]) -> Result<(), RuntimeError> {
        let mut sh = self.sh.lock().unwrap();
        sh.log.push(json!([self.id, "write", padded(outputs)]));
        if sh.fail == (self.id, "write".to_string()) {
            return Err(RuntimeError::ControlError("scripted driver write failure".into()));
        }
        Ok(())
    }
}

fn policy(p: &str) -> FaultPolicy {
    match p {
        "safe_halt" => FaultPolicy::SafeHalt,
        "restart" => FaultPolicy::Restart,
        _ => FaultPolicy::Halt,
    }
}
fn wd_action(p: &str) -> WatchdogAction {
    match p {
        "safe_halt" => WatchdogAction::SafeHalt,
        "restart" => WatchdogAction::Restart,
        _ => WatchdogAction::Halt,
    }
}
fn io_addr(a: &J) -> IoAddress {
    IoAddress::parse(&addr_text(a["area"].as_str().unwrap(), a["size"].as_str().unwrap(), a["byte"].as_u64().unwrap(), a["bit"].as_u64().unwrap())).unwrap()
}
fn io_value(sz: &str, b: &[u8]) -> Value {
    match sz {
        "X" => Value::Bool(b[0] == 1),
        "B" => Value::Byte(b[0]),
        "W" => from_le_bytes("WORD", b),
        "D" => from_le_bytes("DWORD", b),
        _ => from_le_bytes("LWORD", b),
    }
}

// ------------------------------------------------------------------ running
pub fn run(args: &[String]) -> i32 {
    let scripts = read_ndjson(arg(args, "--scripts").expect("--scripts"));
    let mut o = Out::create(arg(args, "--out").expect("--out"));
    let mut rejected = 0usize;
    for (si, sc) in scripts.iter().enumerate() {
        if !run_script(sc, si, &mut o) {
            rejected += 1;
        }
    }
    o.flush();
    eprintln!("cycle-run: {} scripts, {} not compiled", scripts.len(), rejected);
    if rejected * 5 > scripts.len() {
        eprintln!("cycle-run: too many generated configurations rejected by the compiler");
        return 2;
    }
    0
}

/// An image area as the model sees it: the runtime's bytes, zero-extended to the model length (a longer
/// area is reported as it is: the model then has no such image and the event is rejected).
fn padded(b: &[u8]) -> Vec<u8> {
    let mut v = b.to_vec();
    let n = MODEL_LEN.load(std::sync::atomic::Ordering::SeqCst);
    if v.len() < n {
        v.resize(n, 0);
    }
    v
}
fn images(h: &TestHarness) -> J {
    let io = h.runtime().io();
    json!({"I": padded(io.inputs()), "Q": padded(io.outputs()), "M": padded(io.memory())})
}

pub(crate) static DEPLOYED: std::sync::atomic::AtomicUsize = std::sync::atomic::AtomicUsize::new(0);
fn setup(cfg: &J, src: &str, sh: &Arc<Mutex<Shared>>, retain_path: &std::path::Path) -> Result<TestHarness, String> {
    let mut h = TestHarness::from_source(src).map_err(|e| e.to_string())?;
    // Every other configuration starts the deployed way: the tasks (intervals, priorities, SINGLE variables, program and
    // FB associations) and image sizes the runtime works with are the ones the compiled container carries
    // (apply_bytecode_bytes, as bin/trust-runtime/run.rs does it), not the ones the harness build registered.  A
    // construct the bytecode compiler refuses stays on the direct path.
    if cfg["deployed"].as_bool().unwrap_or(false) {
        if let Ok(bytes) = trust_runtime::harness::bytecode_bytes_from_source(src) {
            h.runtime_mut().apply_bytecode_bytes(&bytes, None).map_err(|e| format!("apply_bytecode_bytes on the compiler's own container: {e}"))?;
            DEPLOYED.fetch_add(1, std::sync::atomic::Ordering::SeqCst);
        }
    }
    UNIT_US.store(cfg["unitUs"].as_i64().unwrap_or(1000), std::sync::atomic::Ordering::SeqCst);
    MODEL_LEN.store(cfg["imgLen"].as_u64().unwrap() as usize, std::sync::atomic::Ordering::SeqCst);
    let img = cfg["rtLen"].as_u64().or(cfg["imgLen"].as_u64()).unwrap() as usize;
    h.runtime_mut().io_mut().resize(img, img, img);
    for (d, dr) in cfg["drivers"].as_array().unwrap().iter().enumerate() {
        let (off, len) = (dr["off"].as_u64().unwrap() as usize, dr["len"].as_u64().unwrap() as usize);
        h.runtime_mut().add_io_driver(format!("d{}", d + 1), Box::new(Drv { id: d + 1, off, len, sh: sh.clone() }));
    }
    h.runtime_mut().set_fault_policy(policy(cfg["policy"].as_str().unwrap()));
    h.runtime_mut().set_watchdog_policy(WatchdogPolicy { enabled: false, timeout: Duration::from_millis(0), action: wd_action(cfg["wd"].as_str().unwrap()) });
    let mut safe_rt = IoSafeState::default();
    for e in cfg["safe"].as_array().unwrap() {
        let b = bytes_of(&e["val"]);
        safe_rt.outputs.push((io_addr(&e["addr"]), io_value(e["addr"]["size"].as_str().unwrap(), &b)));
    }
    h.runtime_mut().set_io_safe_state(safe_rt);
    // a retain store that is only written when the script says so (no periodic save)
    h.runtime_mut().set_retain_store(Some(Box::new(trust_runtime::retain::FileRetainStore::new(retain_path))), None);
    Ok(h)
}

/// A script written before FB-task associations existed (a stored replay file) has no `fbs` list
/// and no `fb` field in its counters: complete it, so that the specification sees one vocabulary.
fn normalise(cfg: &J) -> J {
    let mut cfg = cfg.clone();
    if cfg.get("fbs").is_none() {
        cfg["fbs"] = json!([]);
    }
    if let Some(cs) = cfg["counters"].as_array_mut() {
        for c in cs {
            if c.get("fb").is_none() {
                c["fb"] = json!(0);
            }
            if c.get("initFrom").is_none() {
                c["initFrom"] = json!("");
            }
        }
    }
    cfg
}

/// A member of the FB instance `inst` declared in program instance `prog`, read through the
/// instance path the task association names (so a disconnected association is visible).
fn fb_member(h: &TestHarness, prog: &str, inst: &str, member: &str) -> Value {
    let st = h.runtime().storage();
    let Some(Value::Instance(pid)) = st.get_global(prog) else { return Value::Null };
    let mut id = *pid;
    for part in inst.split('.') {
        let Some(Value::Instance(next)) = st.get_instance_var(id, part) else { return Value::Null };
        id = *next;
    }
    st.get_instance_var(id, member).cloned().unwrap_or(Value::Null)
}

/// Projection shared by Cycle / Restart / PowerCycle / SetAccess events.
fn project(h: &TestHarness, cfg: &J) -> J {
    let tasks = cfg["tasks"].as_array().unwrap();
    let over: Vec<u64> = tasks.iter().map(|t| h.runtime().task_overrun_count(t["name"].as_str().unwrap()).unwrap_or(0)).collect();
    let mut vars = Map::new();
    let mut tags = Map::new();
    for k in cfg["vars0"].as_object().unwrap().keys() {
        let gfb = cfg["bindings"].as_array().unwrap().iter().find(|b| b["var"] == json!(k.as_str())).and_then(|b| b["gfb"].as_str()).unwrap_or("");
        let v = if gfb.is_empty() {
            h.get_output(k).unwrap_or(Value::Null)
        } else {
            // a member of a global FB instance, read through the global (a disconnected instance shows)
            match h.runtime().storage().get_global(gfb) {
                Some(Value::Instance(id)) => h.runtime().storage().get_instance_var(*id, k).cloned().unwrap_or(Value::Null),
                _ => Value::Null,
            }
        };
        vars.insert(k.clone(), json!(le_bytes(&v).unwrap_or_default()));
        tags.insert(k.clone(), json!(tag(&v)));
    }
    let mut ctr = Map::new();
    let mut ctags = Map::new();
    for c in cfg["counters"].as_array().unwrap() {
        let (n, shape) = (c["name"].as_str().unwrap(), c["shape"].as_str().unwrap());
        let v = match c["fb"].as_u64().unwrap_or(0) {
            0 => h.get_output(n).unwrap_or(Value::Null),
            f => {
                let fb = &cfg["fbs"][f as usize - 1];
                fb_member(h, fb["prog"].as_str().unwrap(), fb["inst"].as_str().unwrap(), "n")
            }
        };
        ctr.insert(n.to_string(), json!(decode_count(shape, &v)));
        ctags.insert(n.to_string(), json!(shape_tag(shape, &v)));
    }
    let mut acc = Map::new();
    for j in cfg["access"].as_array().unwrap() {
        let v = h.get_access(&format!("Acc{j}")).unwrap_or(Value::Null);
        acc.insert(format!("cnt{j}"), json!(decode_count("INT", &v)));
    }
    json!({"over": over, "img": images(h), "vars": vars, "tags": tags, "ctr": ctr, "ctags": ctags, "acc": acc,
           "faulted": h.runtime().faulted(), "frames": h.runtime().storage().frames().len(),
           "now": h.runtime().current_time().as_nanos() / (UNIT_US.load(std::sync::atomic::Ordering::SeqCst) * 1000)})
}
fn merge(mut a: J, b: J) -> J {
    for (k, v) in b.as_object().unwrap() {
        a[k] = v.clone();
    }
    a
}

fn run_script(sc: &J, si: usize, o: &mut Out) -> bool {
    let cfg = &normalise(&sc["cfg"]);
    let src = render_source(cfg);
    let sh = Arc::new(Mutex::new(Shared { log: vec![], src: vec![], fail: (0, String::new()) }));
    for dr in cfg["drivers"].as_array().unwrap() {
        sh.lock().unwrap().src.push(vec![0; dr["len"].as_u64().unwrap() as usize]);
    }
    let dir = std::env::temp_dir().join(format!("tpv-retain-{}", std::process::id()));
    let _ = std::fs::create_dir_all(&dir);
    let retain_path = dir.join("retain.bin");
    let _ = std::fs::remove_file(&retain_path);
    let mut h = match setup(cfg, &src, &sh, &retain_path) {
        Ok(h) => h,
        Err(e) => {
            eprintln!("COMPILE {e}\n{src}");
            return false;
        }
    };
    let want_dbg = sc["dbg"].as_bool().unwrap_or(false);
    let mut dbg = if want_dbg { Some(h.runtime_mut().enable_debug()) } else { None };
    o.line(&json!({"a": "Reset", "cfg": cfg, "src": src, "si": si}));
    for st in sc["steps"].as_array().unwrap() {
        match st["a"].as_str().unwrap() {
            "Advance" => {
                h.advance_time(Duration::from_micros(st["dt"].as_i64().unwrap() * UNIT_US.load(std::sync::atomic::Ordering::SeqCst)));
                o.line(st);
            }
            "SetSingle" => {
                h.set_input(st["s"].as_str().unwrap(), Value::Bool(st["b"].as_bool().unwrap()));
                o.line(st);
            }
            "SetSrc" => {
                sh.lock().unwrap().src[st["d"].as_u64().unwrap() as usize - 1] = bytes_of(&st["bytes"]);
                o.line(st);
            }
            "Inject" => {
                // a program point of a program ("P2") or of a task-associated FB instance ("P2.f0")
                let name = st["prog"].as_str().unwrap();
                let base = match cfg["fbs"].as_array().unwrap().iter().position(|f| f["name"] == name) {
                    Some(f) => 1000 + f * 10,
                    None => name[1..].parse::<usize>().unwrap() * 100,
                };
                h.set_input("inj", Value::Int((base + st["at"].as_u64().unwrap() as usize) as i16));
                o.line(st);
            }
            "FailDriver" => {
                sh.lock().unwrap().fail = (st["d"].as_u64().unwrap() as usize, st["op"].as_str().unwrap().to_string());
                o.line(st);
            }
            "DebugVarWrite" => {
                let d = dbg.as_ref().expect("DebugVarWrite in a run without debugger");
                let var = st["var"].as_str().unwrap();
                let b = cfg["bindings"].as_array().unwrap().iter().find(|b| b["var"] == var).unwrap();
                let value = from_le_bytes(b["ty"].as_str().unwrap(), &bytes_of(&st["val"]));
                if b["owner"] == json!(-1) {
                    d.enqueue_global_write(var, value);
                } else {
                    let pname = format!("P{}", b["owner"]);
                    match h.runtime().storage().get_global(&pname) {
                        Some(Value::Instance(id)) => d.enqueue_instance_write(*id, var, value),
                        o => panic!("program instance {pname}: {o:?}"),
                    }
                }
                o.line(st);
            }
            "DebugIoWrite" => {
                let d = dbg.as_ref().expect("DebugIoWrite in a run without debugger");
                let b = bytes_of(&st["val"]);
                d.enqueue_io_write(io_addr(&st["addr"]), io_value(st["addr"]["size"].as_str().unwrap(), &b));
                o.line(st);
            }
            "Watchdog" | "SimFault" => {
                sh.lock().unwrap().log.clear();
                if st["a"] == "Watchdog" {
                    let _ = h.runtime_mut().watchdog_timeout();
                } else {
                    let _ = h.runtime_mut().simulation_fault("scripted");
                }
                o.line(&json!({"a": st["a"], "img": images(&h), "drv": sh.lock().unwrap().log.clone(), "faulted": h.runtime().faulted()}));
            }
            "DirectWrite" => {
                sh.lock().unwrap().log.clear();
                let b = bytes_of(&st["val"]);
                h.runtime_mut().io_mut().write(&io_addr(&st["addr"]), io_value(st["addr"]["size"].as_str().unwrap(), &b)).unwrap();
                o.line(&json!({"a": "DirectWrite", "addr": st["addr"], "val": st["val"], "img": images(&h), "drv": [], "faulted": h.runtime().faulted()}));
            }
            "DirectRead" => {
                let v = h.runtime().io().read(&io_addr(&st["addr"])).unwrap();
                o.line(&json!({"a": "DirectRead", "addr": st["addr"], "val": le_bytes(&v).unwrap()}));
            }
            "Restart" => {
                let mode = if st["mode"] == "warm" { trust_runtime::RestartMode::Warm } else { trust_runtime::RestartMode::Cold };
                let res = h.restart(mode);
                o.line(&merge(json!({"a": "Restart", "mode": st["mode"], "err": res.err().map(|e| format!("{e:?}")).unwrap_or_default()}), project(&h, cfg)));
            }
            "PowerCycle" => {
                // save, new process (a newly built runtime), load
                let saved = h.runtime_mut().save_retain_store();
                let mut nh = match setup(cfg, &src, &sh, &retain_path) {
                    Ok(h) => h,
                    Err(e) => panic!("rebuild failed: {e}"),
                };
                let loaded = nh.runtime_mut().load_retain_store();
                h = nh;
                dbg = if want_dbg { Some(h.runtime_mut().enable_debug()) } else { None };
                let err = format!("{}{}", saved.err().map(|e| format!("save:{e:?}")).unwrap_or_default(), loaded.err().map(|e| format!("load:{e:?}")).unwrap_or_default());
                o.line(&merge(json!({"a": "PowerCycle", "err": err}), project(&h, cfg)));
            }
            "SetAccess" => {
                let name = st["name"].as_str().unwrap();
                let j = &name[3..];
                let res = h.set_access(&format!("Acc{j}"), Value::Int((st["val"].as_i64().unwrap() + 3) as i16));
                o.line(&merge(json!({"a": "SetAccess", "name": name, "val": st["val"], "err": res.err().map(|e| format!("{e:?}")).unwrap_or_default()}), project(&h, cfg)));
            }
            "Cycle" => {
                h.set_input("lgn", Value::Int(0));
                sh.lock().unwrap().log.clear();
                if let Some(d) = &dbg {
                    let _ = d.drain_runtime_events();
                }
                let r = h.cycle();
                let res = if r.errors.is_empty() {
                    "ok".to_string()
                } else if matches!(r.errors[0], RuntimeError::ResourceFaulted) {
                    "refused".into()
                } else {
                    "fault".into()
                };
                let n = match h.get_output("lgn") {
                    Some(Value::Int(n)) => n as usize,
                    Some(Value::DInt(n)) => n as usize,
                    o => panic!("lgn = {o:?}"),
                };
                let exec: Vec<String> = match h.get_output("elog") {
                    Some(Value::Array(a)) => a.elements.iter().take(n).map(|v| match v {
                        Value::Int(i) if *i >= 100 => cfg["fbs"].get((*i as usize).wrapping_sub(100)).and_then(|f| f["name"].as_str()).map_or(format!("?{i}"), str::to_string),
                        Value::Int(i) => format!("P{i}"),
                        o => format!("{o:?}"),
                    }).collect(),
                    _ => vec![],
                };
                let mut ev = merge(json!({"a": "Cycle", "res": res, "err": r.errors.first().map(|e| format!("{e:?}")).unwrap_or_default(), "exec": exec,
                    "drv": sh.lock().unwrap().log.clone()}), project(&h, cfg));
                if let Some(d) = &dbg {
                    let started: Vec<String> = d.drain_runtime_events().into_iter().filter_map(|e| match e {
                        RuntimeEvent::TaskStart { name, .. } => Some(name.to_string()),
                        _ => None,
                    }).collect();
                    ev["tasks"] = json!(started);
                }
                o.line(&ev);
            }
            other => panic!("unknown step {other}"),
        }
    }
    let _ = std::fs::remove_dir_all(&dir);
    true
}
