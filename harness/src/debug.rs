//! DebugControl domain (C17): two real threads on a real `DebugControl`.
//!
//! mode "hook":    the statement thread calls `DebugHook::on_statement` for a scripted
//!                 (location, depth, thread) list; the controller thread issues commands.
//! mode "runtime": the statement thread runs a real ST program (nested FUNCTION / FB calls,
//!                 a loop, two tasks + a background program) through `Runtime::execute_cycle`
//!                 with `enable_debug()`; its statement list is taken from a command-free
//!                 reference run, and the final variables are compared with an undebugged run.
//! The events are parsed from the runtime's own ST_DEBUG_TRACE lines (emitted under the
//! DebugState mutex).  Schedules are whatever the OS produces plus seeded random delays.
use crate::util::*;
use rand::{rngs::StdRng, Rng, SeedableRng};
use serde_json::{json, Value as J};
use std::sync::atomic::{AtomicBool, Ordering};
use std::sync::Arc;
use trust_runtime::debug::{ControlAction, DebugBreakpoint, DebugControl, DebugHook, SourceLocation};
use trust_runtime::harness::TestHarness;
use trust_runtime::value::{Duration, Value};

fn field<'a>(line: &'a str, key: &str) -> Option<&'a str> {
    let i = line.find(&format!("{key}="))? + key.len() + 1;
    Some(line[i..].split(' ').next().unwrap())
}
fn opt_num(s: &str) -> i64 {
    if s.starts_with("Some(") {
        s[5..s.len() - 1].parse().unwrap_or(-1)
    } else {
        -1
    }
}
/// "file:start..end" -> (file, start, end)
fn loc_key(s: &str) -> String {
    s.to_string()
}

struct LocTable(Vec<String>);
impl LocTable {
    fn id(&mut self, key: &str) -> i64 {
        if let Some(i) = self.0.iter().position(|k| k == key) {
            return i as i64 + 1;
        }
        self.0.push(key.to_string());
        self.0.len() as i64
    }
}

/// Group the runtime's trace lines into one event per mutex critical section.
fn parse(lines: &[String], locs: &mut LocTable, out: &mut Vec<J>) -> Result<(), String> {
    let mut cur: Option<J> = None;
    for raw in lines {
        let line = raw.trim_start_matches("## [trust-runtime][debug] ");
        let need = |k: &str| field(line, k).ok_or_else(|| format!("trace line without {k}: {line}"));
        if line.starts_with("breakpoints.set") {
            out.push(json!({"a": "SetBps", "n": need("requested")?.parse::<i64>().map_err(|e| e.to_string())?}));
        } else if line.starts_with("breakpoints.clear") {
            out.push(json!({"a": "SetBps", "n": 0}));
        } else if line.starts_with("action=") {
            let act = need("action")?;
            let kind = act.split('(').next().unwrap();
            let th = if act.contains("Some(") { act[act.find("Some(").unwrap() + 5..act.rfind("))").unwrap()].parse::<i64>().unwrap_or(-1) } else { -1 };
            let (mb, ma) = need("mode")?.split_once("->").ok_or("mode without ->")?;
            out.push(json!({"a": "Adapter", "kind": kind, "th": th, "modeBefore": mb, "modeAfter": ma, "outcome": need("outcome")?}));
        } else if line.starts_with("hook.entry") {
            let p = need("pending_stop")?;
            let pending = if p == "None" { "none".to_string() } else { p[5..p.len() - 1].to_string() };
            cur = Some(json!({"a": "HookEnter", "loc": locs.id(&loc_key(need("location")?)), "depth": need("depth")?.parse::<i64>().unwrap_or(-1),
                "mode": need("mode")?, "cur": opt_num(need("current_thread")?), "target": opt_num(need("target_thread")?), "pending": pending,
                "steps": need("steps")?.parse::<i64>().unwrap_or(-1), "bps": need("breakpoints")?.parse::<i64>().unwrap_or(-1), "stops": []}));
        } else if line.starts_with("hook.wake") {
            cur = Some(json!({"a": "HookWake", "mode": need("mode")?, "target": opt_num(need("target_thread")?), "stops": []}));
        } else if line.starts_with("stop reason=") {
            if let Some(c) = cur.as_mut() {
                c["stops"].as_array_mut().unwrap().push(json!(need("reason")?));
            }
        } else if line.starts_with("hook.wait") {
            if let Some(mut c) = cur.take() {
                c["end"] = json!("wait");
                out.push(c);
            }
        } else if line.starts_with("hook.exit") {
            if let Some(mut c) = cur.take() {
                c["end"] = json!("exit");
                out.push(c);
            }
        }
    }
    Ok(())
}

const ST_PROGRAM: &str = r#"
FUNCTION Twice : INT
VAR_INPUT x : INT; END_VAR
Twice := x + x;
END_FUNCTION

FUNCTION Nest : INT
VAR_INPUT x : INT; END_VAR
VAR t : INT; END_VAR
t := Twice(x := x);
Nest := t + INT#1;
END_FUNCTION

FUNCTION_BLOCK Acc
VAR_INPUT inc : INT; END_VAR
VAR_OUTPUT total : INT; END_VAR
total := total + Twice(x := inc);
END_FUNCTION_BLOCK

CONFIGURATION C
VAR_GLOBAL g : INT := INT#0; END_VAR
TASK TA (INTERVAL := T#10ms, PRIORITY := 1);
TASK TB (INTERVAL := T#10ms, PRIORITY := 2);
PROGRAM PA WITH TA : MainA;
PROGRAM PB WITH TB : MainB;
PROGRAM PC : MainC;
END_CONFIGURATION

PROGRAM MainA
VAR_EXTERNAL g : INT; END_VAR
VAR a : INT; i : INT; acc : Acc; END_VAR
a := Nest(x := a) - a;
FOR i := INT#1 TO INT#2 DO
  g := g + i;
END_FOR;
acc(inc := INT#1);
END_PROGRAM

PROGRAM MainB
VAR_EXTERNAL g : INT; END_VAR
VAR b : INT; END_VAR
b := Twice(x := INT#3) + b;
IF b > INT#100 THEN b := INT#0; END_IF;
g := g + INT#1;
END_PROGRAM

PROGRAM MainC
VAR c : INT; END_VAR
c := c + INT#1;
END_PROGRAM
"#;

fn dump(h: &TestHarness) -> String {
    let mut v = Vec::new();
    for n in ["g", "a", "i", "b", "c"] {
        v.push(format!("{n}={:?}", h.get_output(n)));
    }
    if let Some(Value::Instance(id)) = h.runtime().storage().get_global("PA") {
        if let Some(Value::Instance(a)) = h.runtime().storage().get_instance_var(*id, "acc") {
            v.push(format!("acc.total={:?}", h.runtime().storage().get_instance_var(*a, "total")));
        }
    }
    v.push(format!("frames={}", h.runtime().storage().frames().len()));
    v.join(" ")
}

fn read_new(log: &str, consumed: &mut usize) -> Vec<String> {
    let all: Vec<String> = std::fs::read_to_string(log).unwrap_or_default().lines().map(|s| s.to_string()).collect();
    let new = all[(*consumed).min(all.len())..].to_vec();
    *consumed = all.len();
    new
}

/// In most runs hold the statement thread from the start, so that the commands that follow
/// meet a waiting hook rather than a finished program.
fn pre_command(rng: &mut StdRng, control: &DebugControl, cand: &[SourceLocation]) {
    match rng.gen_range(0..10) {
        0..=3 => {
            control.apply_action(ControlAction::Pause(None));
        }
        4..=6 if !cand.is_empty() => {
            let k = rng.gen_range(0..cand.len());
            control.set_breakpoints_for_file(cand[0].file_id, vec![DebugBreakpoint::new(cand[k])]);
        }
        7 => {
            control.apply_action(ControlAction::StepIn(None));
        }
        _ => {}
    }
}

fn controller(rng: &mut StdRng, control: &DebugControl, threads: &[u32], cand: &[SourceLocation], done: &AtomicBool, ncmds: usize) -> bool {
    for _ in 0..ncmds {
        std::thread::sleep(std::time::Duration::from_micros([0, 0, 20, 100, 300, 800][rng.gen_range(0..6)]));
        let th = if rng.gen_bool(0.4) { None } else { Some(threads[rng.gen_range(0..threads.len())]) };
        match rng.gen_range(0..10) {
            8 => {
                // burst: release and re-pause before the hook can wake up
                control.apply_action(ControlAction::Continue);
                control.apply_action(ControlAction::Pause(th));
            }
            9 => {
                let a = match rng.gen_range(0..3) { 0 => ControlAction::StepIn(th), 1 => ControlAction::StepOver(th), _ => ControlAction::StepOut(th) };
                control.apply_action(a);
                control.apply_action(ControlAction::Pause(th));
            }
            0 => {
                control.apply_action(ControlAction::Pause(th));
            }
            1 | 2 => {
                control.apply_action(ControlAction::Continue);
            }
            3 => {
                control.apply_action(ControlAction::StepIn(th));
            }
            4 => {
                control.apply_action(ControlAction::StepOver(th));
            }
            5 => {
                control.apply_action(ControlAction::StepOut(th));
            }
            _ => {
                let n = rng.gen_range(0..=2.min(cand.len()));
                let mut ks: Vec<usize> = (0..cand.len()).collect();
                let mut bps = Vec::new();
                for _ in 0..n {
                    let i = rng.gen_range(0..ks.len());
                    bps.push(DebugBreakpoint::new(cand[ks.remove(i)]));
                }
                control.set_breakpoints_for_file(cand.first().map_or(0, |l| l.file_id), bps);
            }
        }
    }
    control.set_breakpoints_for_file(cand.first().map_or(0, |l| l.file_id), vec![]);
    let t0 = std::time::Instant::now();
    while !done.load(Ordering::SeqCst) {
        control.apply_action(ControlAction::Continue);
        std::thread::sleep(std::time::Duration::from_micros(400));
        if t0.elapsed().as_secs() > 30 {
            return false;
        }
    }
    true
}

pub fn run(args: &[String]) -> i32 {
    let seed = arg_u64(args, "--seed", 1);
    let runs = arg_u64(args, "--runs", 50) as usize;
    let log = arg(args, "--log").expect("--log").to_string();
    let mut o = Out::create(arg(args, "--out").expect("--out"));
    let _ = std::fs::remove_file(&log);
    std::env::set_var("ST_DEBUG_TRACE", "1");
    std::env::set_var("ST_DEBUG_TRACE_LOG", &log);
    let mut rng = StdRng::seed_from_u64(seed ^ 0xdeb6);
    let mut consumed = 0usize;
    let mut wedges = 0;
    for r in 0..runs {
        let runtime_mode = r % 3 == 2;
        let mut locs = LocTable(Vec::new());
        if !runtime_mode {
            // ---------------- scripted hook list
            let n = rng.gen_range(3..8);
            let nth = rng.gen_range(1..=2u32);
            let mut prog = Vec::new();
            let mut d = 0u32;
            for k in 0..n {
                let th = if nth == 2 && k >= n / 2 { 2 } else { 1 };
                d = if k == 0 || (nth == 2 && k == n / 2) { 0 } else { (d as i32 + rng.gen_range(-1..=1)).clamp(0, 2) as u32 };
                let l = if rng.gen_bool(0.2) && k > 0 { rng.gen_range(1..=k as u32) } else { k as u32 + 1 }; // loops revisit a location
                prog.push((l, d, th));
            }
            let sl = |k: u32| SourceLocation::new(0, k * 10, k * 10 + 5);
            let cycles = rng.gen_range(1..=3u32);
            let control = DebugControl::new();
            let done = Arc::new(AtomicBool::new(false));
            let delay_hook = rng.gen_range(0..200u64);
            let (mut hook, ctl2, done2, prog2) = (control.clone(), control.clone(), done.clone(), prog.clone());
            // location ids in first-appearance order of the program
            for (l, _, _) in &prog {
                locs.id(&format!("0:{}..{}", l * 10, l * 10 + 5));
            }
            let cand_ids: Vec<u32> = { let mut v: Vec<u32> = prog.iter().map(|p| p.0).collect(); v.sort(); v.dedup(); v.truncate(4); v };
            let cand: Vec<SourceLocation> = cand_ids.iter().map(|k| sl(*k)).collect();
            ctl2.set_current_thread(Some(prog[0].2));
            pre_command(&mut rng, &control, &cand);
            let t = std::thread::spawn(move || {
                let mut cur = prog2[0].2;
                for _ in 0..cycles {
                    for (k, d, th) in &prog2 {
                        if *th != cur {
                            ctl2.set_current_thread(Some(*th));
                            cur = *th;
                        }
                        hook.on_statement(Some(&sl(*k)), *d);
                        if delay_hook > 0 {
                            std::thread::sleep(std::time::Duration::from_micros(delay_hook));
                        }
                    }
                }
                done2.store(true, Ordering::SeqCst);
            });
            let ncmds = rng.gen_range(0..16);
            let ok = controller(&mut rng, &control, &[1, 2], &cand, &done, ncmds);
            if ok {
                t.join().unwrap();
            } else {
                wedges += 1;
            }
            let lines = read_new(&log, &mut consumed);
            let mut evs = Vec::new();
            if let Err(e) = parse(&lines, &mut locs, &mut evs) {
                eprintln!("debug-run: {e}");
                return 2;
            }
            let jprog: Vec<J> = prog.iter().map(|(l, d, th)| json!({"loc": locs.id(&format!("0:{}..{}", l * 10, l * 10 + 5)), "depth": d, "th": th})).collect();
            let jc: Vec<i64> = cand_ids.iter().map(|k| locs.id(&format!("0:{}..{}", k * 10, k * 10 + 5))).collect();
            o.line(&json!({"a": "Reset", "mode": "hook", "prog": jprog, "cands": jc, "cycles": cycles}));
            for e in evs {
                o.line(&e);
            }
            o.line(&if ok { json!({"a": "Final", "same": true}) } else { json!({"a": "Wedge"}) });
        } else {
            // ---------------- real program through Runtime::execute_cycle
            let cycles = rng.gen_range(1..=2u32);
            // undebugged run: the reference final state
            let mut plain = TestHarness::from_source(ST_PROGRAM).expect("debug program compiles");
            for _ in 0..cycles {
                plain.advance_time(Duration::from_millis(10));
                let r = plain.cycle();
                assert!(r.errors.is_empty(), "{:?}", r.errors);
            }
            let expect = dump(&plain);
            // command-free debug run: the statement list of one cycle
            let mut refh = TestHarness::from_source(ST_PROGRAM).unwrap();
            let _c = refh.runtime_mut().enable_debug();
            let mut per_cycle: Vec<Vec<J>> = Vec::new();
            for _ in 0..2 {
                refh.advance_time(Duration::from_millis(10));
                let _ = refh.cycle();
                let lines = read_new(&log, &mut consumed);
                let mut evs = Vec::new();
                if let Err(e) = parse(&lines, &mut locs, &mut evs) {
                    eprintln!("debug-run: {e}");
                    return 2;
                }
                per_cycle.push(evs.into_iter().filter(|e| e["a"] == "HookEnter").map(|e| json!({"loc": e["loc"], "depth": e["depth"], "th": e["cur"]})).collect());
            }
            if per_cycle[0] != per_cycle[1] || per_cycle[0].is_empty() {
                eprintln!("debug-run: reference cycles differ or are empty");
                return 2;
            }
            let prog = per_cycle[0].clone();
            // candidate breakpoint locations: a statement inside the nested callee, the loop body, task B
            let file_id = 0u32;
            let all_locs: Vec<SourceLocation> = locs.0.iter().map(|k| {
                let (f, r) = k.split_once(':').unwrap();
                let (s, e) = r.split_once("..").unwrap();
                SourceLocation::new(f.parse().unwrap(), s.parse().unwrap(), e.parse().unwrap())
            }).collect();
            // a breakpoint matches every statement whose range OVERLAPS it (compound statements
            // cover their bodies); candidates are locations disjoint from all others, so that
            // "location in bps" is exactly what the runtime tests
            let disjoint = |i: usize| all_locs.iter().enumerate().all(|(j, o)| j == i || o.file_id != all_locs[i].file_id || !(all_locs[i].start < o.end && o.start < all_locs[i].end));
            let mut idx: Vec<usize> = (0..all_locs.len()).filter(|i| disjoint(*i)).collect();
            let mut cand_ix = Vec::new();
            for _ in 0..4.min(idx.len()) {
                cand_ix.push(idx.remove(rng.gen_range(0..idx.len())));
            }
            let cand: Vec<SourceLocation> = cand_ix.iter().map(|i| all_locs[*i]).collect();
            let _ = file_id;
            let mut h = TestHarness::from_source(ST_PROGRAM).unwrap();
            let control = h.runtime_mut().enable_debug();
            let done = Arc::new(AtomicBool::new(false));
            let done2 = done.clone();
            pre_command(&mut rng, &control, &cand);
            let t = std::thread::spawn(move || {
                for _ in 0..cycles {
                    h.advance_time(Duration::from_millis(10));
                    let _ = h.cycle();
                }
                done2.store(true, Ordering::SeqCst);
                h
            });
            let threads: Vec<u32> = { let mut v: Vec<u32> = prog.iter().map(|p| p["th"].as_u64().unwrap() as u32).collect(); v.sort(); v.dedup(); v };
            let ncmds = rng.gen_range(0..16);
            let ok = controller(&mut rng, &control, &threads, &cand, &done, ncmds);
            let mut same = false;
            if ok {
                let h = t.join().unwrap();
                same = dump(&h) == expect;
            } else {
                wedges += 1;
            }
            let lines = read_new(&log, &mut consumed);
            let mut evs = Vec::new();
            if let Err(e) = parse(&lines, &mut locs, &mut evs) {
                eprintln!("debug-run: {e}");
                return 2;
            }
            let jc: Vec<i64> = cand_ix.iter().map(|i| *i as i64 + 1).collect();
            o.line(&json!({"a": "Reset", "mode": "runtime", "prog": prog, "cands": jc, "cycles": cycles}));
            for e in evs {
                o.line(&e);
            }
            o.line(&if ok { json!({"a": "Final", "same": same}) } else { json!({"a": "Wedge"}) });
        }
    }
    o.flush();
    eprintln!("debug-run: runs={runs} wedges={wedges}");
    0
}
