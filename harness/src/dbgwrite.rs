//! Debugger writes through the control endpoint (C03: "debugger writes ... never change the type tag of a
//! stored value").  The requests `set` (global: / retain:), `io.write` and `io.force` carry their value as
//! text; the endpoint queues the write with DebugControl and the runtime applies it at the next cycle
//! boundary.  For every global of the fixture (one per elementary type family) and every value text the
//! request is sent on a real ControlServer, one cycle runs, and the stored value is read back: it must have
//! the declared type (and be in its range) -- or the request must have been refused and the variable be
//! unchanged; the cycle itself must not fault.
use crate::ctrlauth::{Cfg, Fx};
use crate::util::*;
use serde_json::{json, Value as J};
use trust_runtime::value::Value;

fn tag(v: &Value) -> String {
    format!("{v:?}").split(|c: char| !c.is_alphanumeric()).next().unwrap_or("").to_string()
}

pub fn run(args: &[String]) -> i32 {
    let mut o = Out::create(arg(args, "--out").expect("--out"));
    let work = std::path::PathBuf::from(arg(args, "--work").expect("--work"));
    std::fs::create_dir_all(&work).ok();
    let globals: [(&str, &str, &str); 8] = [
        ("zq_g", "LInt", "global"), ("zq_b", "Bool", "global"), ("zq_i", "Int", "global"), ("zq_s8", "SInt", "global"),
        ("zq_u8", "USInt", "global"), ("zq_w", "Word", "global"), ("zq_re", "Real", "global"), ("zq_r", "LInt", "retain"),
    ];
    let texts = ["5", "-1", "0", "300", "70000", "TRUE", "false", "9223372036854775807", " 7 "];
    let mut id = 500u64;
    for (name, declared, area) in globals {
        for text in texts {
            // a fresh fixture per case: no token configured (the local caller is admin), debugging enabled
            let mut fx = Fx::build_with_pairing(&work, &Cfg { token: false, debug: true, mode: "debug".into() }, None);
            let (before, _) = fx.cycle_and_global(name);
            id += 1;
            let line = json!({"id": id, "type": "set", "params": {"target": format!("{area}:{name}"), "value": text}}).to_string();
            let reply: Option<J> = fx.ask(&line).line().and_then(|t| serde_json::from_str(&t).ok());
            let ok = reply.as_ref().map_or(false, |r| r["ok"] == json!(true));
            let (after, errors) = fx.cycle_and_global(name);
            o.line(&json!({"a": "DbgWrite", "via": "set", "target": format!("{area}:{name}"), "declared": declared, "text": text, "accepted": ok,
                           "before": before.as_ref().map(|v| format!("{v:?}")), "after": after.as_ref().map(|v| format!("{v:?}")),
                           "tagBefore": before.as_ref().map(tag), "tagAfter": after.as_ref().map(tag), "cycleErrors": errors}));
        }
    }
    // io.write / io.force on input addresses of every size
    for addr in ["%IX0.1", "%IB1", "%IW2"] {
        for req in ["io.write", "io.force"] {
            for text in ["1", "TRUE", "200", "70000", "-1"] {
                let mut fx = Fx::build_with_pairing(&work, &Cfg { token: false, debug: true, mode: "debug".into() }, None);
                let _ = fx.cycle_and_global("zq_g");
                id += 1;
                let line = json!({"id": id, "type": req, "params": {"address": addr, "value": text}}).to_string();
                let reply: Option<J> = fx.ask(&line).line().and_then(|t| serde_json::from_str(&t).ok());
                let ok = reply.as_ref().map_or(false, |r| r["ok"] == json!(true));
                let (_, errors) = fx.cycle_and_global("zq_g");
                let (_, errors2) = fx.cycle_and_global("zq_g");
                o.line(&json!({"a": "DbgIo", "via": req, "address": addr, "text": text, "accepted": ok, "cycleErrors": errors, "nextCycleErrors": errors2, "inputs": fx.inputs()}));
            }
        }
    }
    o.flush();
    0
}
