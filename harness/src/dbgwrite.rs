//! Debugger writes through the control endpoint (C03: "debugger writes ... never change the type tag of a
//! stored value").  The requests `set` (global: / retain:), `io.write` and `io.force` carry their value as
//! text; the endpoint queues the write with DebugControl and the runtime applies it at the next cycle
//! boundary.  For every global of the fixture (one per elementary type family) and every value text the
//! request is sent on a real ControlServer, one cycle runs, and the stored value is read back: it must have
//! the declared type (and be in its range) -- or the request must have been refused and the variable be
//! unchanged; the cycle itself must not fault.
use crate::ctrlauth::{Cfg, Fx};
use crate::util::*;
use serde_json::{json, Value as J};
use trust_runtime::value::Value;

fn tag(v: &Value) -> String {
    format!("{v:?}").split(|c: char| !c.is_alphanumeric()).next().unwrap_or("").to_string()
}

pub fn run(args: &[String]) -> i32 {
    let mut o = Out::create(arg(args, "--out").expect("--out"));
    let work = std::path::PathBuf::from(arg(args, "--work").expect("--work"));
    std::fs::create_dir_all(&work).ok();
    let globals: [(&str, &str, &str); 8] = [
        ("zq_g", "LInt", "global"), ("zq_b", "Bool", "global"), ("zq_i", "Int", "global"), ("zq_s8", "SInt", "global"),
        ("zq_u8", "USInt", "global"), ("zq_w", "Word", "global"), ("zq_re", "Real", "global"), ("zq_r", "LInt", "retain"),
    ];
    let texts = ["5", "-1", "0", "300", "70000", "TRUE", "false", "9223372036854775807", " 7 "];
    let mut id = 500u64;
    for (name, declared, area) in globals {
        for text in texts {
            // a fresh fixture per case: no token configured (the local caller is admin), debugging enabled
            let mut fx = Fx::build_with_pairing(&work, &Cfg { token: false, debug: true, mode: "debug".into() }, None);
            let (before, _) = fx.cycle_and_global(name);
            id += 1;
            let line = json!({"id": id, "type": "set", "params": {"target": format!("{area}:{name}"), "value": text}}).to_string();
            let reply: Option<J> = fx.ask(&line).line().and_then(|t| serde_json::from_str(&t).ok());
            let ok = reply.as_ref().map_or(false, |r| r["ok"] == json!(true));
            let (after, errors) = fx.cycle_and_global(name);
            o.line(&json!({"a": "DbgWrite", "via": "set", "target": format!("{area}:{name}"), "declared": declared, "text": text, "accepted": ok,
                           "before": before.as_ref().map(|v| format!("{v:?}")), "after": after.as_ref().map(|v| format!("{v:?}")),
                           "tagBefore": before.as_ref().map(tag), "tagAfter": after.as_ref().map(tag), "cycleErrors": errors}));
        }
    }
    // io.write / io.force on input addresses of every size
    for addr in ["%IX0.1", "%IB1", "%IW2"] {
        for req in ["io.write", "io.force"] {
            for text in ["1", "TRUE", "200", "70000", "-1"] {
                let mut fx = Fx::build_with_pairing(&work, &Cfg { token: false, debug: true, mode: "debug".into() }, None);
                let _ = fx.cycle_and_global("zq_g");
                id += 1;
                let line = json!({"id": id, "type": req, "params": {"address": addr, "value": text}}).to_string();
                let reply: Option<J> = fx.ask(&line).line().and_then(|t| serde_json::from_str(&t).ok());
                let ok = reply.as_ref().map_or(false, |r| r["ok"] == json!(true));
                let (_, errors) = fx.cycle_and_global("zq_g");
                let (_, errors2) = fx.cycle_and_global("zq_g");
                o.line(&json!({"a": "DbgIo", "via": req, "address": addr, "text": text, "accepted": ok, "cycleErrors": errors, "nextCycleErrors": errors2, "inputs": fx.inputs()}));
            }
        }
    }
    o.flush();
    0
}

// ------------------------------------------------------------------ writes that arrive over the mesh
/// `meshwrite-run --out F`: a runtime subscribes to values of a peer (`[runtime.mesh.subscribe]` of a real
/// runtime.toml, read by RuntimeConfig::load; the first subscription names a global the program does not declare);
/// the harness is the peer and publishes one message.  After a few cycles every subscribed global must still hold a
/// value of its declared type.
pub fn mesh_run(args: &[String]) -> i32 {
    use std::io::Write;
    use trust_runtime::harness::TestHarness;
    use trust_runtime::scheduler::{ResourceCommand, ResourceRunner, StdClock};
    use trust_runtime::value::Duration;
    let mut o = Out::create(arg(args, "--out").expect("--out"));
    const PROGRAM: &str = "CONFIGURATION Plant\nVAR_GLOBAL\n  Count : DINT := 0;\n  Level : REAL := 0.0;\n  Zi : INT := 0;\n  Zu : USINT := 0;\n  Zb : BOOL := FALSE;\n  Zw : WORD := 0;\n  Zl : LINT := 0;\n  Ticks : DINT := 0;\nEND_VAR\nPROGRAM I1 : Main;\nEND_CONFIGURATION\nPROGRAM Main\nVAR_EXTERNAL Ticks : DINT; END_VAR\nTicks := Ticks + 1;\nEND_PROGRAM\n";
    let globals: [(&str, &str); 7] = [("Count", "DInt"), ("Level", "Real"), ("Zi", "Int"), ("Zu", "USInt"), ("Zb", "Bool"), ("Zw", "Word"), ("Zl", "LInt")];
    let values = [json!(7), json!(-1), json!(300), json!(1.5), json!(true), json!("zq"), json!(70000), json!(3000000000u64)];
    let mut case = 0usize;
    for (xi, (x, xdecl)) in globals.iter().enumerate() {
        for (yi, (y, ydecl)) in globals.iter().enumerate() {
            if xi == yi {
                continue;
            }
            case += 1;
            let (v1, v2) = (values[case % values.len()].clone(), values[(case / 2 + 3) % values.len()].clone());
            let port = std::net::TcpListener::bind("127.0.0.1:0").and_then(|l| l.local_addr()).map(|a| a.port()).expect("loopback port");
            let dir = std::env::temp_dir().join(format!("zq-mesh-{}-{case}", std::process::id()));
            std::fs::create_dir_all(&dir).expect("temp dir");
            let toml = crate::resfault::RUNTIME_TOML.replace("@SAVE_MS@", "1000").replace("@WD_ENABLED@", "false").replace("@WD_MS@", "1000").replace("@WD_ACTION@", "halt")
                .replace("@POLICY@", "halt")
                .replace("[runtime.mesh]\nenabled = false\nlisten = \"127.0.0.1:5200\"\ntls = false\nauth_token = \"\"\npublish = []\n",
                         &format!("[runtime.mesh]\nenabled = true\nlisten = \"127.0.0.1:{port}\"\ntls = false\nauth_token = \"zq-mesh-token\"\npublish = []\n\n[runtime.mesh.subscribe]\n\"Peer:a_gone\" = \"ZqGone\"\n\"Peer:b_x\" = \"{x}\"\n\"Peer:c_y\" = \"{y}\"\n"));
            let p = dir.join("runtime.toml");
            std::fs::write(&p, &toml).expect("write runtime.toml");
            let cfg = trust_runtime::config::RuntimeConfig::load(&p);
            let _ = std::fs::remove_dir_all(&dir);
            let cfg = match cfg {
                Ok(c) if c.mesh.enabled && c.mesh.subscribe.len() == 3 => c,
                other => {
                    eprintln!("meshwrite-run: runtime.toml with a mesh section was not accepted as written: {:?}", other.map(|c| c.mesh.subscribe.len()));
                    return 2;
                }
            };
            let rt = TestHarness::from_source(PROGRAM).expect("mesh fixture program").into_runtime();
            let mut handle = ResourceRunner::new(rt, StdClock::new(), Duration::from_millis(2)).spawn("zq-mesh").expect("spawn");
            let ctl = handle.control();
            let mesh = trust_runtime::mesh::start_mesh(&cfg.mesh, "LineA".into(), ctl.clone(), None, None);
            let snapshot = || -> Option<trust_runtime::debug::DebugSnapshot> {
                let (tx, rx) = std::sync::mpsc::channel();
                ctl.send_command(ResourceCommand::Snapshot { respond_to: tx }).ok()?;
                rx.recv_timeout(std::time::Duration::from_secs(5)).ok()
            };
            let ticks = |s: &trust_runtime::debug::DebugSnapshot| match s.storage.get_global("Ticks") { Some(Value::DInt(t)) => *t as i64, _ => -1 };
            let mut sent = false;
            if matches!(mesh, Ok(Some(_))) {
                for _ in 0..250 {
                    if let Ok(mut peer) = std::net::TcpStream::connect(("127.0.0.1", port)) {
                        let msg = json!({"type": "publish", "from": "Peer", "token": "zq-mesh-token", "data": {"a_gone": 7, "b_x": v1, "c_y": v2}});
                        sent = writeln!(peer, "{msg}").is_ok() && peer.flush().is_ok();
                        break;
                    }
                    std::thread::sleep(std::time::Duration::from_millis(20));
                }
            }
            // the update is applied at a cycle boundary: let 12 cycles pass
            let t0 = snapshot().map(|s| ticks(&s)).unwrap_or(-1);
            let started = std::time::Instant::now();
            let mut last = None;
            while started.elapsed().as_secs() < 5 {
                last = snapshot();
                if last.as_ref().map(|s| ticks(s)).unwrap_or(-1) >= t0 + 12 {
                    break;
                }
                std::thread::sleep(std::time::Duration::from_millis(3));
            }
            let read = |n: &str| last.as_ref().and_then(|s| s.storage.get_global(n).cloned());
            let (ax, ay) = (read(x), read(y));
            let running = last.as_ref().map(|s| ticks(s)).unwrap_or(-1) >= t0 + 12;
            handle.stop();
            let _ = handle.join();
            drop(mesh);
            o.line(&json!({"a": "MeshWrite", "started": sent, "running": running, "x": x, "xDeclared": xdecl, "xPublished": v1, "xAfter": ax.as_ref().map(|v| format!("{v:?}")), "xTag": ax.as_ref().map(tag),
                           "y": y, "yDeclared": ydecl, "yPublished": v2, "yAfter": ay.as_ref().map(|v| format!("{v:?}")), "yTag": ay.as_ref().map(tag)}));
        }
    }
    o.flush();
    0
}
