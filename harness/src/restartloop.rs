//! ResourceRestart domain (C09 through the resource thread loop of scheduler.rs): a real resource
//! thread with a restart signal (what the control endpoint's `restart` request sets) and a retain
//! store with a save interval.  The program counts in four variables (global / program-level x
//! RETAIN / plain) and copies them to directly addressed outputs; a logging driver records the
//! output image of every cycle, the logging store records every `store` / `load`.  The restart
//! request is logged under the same lock.  `ResourceRestartTrace` judges the log.
use crate::util::*;
use rand::{rngs::StdRng, Rng, SeedableRng};
use serde_json::{json, Value as J};
use std::sync::{Arc, Mutex};
use trust_runtime::error::RuntimeError;
use trust_runtime::harness::TestHarness;
use trust_runtime::io::IoDriver;
use trust_runtime::retain::RetainStore;
use trust_runtime::scheduler::{ManualClock, ResourceRunner, ResourceState, SharedGlobals};
use trust_runtime::value::{Duration, Value};
use trust_runtime::{RestartMode, RetainSnapshot};

const SRC: &str = r#"
CONFIGURATION C
VAR_GLOBAL RETAIN
    gr : INT := INT#0;
END_VAR
VAR_GLOBAL
    gn : INT := INT#0; sh : INT := INT#0;
END_VAR
PROGRAM I1 : Main;
END_CONFIGURATION
PROGRAM Main
VAR_EXTERNAL gr : INT; gn : INT; END_VAR
VAR RETAIN
    pr : INT := INT#0;
END_VAR
VAR
    pn : INT := INT#0;
    q0 AT %QW0 : INT; q1 AT %QW2 : INT; q2 AT %QW4 : INT; q3 AT %QW6 : INT;
    t1 : TON; q4 AT %QX8.0 : BOOL;
END_VAR
gr := gr + INT#1; gn := gn + INT#1; pr := pr + INT#1; pn := pn + INT#1;
q0 := gr; q1 := gn; q2 := pr; q3 := pn;
t1(IN := TRUE, PT := T#5ms);
q4 := t1.Q;
END_PROGRAM
"#;
const IMG: usize = 10;

type Log = Arc<Mutex<Vec<J>>>;

struct Drv {
    log: Log,
    clock: ManualClock,
}
impl IoDriver for Drv {
    fn read_inputs(&mut self, _inputs: &mut [u8]) -> Result<(), RuntimeError> {
        Ok(())
    }
    fn write_outputs(&mut self, o: &[u8]) -> Result<(), RuntimeError> {
        let w = |k: usize| i16::from_le_bytes([o[2 * k], o[2 * k + 1]]) as i64;
        // `now`: the scheduling clock in ms when the outputs were published; `ton`: Q of a TON (IN = TRUE, PT = 5 ms) that is
        // re-initialised by every restart
        use trust_runtime::scheduler::Clock;
        let now = self.clock.now().as_nanos() / 1_000_000;
        self.log.lock().unwrap().push(json!({"a": "W", "gr": w(0), "gn": w(1), "pr": w(2), "pn": w(3), "ton": o[8] & 1 == 1, "now": now}));
        Ok(())
    }
}

/// what the store holds: the retained counters of the last `store` (None: nothing stored yet)
struct Store {
    log: Log,
    disk: Arc<Mutex<Option<RetainSnapshot>>>,
}
fn snap_int(s: &RetainSnapshot, suffix: &str) -> J {
    for (k, v) in s.values() {
        if k.as_str().eq_ignore_ascii_case(suffix) || k.as_str().to_ascii_lowercase().ends_with(&format!(".{suffix}")) {
            if let Value::Int(i) = v {
                return json!(*i as i64);
            }
        }
    }
    J::Null
}
impl RetainStore for Store {
    fn load(&self) -> Result<RetainSnapshot, RuntimeError> {
        let d = self.disk.lock().unwrap().clone();
        self.log.lock().unwrap().push(json!({"a": "Load", "some": d.is_some()}));
        Ok(d.unwrap_or_default())
    }
    fn store(&self, snapshot: &RetainSnapshot) -> Result<(), RuntimeError> {
        *self.disk.lock().unwrap() = Some(snapshot.clone());
        self.log.lock().unwrap().push(json!({"a": "Store", "gr": snap_int(snapshot, "gr"), "pr": snap_int(snapshot, "pr"),
            "keys": snapshot.values().keys().map(|k| k.to_string()).collect::<Vec<_>>()}));
        Ok(())
    }
}

pub fn run(args: &[String]) -> i32 {
    let seed = arg_u64(args, "--seed", 1);
    let runs = arg_u64(args, "--runs", 40) as usize;
    let mut o = Out::create(arg(args, "--out").expect("--out"));
    let mut rng = StdRng::seed_from_u64(seed ^ 0xc09_10);
    for k in 0..runs {
        match one_run(&mut rng, k) {
            Ok(evs) => {
                for e in evs {
                    o.line(&e);
                }
            }
            Err(e) => {
                eprintln!("restartloop-run: {e}");
                return 2;
            }
        }
    }
    o.flush();
    0
}

fn one_run(rng: &mut StdRng, k: usize) -> Result<Vec<J>, String> {
    // save interval in cycles: 0 = every cycle, none = never periodically, else every n-th
    let interval: Option<i64> = [None, Some(0), Some(3), Some(7), Some(50)][k % 5];
    let with_store = k % 11 != 10;
    let shared_runner = (k / 5) % 2 == 1;
    let mut rt = TestHarness::from_source(SRC).map_err(|e| e.to_string())?.into_runtime();
    rt.io_mut().resize(0, IMG, 0);
    // the shared-globals runner shares a variable the program does not touch (a shared copy of a counter would
    // be written back over the restarted runtime's value by sync_into, which is C20's subject, not C09's)
    let shared = SharedGlobals::from_runtime(vec!["sh".into()], &rt).map_err(|e| e.to_string())?;
    let log: Log = Arc::new(Mutex::new(Vec::new()));
    let clock = ManualClock::new();
    rt.add_io_driver("zq".to_string(), Box::new(Drv { log: log.clone(), clock: clock.clone() }));
    let disk = Arc::new(Mutex::new(None));
    // a third of the runs start on a store that already holds a snapshot -- written by an EARLIER VERSION of the
    // program, which had two RETAIN variables more (a global, stored first, and a program variable in the middle):
    // the start-up sequence of bin/trust-runtime/run.rs (restart, then load_retain_store) must bring back the two
    // counters that still exist
    let (mut boot_gr, mut boot_pr) = (-1i64, -1i64);
    if with_store {
        if k % 3 == 1 {
            boot_gr = rng.gen_range(3..900);
            boot_pr = rng.gen_range(3..900);
            let mut snap = RetainSnapshot::default();
            snap.insert("zq_gone", Value::Int(5));
            snap.insert("gr", Value::Int(boot_gr as i16));
            snap.insert("I1.zq_gone2", Value::Int(6));
            snap.insert("I1.pr", Value::Int(boot_pr as i16));
            *disk.lock().unwrap() = Some(snap);
        }
        rt.set_retain_store(Some(Box::new(Store { log: log.clone(), disk: disk.clone() })), interval.map(Duration::from_millis));
        if boot_gr >= 0 {
            rt.restart(RestartMode::Cold).map_err(|e| e.to_string())?;
            rt.load_retain_store().map_err(|e| e.to_string())?;
        }
    }
    let signal = Arc::new(Mutex::new(None::<RestartMode>));
    let runner = ResourceRunner::new(rt, clock.clone(), Duration::from_millis(1)).with_restart_signal(signal.clone());
    let mut handle = if shared_runner { runner.spawn_with_shared("zq-restart", shared).map_err(|e| e.to_string())? } else { runner.spawn("zq-restart").map_err(|e| e.to_string())? };
    let ctl = handle.control();
    let writes = || log.lock().unwrap().iter().filter(|e| e["a"] == "W").count();
    let tick = || {
        clock.advance(Duration::from_millis(1));
        std::thread::sleep(std::time::Duration::from_micros(150));
    };
    let wait_writes = |n: usize| {
        let t0 = std::time::Instant::now();
        while writes() < n && t0.elapsed().as_secs() < 20 && ctl.state() != ResourceState::Faulted {
            tick();
        }
    };
    let nreq = rng.gen_range(1..=3);
    let mut modes = vec![];
    for _ in 0..nreq {
        let w0 = writes();
        wait_writes(w0 + rng.gen_range(2..12));
        let mode = if rng.gen_bool(0.65) { RestartMode::Warm } else { RestartMode::Cold };
        {
            // request and log entry under the log lock: every cycle logged before it ended before the request
            let mut l = log.lock().unwrap();
            *signal.lock().unwrap() = Some(mode);
            use trust_runtime::scheduler::Clock;
            l.push(json!({"a": "Req", "mode": if matches!(mode, RestartMode::Warm) { "warm" } else { "cold" }, "now": clock.now().as_nanos() / 1_000_000}));
        }
        modes.push(mode);
        // the restart must have been taken before the next request
        let t0 = std::time::Instant::now();
        while signal.lock().unwrap().is_some() && t0.elapsed().as_secs() < 20 {
            tick();
        }
    }
    let w0 = writes();
    wait_writes(w0 + rng.gen_range(2..6));
    let faulted = ctl.state() == ResourceState::Faulted;
    ctl.stop();
    let (tx, rx) = std::sync::mpsc::channel();
    std::thread::spawn(move || {
        let _ = handle.join();
        let _ = tx.send(());
    });
    let t = std::time::Instant::now();
    let mut joined = false;
    while t.elapsed().as_secs() < 20 {
        clock.advance(Duration::from_millis(1));
        if rx.recv_timeout(std::time::Duration::from_millis(2)).is_ok() {
            joined = true;
            break;
        }
    }
    let mut evs = vec![json!({"a": "Reset", "k": k, "store": with_store, "interval": interval.unwrap_or(-1), "bootGr": boot_gr, "bootPr": boot_pr, "runner": if shared_runner { "shared" } else { "plain" }})];
    evs.extend(log.lock().unwrap().drain(..));
    evs.push(json!({"a": "End", "joined": joined, "faulted": faulted}));
    Ok(evs)
}
