//! DAP adapter domain (C17, adapter layer): the real `trust_debug::DebugAdapter` (run_stdio:
//! request loop, StopCoordinator, stop gate, runner thread executing a real multi-task program)
//! runs in a child process of this binary and is driven over stdio with DAP framing.
//!
//! `dap-child`  = what the `trust-debug` binary's main() does (public API only).
//! `dap-run`    = the client: executes request scripts (pipelined / batched / awaited), records
//!                what the client observes (order of responses and events on the wire) and merges
//!                it with the adapter's own transcript (ST_DEBUG_DAP_LOG: requests read, messages
//!                queued, stop recv/drop/emit decisions) and the runtime's ST_DEBUG_TRACE lines
//!                (written to the same O_APPEND file, i.e. in one total order).
//! Script steps: req (gap in us before the write, -1 = same write as the previous request), cond (by the client's
//! view: stopped / running), seq, wait (for a stopped event), sync (all responses), sleep, quiesce (positive-signal
//! test that nothing is in flight and the hook waits, see `quiescent_stopped`).  A script may pin the adapter to one
//! CPU and give its threads real-time priorities ("others-first", "main-first", "runner-main-coord"): legal schedules
//! chosen from outside, used to hit the windows between two critical sections deterministically.
//! Every script ends with a probe (pause if needed -> quiescent and stopped within 20 s) and disconnect (exit within 20 s).
use crate::util::*;
use serde_json::{json, Value as J};
use std::io::{BufRead, BufReader, Write};
use std::process::{Child, ChildStdin, Command, Stdio};
use std::sync::{Arc, Condvar, Mutex};
use std::time::{Duration, Instant};

pub fn child(_args: &[String]) -> i32 {
    use trust_debug::{DebugAdapter, DebugSession};
    let runtime = trust_runtime::Runtime::new();
    let session = DebugSession::new(runtime);
    let mut adapter = DebugAdapter::new(session);
    match adapter.run_stdio() {
        Ok(()) => 0,
        Err(e) => {
            eprintln!("dap-child: run_stdio error: {e}");
            1
        }
    }
}

pub const ST_PROGRAM: &str = r#"FUNCTION Twice : INT
VAR_INPUT x : INT; END_VAR
Twice := x + x;
END_FUNCTION

FUNCTION_BLOCK Acc
VAR_INPUT inc : INT; END_VAR
VAR_OUTPUT total : INT; END_VAR
total := total + Twice(x := inc);
END_FUNCTION_BLOCK

CONFIGURATION C
VAR_GLOBAL g : INT := INT#0; END_VAR
TASK TA (INTERVAL := T#2ms, PRIORITY := 1);
TASK TB (INTERVAL := T#2ms, PRIORITY := 2);
PROGRAM PA WITH TA : MainA;
PROGRAM PB WITH TB : MainB;
END_CONFIGURATION

PROGRAM MainA
VAR_EXTERNAL g : INT; END_VAR
VAR a : INT; i : INT; acc : Acc; END_VAR
a := Twice(x := a) - a;
FOR i := INT#1 TO INT#2 DO
  g := g + i;
END_FOR;
acc(inc := INT#1);
IF g > INT#1000 THEN g := INT#0; END_IF;
END_PROGRAM

PROGRAM MainB
VAR_EXTERNAL g : INT; END_VAR
VAR b : INT; END_VAR
b := Twice(x := INT#3);
g := g + INT#1;
END_PROGRAM
"#;

/// 1-based source line of the first line containing `needle`.
fn line_of(needle: &str) -> u32 {
    ST_PROGRAM.lines().position(|l| l.contains(needle)).unwrap_or_else(|| panic!("no line with {needle}")) as u32 + 1
}

/// Breakpoint candidates: simple statements only (a breakpoint on a compound statement overlaps
/// its whole body).  id -> (line, thread that executes it, call depth).
pub fn candidates() -> Vec<(u32, u32)> {
    vec![
        (line_of("a := Twice(x := a) - a;"), 1), // 1: task A, first statement
        (line_of("g := g + i;"), 1),             // 2: task A, loop body (twice per cycle)
        (line_of("Twice := x + x;"), 0),         // 3: callee, both tasks (three times per cycle)
        (line_of("g := g + INT#1;"), 2),         // 4: task B, last statement
    ]
}

// ------------------------------------------------------------------------------- client
#[derive(Default)]
struct Inbox {
    msgs: Vec<J>, // in wire order
    eof: bool,
}

struct Client {
    child: Child,
    stdin: Option<ChildStdin>,
    inbox: Arc<(Mutex<Inbox>, Condvar)>,
    seq: i64,
    /// client-side observation log: {"c":"send","seq":..,"cmd":..} / {"c":"recv","msg":..}; recv entries are
    /// appended by index into inbox, see `events`.
    sent: Vec<(usize, J)>, // client operations in program order: (wire messages seen so far, request | marker)
    reader: Option<std::thread::JoinHandle<()>>,
}

fn read_frame<R: BufRead>(r: &mut R) -> Option<String> {
    let mut len = None;
    let mut line = String::new();
    loop {
        line.clear();
        if r.read_line(&mut line).ok()? == 0 {
            return None;
        }
        let t = line.trim_end_matches(['\r', '\n']);
        if t.is_empty() {
            break;
        }
        if let Some((k, v)) = t.split_once(':') {
            if k.trim().eq_ignore_ascii_case("content-length") {
                len = v.trim().parse::<usize>().ok();
            }
        }
    }
    let mut buf = vec![0u8; len?];
    r.read_exact(&mut buf).ok()?;
    String::from_utf8(buf).ok()
}

impl Client {
    /// `pin`: run every thread of the adapter on this one CPU (the threads then interleave at their blocking
    /// points and wake-ups only, which makes the windows between two critical sections easy to hit).
    fn spawn(log: &str, stderr: &str, pin: Option<usize>) -> Client {
        use std::os::unix::process::CommandExt;
        let exe = std::fs::read_link("/proc/self/exe").expect("self exe");
        let errf = std::fs::File::create(stderr).expect("stderr file");
        let mut cmd = Command::new(exe);
        if let Some(cpu) = pin {
            unsafe {
                cmd.pre_exec(move || {
                    let mut set: libc::cpu_set_t = std::mem::zeroed();
                    libc::CPU_SET(cpu, &mut set);
                    libc::sched_setaffinity(0, std::mem::size_of::<libc::cpu_set_t>(), &set);
                    Ok(())
                });
            }
        }
        let mut child = cmd
            .arg("dap-child")
            .env("ST_DEBUG_TRACE", "1")
            .env_remove("ST_DEBUG_TRACE_LOG")
            .env("ST_DEBUG_DAP_LOG", log)
            .env_remove("ST_DEBUG_DAP_VERBOSE")
            .env("RUST_BACKTRACE", "0")
            .stdin(Stdio::piped())
            .stdout(Stdio::piped())
            .stderr(Stdio::from(errf))
            .spawn()
            .expect("spawn dap-child");
        let stdout = child.stdout.take().unwrap();
        let stdin = child.stdin.take();
        let inbox: Arc<(Mutex<Inbox>, Condvar)> = Arc::new((Mutex::new(Inbox::default()), Condvar::new()));
        let ib = inbox.clone();
        let reader = std::thread::spawn(move || {
            let mut r = BufReader::new(stdout);
            loop {
                let f = read_frame(&mut r);
                let mut g = ib.0.lock().unwrap();
                match f {
                    Some(s) => match serde_json::from_str::<J>(&s) {
                        Ok(v) => g.msgs.push(v),
                        Err(_) => g.msgs.push(json!({"type": "garbage", "raw": s})),
                    },
                    None => {
                        g.eof = true;
                        ib.1.notify_all();
                        return;
                    }
                }
                ib.1.notify_all();
            }
        });
        Client { child, stdin, inbox, seq: 0, sent: Vec::new(), reader: Some(reader) }
    }

    fn seen(&self) -> usize {
        self.inbox.0.lock().unwrap().msgs.len()
    }

    fn frame(&mut self, cmd: &str, args: J, seen: usize) -> Vec<u8> {
        self.seq += 1;
        let req = json!({"seq": self.seq, "type": "request", "command": cmd, "arguments": args});
        let body = req.to_string();
        self.sent.push((seen, req));
        format!("Content-Length: {}\r\n\r\n{}", body.len(), body).into_bytes()
    }

    /// One write syscall for all the given requests.  Returns how many wire messages the client had seen when it
    /// sent them (one value for the whole write: the client's knowledge at that moment), or None if stdin is gone.
    fn send_many(&mut self, reqs: &[(String, J)]) -> Option<usize> {
        let seen = self.seen();
        let mut bytes = Vec::new();
        for (c, a) in reqs {
            bytes.extend(self.frame(c, a.clone(), seen));
        }
        let ok = match self.stdin.as_mut() {
            Some(s) => s.write_all(&bytes).and_then(|_| s.flush()).is_ok(),
            None => false,
        };
        ok.then_some(seen)
    }

    /// Wait until `pred(inbox)` holds, the stream ends, or the deadline passes.
    fn wait<F: Fn(&Inbox) -> bool>(&self, pred: F, timeout: Duration) -> bool {
        let t0 = Instant::now();
        let mut g = self.inbox.0.lock().unwrap();
        loop {
            if pred(&g) {
                return true;
            }
            if g.eof {
                return false;
            }
            let el = t0.elapsed();
            if el >= timeout {
                return false;
            }
            g = self.inbox.1.wait_timeout(g, (timeout - el).min(Duration::from_millis(50))).unwrap().0;
        }
    }

    fn answered(ib: &Inbox, upto: i64) -> bool {
        (1..=upto).all(|s| ib.msgs.iter().any(|m| m["type"] == "response" && m["request_seq"] == s))
    }
}

// ------------------------------------------------------------------------------- transcript
const RT: &str = "## [trust-runtime][debug] ";
const MARKS: [&str; 3] = ["<- {", "-> {", "## [trust-debug]"];

/// The runtime writes a trace line with three write() calls (prefix, message, newline) while the
/// adapter's transcript lines arrive in one write(): transcript lines can land inside a runtime
/// line ("prefix | lines | message" or "prefix message | lines | newline").  `Transcript::raw_line`
/// undoes that; the embedded lines come first (the runtime line's critical section was still open
/// when they were written).
fn field<'a>(line: &'a str, key: &str) -> Option<&'a str> {
    let i = line.find(&format!("{key}="))? + key.len() + 1;
    Some(line[i..].split(' ').next().unwrap())
}
fn opt_num(s: &str) -> i64 {
    if let Some(r) = s.strip_prefix("Some(") {
        r.trim_end_matches(')').parse().unwrap_or(-1)
    } else {
        -1
    }
}
/// "file:start..end" -> 1-based source line of `start`
fn loc_line(loc: &str) -> i64 {
    let Some((_, r)) = loc.split_once(':') else { return -1 };
    let Some((s, _)) = r.split_once("..") else { return -1 };
    let Ok(off) = s.parse::<usize>() else { return -1 };
    ST_PROGRAM.as_bytes()[..off.min(ST_PROGRAM.len())].iter().filter(|b| **b == b'\n').count() as i64 + 1
}

/// Incremental view of the transcript: events + the counters the quiescence test needs.
#[derive(Default)]
struct Transcript {
    offset: usize,   // bytes consumed (up to the last complete line)
    events: Vec<J>,  // in file order
    hook_waiting: bool,
    await_msg: bool, // a runtime prefix was seen whose message has not arrived yet
    mode_paused: bool,  // DebugControl mode as of the last logged action / stop
    resume_due: bool,   // a resuming action was applied while the hook waited and the hook has not reacted yet
    in_hook_gen: i64, // generation of the last hook.pause.enter (-1 none) until its stop line
    n_stop: usize,
    n_recv: usize,
    n_decided: usize,
    n_emit: usize,
    bad: Vec<String>,
}

impl Transcript {
    fn feed(&mut self, path: &str) {
        let Ok(bytes) = std::fs::read(path) else { return };
        if bytes.len() <= self.offset {
            return;
        }
        let new = &bytes[self.offset..];
        let Some(last_nl) = new.iter().rposition(|b| *b == b'\n') else { return };
        let chunk = String::from_utf8_lossy(&new[..last_nl]).to_string();
        self.offset += last_nl + 1;
        for l in chunk.split('\n') {
            self.raw_line(l);
        }
    }

    fn raw_line(&mut self, l: &str) {
        let marked = |t: &str| MARKS.iter().any(|m| t.starts_with(m));
        if self.await_msg {
            if marked(l) {
                self.line(l);
            } else {
                self.await_msg = false;
                // the message may again be followed by embedded lines before its newline
                match MARKS.iter().filter_map(|m| l.find(m)).min() {
                    Some(pos) => {
                        let (msg, emb) = l.split_at(pos);
                        self.line(emb);
                        self.line(&format!("{RT}{msg}"));
                    }
                    None => self.line(&format!("{RT}{l}")),
                }
            }
            return;
        }
        if let Some(rest) = l.strip_prefix(RT) {
            if let Some(pos) = MARKS.iter().filter_map(|m| rest.find(m)).min() {
                let (msg, emb) = rest.split_at(pos);
                self.line(emb);
                if msg.is_empty() {
                    self.await_msg = true;
                } else {
                    self.line(&format!("{RT}{msg}"));
                }
                return;
            }
        }
        if !l.is_empty() {
            self.line(l);
        }
    }

    fn line(&mut self, line: &str) {
        if let Some(m) = line.strip_prefix(RT) {
            let need = |k: &str| field(m, k).unwrap_or("");
            if m.starts_with("action=") {
                let act = need("action");
                let kind = act.split('(').next().unwrap_or("");
                let th = if act.contains("Some(") { opt_num(&act[act.find("Some(").unwrap()..act.len() - 1]) } else { -1 };
                let (mb, ma) = need("mode").split_once("->").unwrap_or(("", ""));
                self.mode_paused = ma == "Paused";
                if ma == "Running" && self.hook_waiting {
                    self.resume_due = true;
                }
                self.events.push(json!({"a": "Act", "kind": kind, "th": th, "outcome": need("outcome"), "mb": mb, "ma": ma}));
            } else if m.starts_with("breakpoints.set") {
                self.events.push(json!({"a": "SetBps", "gen": need("generation").parse::<i64>().unwrap_or(-1), "n": need("requested").parse::<i64>().unwrap_or(-1)}));
            } else if m.starts_with("breakpoints.clear") {
                self.events.push(json!({"a": "ClearBps"}));
            } else if m.starts_with("hook.pause.enter") {
                self.in_hook_gen = opt_num(need("generation"));
            } else if m.starts_with("hook.entry") || m.starts_with("hook.wake") {
                self.in_hook_gen = -1;
                if m.starts_with("hook.wake") {
                    self.events.push(json!({"a": "RtWake", "mode": need("mode")}));
                }
            } else if m.starts_with("stop reason=") {
                // location=Some(SourceLocation { file_id: 0, start: 513, end: 537 })
                let num = |k: &str| m.find(k).map(|i| m[i + k.len()..].chars().take_while(|c| c.is_ascii_digit()).collect::<String>()).unwrap_or_default();
                let loc = format!("{}:{}..{}", num("file_id: "), num("start: "), num("end: "));
                let th = m.rfind("thread=").map(|i| opt_num(m[i + 7..].trim())).unwrap_or(-1);
                self.n_stop += 1;
                self.mode_paused = true;
                self.resume_due = false;
                self.events.push(json!({"a": "RtStop", "reason": need("reason"), "th": th, "gen": self.in_hook_gen, "line": loc_line(&loc)}));
                self.in_hook_gen = -1;
            } else if m.starts_with("hook.wait") {
                self.hook_waiting = true;
            } else if m.starts_with("hook.exit") {
                if self.hook_waiting {
                    self.hook_waiting = false;
                    self.resume_due = false;
                    self.events.push(json!({"a": "RtResume"}));
                }
            }
        } else if let Some(m) = line.strip_prefix("## [trust-debug][stop] ") {
            let need = |k: &str| field(m, k).unwrap_or("");
            let act = need("action");
            let reason = match need("reason") { "breakpoint" => "Breakpoint", "step" => "Step", "pause" => "Pause", "entry" => "Entry", o => o }.to_string();
            let detail = m.split_once("detail=").map(|x| x.1).unwrap_or("");
            let why = if detail.contains("generation mismatch") { "generation" } else if detail.contains("without pause_expected") { "pause_expected" } else if detail.is_empty() { "" } else { "other" };
            let a = match act { "recv" => "CRecv", "emit" => "CEmit", "drop" => "CDrop", _ => "CUnknown" };
            match act {
                "recv" => self.n_recv += 1,
                "emit" => { self.n_decided += 1; self.n_emit += 1 }
                "drop" => self.n_decided += 1,
                _ => self.bad.push(line.to_string()),
            }
            self.events.push(json!({"a": a, "reason": reason, "th": opt_num(need("thread")), "gen": opt_num(need("bp_gen")), "line": loc_line(need("location")), "why": why}));
        } else if let Some(p) = line.strip_prefix("<- ") {
            match serde_json::from_str::<J>(p) {
                Ok(v) => self.events.push(json!({"a": "Read", "seq": v["seq"], "cmd": v["command"]})),
                Err(_) => self.bad.push(line.to_string()),
            }
        } else if let Some(p) = line.strip_prefix("-> ") {
            match serde_json::from_str::<J>(p) {
                Ok(v) => {
                    if v["type"] == "response" {
                        self.events.push(json!({"a": "Log", "seq": v["seq"], "kind": "response", "rseq": v["request_seq"], "cmd": v["command"]}));
                    } else if v["event"] == "stopped" || v["event"] == "terminated" {
                        self.events.push(json!({"a": "Log", "seq": v["seq"], "kind": v["event"]}));
                    } else if v["event"] == "output" && v["body"]["output"].as_str().is_some_and(|s| s.contains("runner started")) {
                        self.events.push(json!({"a": "RunnerStarted", "seq": v["seq"]}));
                    }
                }
                Err(_) => self.bad.push(line.to_string()),
            }
        } else {
            self.bad.push(line.to_string());
        }
    }

    /// every stop the runtime emitted was received and decided by the coordinator
    fn stops_settled(&self) -> bool {
        self.n_stop == self.n_recv && self.n_recv == self.n_decided
    }
}

// ------------------------------------------------------------------------------- script execution
const RESP_TIMEOUT: Duration = Duration::from_secs(20);

fn is_resume(cmd: &str) -> bool {
    matches!(cmd, "continue" | "next" | "stepIn" | "stepOut")
}

struct Exec {
    c: Client,
    log: String,
    tr: Transcript,
    path: String,
    /// number of wire messages seen when the last resume request was sent
    resume_at: usize,
    batch: Vec<(String, J)>,
    wedged: bool,
    handshake_seqs: i64,
}

impl Exec {
    fn view_stopped(&self) -> Option<i64> {
        if self.batch.iter().any(|(c, _)| is_resume(c)) {
            return None; // a resume is already on its way out: the client regards the debuggee as running
        }
        let g = self.c.inbox.0.lock().unwrap();
        g.msgs.iter().enumerate().filter(|(i, m)| *i >= self.resume_at && m["event"] == "stopped").last().map(|(_, m)| m["body"]["threadId"].as_i64().unwrap_or(-1))
    }

    fn args_for(&self, r: &J) -> (String, J) {
        let cmd = r["cmd"].as_str().unwrap_or("").to_string();
        let th = r["th"].as_i64().unwrap_or(1);
        let a = match cmd.as_str() {
            "setBreakpoints" => {
                let cands = candidates();
                let bps: Vec<J> = r["ids"].as_array().map(|v| v.iter().filter_map(|i| i.as_u64()).filter_map(|i| cands.get(i as usize - 1)).map(|c| json!({"line": c.0})).collect()).unwrap_or_default();
                json!({"source": {"path": self.path}, "breakpoints": bps})
            }
            "threads" | "disconnect" | "configurationDone" => json!({}),
            _ => json!({"threadId": th}),
        };
        (cmd, a)
    }

    fn flush_batch(&mut self) {
        if self.batch.is_empty() {
            return;
        }
        let reqs = std::mem::take(&mut self.batch);
        match self.c.send_many(&reqs) {
            Some(seen) => {
                if reqs.iter().any(|(c, _)| is_resume(c)) {
                    self.resume_at = seen; // the same count the Send events carry: view and trace cannot disagree
                }
            }
            None => {
                self.wedged = true;
                let seen = self.c.seen();
                self.c.sent.push((seen, json!({"a": "Wedge", "what": "stdin-closed"})));
            }
        }
    }

    fn queue(&mut self, r: &J) {
        let gap = r["gap"].as_i64().unwrap_or(0);
        if gap >= 0 {
            self.flush_batch();
            if gap > 0 {
                std::thread::sleep(Duration::from_micros(gap as u64));
            }
        }
        let ra = self.args_for(r);
        self.batch.push(ra);
    }

    fn sync(&mut self) -> bool {
        self.flush_batch();
        let upto = self.c.seq;
        if self.c.wait(|ib| Client::answered(ib, upto), RESP_TIMEOUT) {
            return true;
        }
        let seen = self.c.seen();
        let missing: Vec<i64> = {
            let g = self.c.inbox.0.lock().unwrap();
            (1..=upto).filter(|s| !g.msgs.iter().any(|m| m["type"] == "response" && m["request_seq"] == *s)).collect()
        };
        let cmd = self.c.sent.iter().find(|(_, r)| r["type"] == "request" && r["seq"] == missing.first().copied().unwrap_or(0)).map(|(_, r)| r["command"].clone()).unwrap_or(J::Null);
        self.c.sent.push((seen, json!({"a": "Wedge", "what": "no-response", "cmd": cmd, "eof": self.c.inbox.0.lock().unwrap().eof})));
        self.wedged = true;
        false
    }

    /// Quiescent and stopped, established from positive signals only: every request answered, the
    /// hook is in its wait, every stop the runtime emitted was received and decided by the
    /// coordinator, and every `stopped` event it emitted has reached the client.  Nothing can move
    /// from such a state until the client sends something.
    fn quiescent_stopped(&mut self) -> bool {
        let upto = self.c.seq;
        let n1 = self.c.seen();
        self.tr.feed(&self.log);
        if !(self.tr.hook_waiting && self.tr.mode_paused && !self.tr.resume_due && self.tr.stops_settled()) {
            return false;
        }
        let reads = self.tr.events.iter().filter(|e| e["a"] == "Read").count() as i64;
        {
            let g = self.c.inbox.0.lock().unwrap();
            let stopped = g.msgs.iter().filter(|m| m["event"] == "stopped").count();
            if !(g.msgs.len() == n1 && reads == upto && Client::answered(&g, upto) && stopped >= self.tr.n_emit) {
                return false;
            }
        }
        // ... and no thread of the adapter is running or runnable (a coordinator that has logged a decision and is about
        // to act on it - the repaired drop-and-resume - is), with nothing logged in the meantime
        let (len, off) = (self.tr.events.len(), self.tr.offset);
        let pid = self.c.child.id();
        let Ok(rd) = std::fs::read_dir(format!("/proc/{pid}/task")) else { return false };
        for t in rd.flatten() {
            let stat = std::fs::read_to_string(t.path().join("stat")).unwrap_or_default();
            // "tid (comm) S ..." - the state follows the last ')'
            let state = stat.rsplit(')').next().and_then(|r| r.trim_start().chars().next()).unwrap_or('?');
            if state != 'S' {
                return false;
            }
        }
        self.tr.feed(&self.log);
        len == self.tr.events.len() && off == self.tr.offset && self.c.seen() == n1
    }

    fn quiesce(&mut self, budget: Duration, probe: bool) -> bool {
        if !self.sync() {
            return false;
        }
        let t0 = Instant::now();
        loop {
            if self.quiescent_stopped() {
                break;
            }
            if t0.elapsed() >= budget {
                return false;
            }
            std::thread::sleep(Duration::from_micros(500));
        }
        let view = self.view_stopped();
        let mut frame_line = -1i64;
        let mut frames = -1i64;
        if probe {
            if let Some(th) = view {
                self.queue(&json!({"cmd": "stackTrace", "th": th, "gap": 0}));
                if !self.sync() {
                    return false;
                }
                let upto = self.c.seq;
                let g = self.c.inbox.0.lock().unwrap();
                if let Some(m) = g.msgs.iter().find(|m| m["type"] == "response" && m["request_seq"] == upto) {
                    let fr = m["body"]["stackFrames"].as_array().cloned().unwrap_or_default();
                    frames = fr.len() as i64;
                    frame_line = fr.first().and_then(|f| f["line"].as_i64()).unwrap_or(-1);
                }
            }
        }
        let seen = self.c.seen();
        let trlen = self.tr.events.len();
        self.c.sent.push((seen, json!({"a": "Quiesce", "trlen": trlen, "view": if view.is_some() { "stopped" } else { "running" }, "shownTh": view.unwrap_or(-1), "frames": frames, "frameLine": frame_line})));
        true
    }

    fn step(&mut self, st: &J) {
        if self.wedged {
            return;
        }
        match st["op"].as_str().unwrap_or("") {
            "req" => self.queue(st),
            "seq" => {
                for sub in st["steps"].as_array().cloned().unwrap_or_default() {
                    self.step(&sub);
                }
            }
            "cond" => {
                let alt = if self.view_stopped().is_some() { &st["stopped"] } else { &st["running"] };
                if alt.is_object() {
                    let alt = alt.clone();
                    self.step(&alt);
                }
            }
            "wait" => {
                self.flush_batch();
                let at = self.resume_at;
                let ms = st["ms"].as_u64().unwrap_or(100);
                self.c.wait(|ib| ib.msgs.iter().enumerate().any(|(i, m)| i >= at && m["event"] == "stopped"), Duration::from_millis(ms));
            }
            "sync" => {
                self.sync();
            }
            "sleep" => {
                self.flush_batch();
                std::thread::sleep(Duration::from_micros(st["us"].as_u64().unwrap_or(0)));
            }
            "quiesce" => {
                let ms = st["ms"].as_u64().unwrap_or(100);
                self.quiesce(Duration::from_millis(ms), st["probe"].as_bool().unwrap_or(true));
            }
            _ => {}
        }
    }
}

/// Merge the transcript (file order) with what the client observed (its own order): a message is
/// received after it was logged, a request is sent before it is read.  Each client event is put
/// at the earliest transcript position that respects this and the client's own order; that
/// position is never later than the real write / never earlier than the real send.
fn merge(tr: &[J], client: &[J]) -> Result<Vec<J>, String> {
    let mut at: Vec<Vec<&J>> = vec![Vec::new(); tr.len() + 1]; // client events placed before transcript index i
    let mut p = 0usize;
    for c in client {
        match c["a"].as_str().unwrap_or("") {
            "Recv" => {
                let seq = &c["seq"];
                let idx = tr.iter().position(|e| e["a"] == "Log" && &e["seq"] == seq).ok_or_else(|| format!("received message seq {seq} is not in the transcript"))?;
                p = p.max(idx + 1);
            }
            "Send" => {
                let seq = &c["seq"];
                let idx = tr.iter().position(|e| e["a"] == "Read" && &e["seq"] == seq);
                if let Some(idx) = idx {
                    if p > idx {
                        return Err(format!("request {seq} was read before the client sent it (transcript order broken)"));
                    }
                }
            }
            _ => {
                // Quiesce describes the state after everything logged up to the moment it was established;
                // a Wedge ends the run
                if c["a"] == "Quiesce" {
                    p = p.max(c["trlen"].as_u64().unwrap_or(0) as usize).min(tr.len());
                } else {
                    p = tr.len();
                }
            }
        }
        at[p].push(c);
    }
    let mut out = Vec::new();
    for i in 0..=tr.len() {
        for c in &at[i] {
            out.push((*c).clone());
        }
        if i < tr.len() {
            out.push(tr[i].clone());
        }
    }
    Ok(out)
}

fn run_one(script: &J, work: &str) -> Result<Vec<J>, String> {
    std::fs::create_dir_all(work).map_err(|e| e.to_string())?;
    let path = format!("{work}/main.st");
    std::fs::write(&path, ST_PROGRAM).map_err(|e| e.to_string())?;
    let path = std::fs::canonicalize(&path).map_err(|e| e.to_string())?.to_string_lossy().to_string();
    let log = format!("{work}/transcript.log");
    let _ = std::fs::remove_file(&log);
    let sock = format!("{work}/ctl.sock");
    let _ = std::fs::remove_file(&sock);
    let entry = script["entry"].as_bool().unwrap_or(false);
    let mut x = Exec {
        c: Client::spawn(&log, &format!("{work}/stderr.txt"), script["pin"].as_u64().map(|c| {
            let n = std::thread::available_parallelism().map(|n| n.get()).unwrap_or(1);
            c as usize % n
        })),
        log: log.clone(),
        tr: Transcript::default(),
        path: path.clone(),
        resume_at: 0,
        batch: Vec::new(),
        wedged: false,
        handshake_seqs: 0,
    };
    // ---- handshake (not part of the validated trace)
    x.batch.push(("initialize".into(), json!({"adapterID": "tpv", "linesStartAt1": true, "columnsStartAt1": true})));
    if !x.sync() {
        x.c.kill();
        return Err("handshake: no initialize response".into());
    }
    if script["bps0"].as_array().is_some_and(|v| !v.is_empty()) {
        let r = json!({"cmd": "setBreakpoints", "ids": script["bps0"], "gap": 0});
        x.queue(&r);
    }
    x.flush_batch();
    x.batch.push(("launch".into(), json!({"program": path, "stopOnEntry": entry, "controlEndpoint": format!("unix://{sock}")})));
    x.batch.push(("configurationDone".into(), json!({})));
    x.flush_batch();
    let started = x.c.wait(|ib| ib.msgs.iter().any(|m| m["event"] == "output" && m["body"]["output"].as_str().is_some_and(|s| s.contains("runner started"))), RESP_TIMEOUT);
    if !started || !x.sync() {
        let err = std::fs::read_to_string(format!("{work}/stderr.txt")).unwrap_or_default();
        x.c.kill();
        return Err(format!("handshake: launch did not complete: {}", err.lines().filter(|l| !l.contains("[trust-runtime][debug]")).take(5).collect::<Vec<_>>().join(" | ")));
    }
    {
        let g = x.c.inbox.0.lock().unwrap();
        if let Some(m) = g.msgs.iter().find(|m| m["type"] == "response" && m["command"] == "launch") {
            if m["success"] != true {
                let msg = m["message"].to_string();
                drop(g);
                x.c.kill();
                return Err(format!("handshake: launch failed: {msg}"));
            }
        }
    }
    x.handshake_seqs = x.c.seq;
    // "sched": "others-first" = every thread of the adapter except its main thread gets a real-time priority (with
    // `pin`: on one CPU), so that a thread the main thread wakes up runs before the main thread goes on.  A legal
    // schedule, chosen from outside; used to hit the window between a resuming action and what follows it.
    // "main-first" is the opposite: the main thread gets the real-time priority, i.e. it handles a pipelined request
    // before a thread it has just woken up runs.
    // "runner-main-coord": the cycle thread (the adapter's youngest thread: start_runner is the last thing the launch
    // does) above the main thread above everything else, i.e. the coordinator only runs when both are blocked: a stop
    // the cycle thread decides while the main thread works through a pipeline is looked at after the pipeline.
    if script["sched"] == "runner-main-coord" {
        let pid = x.c.child.id() as i32;
        let mut tids: Vec<i32> = std::fs::read_dir(format!("/proc/{pid}/task")).map(|rd| rd.flatten().filter_map(|t| t.file_name().to_string_lossy().parse::<i32>().ok()).collect()).unwrap_or_default();
        tids.sort();
        let mut ok = 0;
        if let Some(runner) = tids.last().copied().filter(|t| *t != pid) {
            for (tid, prio) in [(runner, 20), (pid, 10)] {
                let prm = libc::sched_param { sched_priority: prio };
                if unsafe { libc::sched_setscheduler(tid, libc::SCHED_FIFO, &prm) } == 0 {
                    ok += 1;
                }
            }
        }
        if ok < 2 {
            eprintln!("dap-run: script {}: could not set the real-time priorities", script["id"]);
        }
    }
    if script["sched"] == "others-first" || script["sched"] == "main-first" {
        let main_first = script["sched"] == "main-first";
        let pid = x.c.child.id() as i32;
        let mut n = 0;
        if let Ok(rd) = std::fs::read_dir(format!("/proc/{pid}/task")) {
            for t in rd.flatten() {
                if let Ok(tid) = t.file_name().to_string_lossy().parse::<i32>() {
                    if (tid == pid) == main_first {
                        let prm = libc::sched_param { sched_priority: 10 };
                        if unsafe { libc::sched_setscheduler(tid, libc::SCHED_FIFO, &prm) } == 0 {
                            n += 1;
                        }
                    }
                }
            }
        }
        if n == 0 {
            // no permission: the script runs under the default schedule (its window is then hit by chance only)
            eprintln!("dap-run: script {}: could not set a real-time priority on any adapter thread", script["id"]);
        }
    }
    // ---- the script
    for st in script["steps"].as_array().cloned().unwrap_or_default() {
        x.step(&st);
    }
    // ---- final probe: bring the debuggee to a stop we can judge, then disconnect
    if !x.wedged {
        x.sync();
    }
    if !x.wedged && !x.quiesce(Duration::from_millis(60), true) && !x.wedged {
        x.queue(&json!({"cmd": "pause", "th": 1, "gap": 0}));
        if !x.quiesce(Duration::from_secs(20), true) && !x.wedged {
            x.wedged = true;
            let seen = x.c.seen();
            x.c.sent.push((seen, json!({"a": "Wedge", "what": "pause-not-honoured"})));
        }
    }
    let mut exit_code = -1i64;
    if !x.wedged {
        x.queue(&json!({"cmd": "disconnect", "gap": 0}));
        x.flush_batch();
        let t0 = Instant::now();
        loop {
            match x.c.child.try_wait() {
                Ok(Some(st)) => {
                    exit_code = st.code().map(|c| c as i64).unwrap_or(-2);
                    break;
                }
                _ => {}
            }
            if t0.elapsed() > RESP_TIMEOUT {
                break;
            }
            std::thread::sleep(Duration::from_millis(2));
        }
        let seen_now = x.c.seen();
        if exit_code == -1 {
            x.wedged = true;
            x.c.sent.push((seen_now, json!({"a": "Wedge", "what": "disconnect-does-not-exit"})));
        }
    }
    x.c.kill();
    x.tr.feed(&log);
    if !x.tr.bad.is_empty() {
        return Err(format!("unparseable transcript line: {}", &x.tr.bad[0].chars().take(300).collect::<String>()));
    }
    let stderr = std::fs::read_to_string(format!("{work}/stderr.txt")).unwrap_or_default();
    let panic_line = stderr.lines().find(|l| l.contains("panicked at")).map(|s| s.to_string());
    // ---- client events in client order
    let msgs = x.c.inbox.0.lock().unwrap().msgs.clone();
    let hs = x.handshake_seqs;
    let mut client: Vec<J> = Vec::new();
    let mut ops = x.c.sent.iter().peekable();
    for k in 0..=msgs.len() {
        // everything the client did after having seen k messages, in program order
        while ops.peek().filter(|(seen, _)| *seen <= k).is_some() {
            let (_, r) = ops.next().unwrap();
            if r["type"] == "request" {
                if r["seq"].as_i64().unwrap_or(0) > hs {
                    let a = &r["arguments"];
                    client.push(json!({"a": "Send", "seq": r["seq"], "cmd": r["command"], "th": a["threadId"].as_i64().unwrap_or(-1),
                        "n": a["breakpoints"].as_array().map(|v| v.len() as i64).unwrap_or(-1)}));
                }
            } else {
                client.push(r.clone());
            }
        }
        if k < msgs.len() {
            let m = &msgs[k];
            if m["type"] == "response" {
                if m["request_seq"].as_i64().unwrap_or(0) > hs {
                    client.push(json!({"a": "Recv", "seq": m["seq"], "kind": "response", "rseq": m["request_seq"], "cmd": m["command"], "ok": m["success"]}));
                }
            } else if m["event"] == "stopped" {
                let r = m["body"]["reason"].as_str().unwrap_or("");
                let reason = match r { "breakpoint" => "Breakpoint", "step" => "Step", "pause" => "Pause", "entry" => "Entry", o => o };
                client.push(json!({"a": "Recv", "seq": m["seq"], "kind": "stopped", "reason": reason, "th": m["body"]["threadId"].as_i64().unwrap_or(-1)}));
            } else if m["event"] == "terminated" {
                client.push(json!({"a": "Recv", "seq": m["seq"], "kind": "terminated"}));
            }
        }
    }
    // ---- cut the handshake off the transcript
    let launch_idx = x.tr.events.iter().position(|e| e["a"] == "Log" && e["kind"] == "response" && e["cmd"] == "launch").ok_or("no launch response in the transcript")?;
    let mut gen0 = 0i64;
    let mut n0 = 0i64;
    for e in &x.tr.events[..launch_idx] {
        if e["a"] == "ClearBps" {
            gen0 = 0;
            n0 = 0;
        } else if e["a"] == "SetBps" {
            gen0 = e["gen"].as_i64().unwrap_or(0);
            n0 = e["n"].as_i64().unwrap_or(0);
        }
    }
    let keep = |i: usize, e: &J| i > launch_idx && e["a"] != "RunnerStarted" && !(e["a"] == "Log" && e["kind"] == "response" && e["rseq"].as_i64().unwrap_or(0) <= hs)
        && !(e["a"] == "Read" && e["seq"].as_i64().unwrap_or(0) <= hs);
    let tr: Vec<J> = x.tr.events.iter().enumerate().filter(|(i, e)| keep(*i, e)).map(|(_, e)| e.clone()).collect();
    for c in client.iter_mut() {
        if let Some(n) = c["trlen"].as_u64() {
            let rel = x.tr.events.iter().enumerate().filter(|(i, e)| (*i as u64) < n && keep(*i, e)).count();
            c["trlen"] = json!(rel);
        }
    }
    // request numbers relative to the script (the handshake used 1..hs)
    let renum = |e: &mut J| {
        for k in ["seq", "rseq"] {
            let is_req_no = (k == "seq" && (e["a"] == "Send" || e["a"] == "Read")) || (k == "rseq");
            if is_req_no {
                if let Some(v) = e[k].as_i64() {
                    e[k] = json!(v - hs);
                }
            }
        }
    };
    let mut tr = tr;
    tr.iter_mut().for_each(renum);
    client.iter_mut().for_each(renum);
    let mut out = vec![json!({"a": "Reset", "id": script["id"], "kind": script["kind"], "entry": entry, "gen": gen0, "nbps": n0})];
    out.extend(merge(&tr, &client)?);
    match (&panic_line, x.wedged) {
        (Some(p), _) => out.push(json!({"a": "Panic", "msg": p.chars().take(200).collect::<String>()})),
        (None, true) => {}
        (None, false) => out.push(json!({"a": "Exit", "code": exit_code})),
    }
    Ok(out)
}

impl Client {
    fn kill(&mut self) {
        self.stdin = None;
        let _ = self.child.kill();
        let _ = self.child.wait();
        if let Some(r) = self.reader.take() {
            let _ = r.join();
        }
    }
}

pub fn run(args: &[String]) -> i32 {
    let scripts = read_ndjson(arg(args, "--scripts").expect("--scripts"));
    let work = arg(args, "--work").expect("--work").to_string();
    let jobs = arg_u64(args, "--jobs", 6) as usize;
    let out_path = arg(args, "--out").expect("--out").to_string();
    let next = Arc::new(Mutex::new(0usize));
    let results: Arc<Mutex<Vec<Option<Result<Vec<J>, String>>>>> = Arc::new(Mutex::new(vec![None; scripts.len()]));
    let scripts = Arc::new(scripts);
    let wedges = Arc::new(std::sync::atomic::AtomicUsize::new(0));
    let mut hs = Vec::new();
    for w in 0..jobs.max(1) {
        let (next, results, scripts, work, wedges) = (next.clone(), results.clone(), scripts.clone(), work.clone(), wedges.clone());
        hs.push(std::thread::spawn(move || loop {
            let i = {
                let mut g = next.lock().unwrap();
                let i = *g;
                *g += 1;
                i
            };
            if i >= scripts.len() {
                return;
            }
            // enough is enough: once this many runs have ended in a wedge (each costs the full timeout) the rest is skipped
            if wedges.load(std::sync::atomic::Ordering::SeqCst) >= 24 {
                results.lock().unwrap()[i] = Some(Ok(vec![json!({"a": "Reset", "id": scripts[i]["id"], "kind": "skipped", "entry": false, "gen": 0, "nbps": 0})]));
                continue;
            }
            let r = run_one(&scripts[i], &format!("{work}/w{w}"));
            if let Ok(evs) = &r {
                if evs.iter().any(|e| e["a"] == "Wedge") {
                    wedges.fetch_add(1, std::sync::atomic::Ordering::SeqCst);
                }
            }
            if r.is_err() {
                let _ = std::fs::copy(format!("{work}/w{w}/transcript.log"), format!("{work}/error-{i}.transcript.log"));
                let _ = std::fs::copy(format!("{work}/w{w}/stderr.txt"), format!("{work}/error-{i}.stderr.txt"));
            }
            results.lock().unwrap()[i] = Some(r);
        }));
    }
    for h in hs {
        let _ = h.join();
    }
    let mut o = Out::create(&out_path);
    let res = results.lock().unwrap();
    let mut errs = 0;
    for (i, r) in res.iter().enumerate() {
        match r {
            Some(Ok(evs)) => {
                for e in evs {
                    o.line(e);
                }
            }
            Some(Err(e)) => {
                errs += 1;
                eprintln!("dap-run: script {i}: {e}");
            }
            None => {
                errs += 1;
                eprintln!("dap-run: script {i}: not run");
            }
        }
    }
    o.flush();
    eprintln!("dap-run: scripts={} tool_errors={errs}", scripts.len());
    if errs > 0 { 2 } else { 0 }
}
