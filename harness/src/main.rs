//! tpv — conformance harness binding the TLA+ specification in /verif/spec to the real
//! trust-platform code.  Every sub-command either turns scripts (the environment's half of
//! a behaviour) into recorded ndjson traces of the real code, or generates scripts.
mod confcli;
mod cycle;
mod dbgwrite;
mod dbgep;
mod dap;
mod debug;
mod det;
mod emit;
mod ctrlauth;
mod fb;
mod format;
mod resfault;
mod restartloop;
mod resource;
mod retain;
mod hirdb;
mod pairing;
mod parse;
mod projreg;
mod rename;
mod stbc;
mod stcore;
mod stfeat;
mod stlib;
mod util;
mod webide;

fn main() {
    let args: Vec<String> = std::env::args().skip(1).collect();
    let cmd = args.first().map(String::as_str).unwrap_or("");
    let rest = &args[args.len().min(1)..];
    let code = match cmd {
        "cycle-gen" => cycle::gen(rest),
        "cycle-run" => cycle::run(rest),
        "debug-run" => debug::run(rest),
        "dap-child" => dap::child(rest), "dap-run" => dap::run(rest),
        "det-child" => det::child(rest),
        "fb-gen" => fb::gen(rest),
        "fb-run" => fb::run(rest),
        "format-gen" => format::gen(rest), "format-run" => format::run(rest),
        "ctrlauth-gen" => ctrlauth::gen(rest), "ctrlauth-run" => ctrlauth::run(rest),
        "pairing-gen" => pairing::gen(rest), "pairing-run" => pairing::run(rest),
        "resource-run" => resource::run(rest),
        "stcore-gen" => stcore::gen(rest),
        "dbgwrite-run" => dbgwrite::run(rest),
        "meshwrite-run" => dbgwrite::mesh_run(rest),
        "emit-run" => emit::run(rest),
        "projreg-run" => projreg::run(rest),
        "retainmgr-run" => retain::mgr_run(rest),
        "resfault-run" => resfault::run(rest),
        "conf-run" => confcli::run(rest),
        "dbgep-run" => dbgep::run(rest),
        "restartloop-run" => restartloop::run(rest),
        "stfeat" => stfeat::run(rest),
        "stfeat-child" => stfeat::child(rest),
        "stfeat-one" => stfeat::one(rest),
        "stlib-run" => stlib::run(rest),
        "stlib-child" => stlib::child(rest),
        "stlib-confirm" => stlib::confirm_child(rest),
        "stwide" => stcore::wide(rest),
        "stwide-child" => stcore::wide_child(rest),
        "stwide-why" => stcore::wide_why(rest),
        "stcore-run" => stcore::run(rest),
        "retain-child" => retain::child(rest),
        "retain-run" => retain::run(rest),
        "hirdb-gen" => hirdb::gen(rest),
        "hirdb-run" => hirdb::run(rest),
        "parse-gen" => parse::gen(rest), "parse-run" => parse::run(rest),
        "rename-gen" => rename::gen(rest), "rename-run" => rename::run(rest),
        "stbc-gen" => stbc::gen(rest), "stbc-run" => stbc::run(rest),
        "webide-gen" => webide::gen(rest), "webide-run" => webide::run(rest),
        _ => {
            eprintln!("usage: tpv <sub-command> ...");
            2
        }
    };
    std::process::exit(code);
}
