//! Format domain (C15): the language server's formatter (`textDocument/formatting`,
//! `rangeFormatting`, `onTypeFormatting` of the real `trust-lsp` binary over stdio JSON-RPC,
//! configured through `workspace/didChangeConfiguration` `stLsp.format.*` and a workspace
//! `trust-lsp.toml` vendor profile) and the web IDE's own formatter
//! (`trust_runtime::web::ide::WebIdeState::format_source`).  The texts before and after are lexed
//! with the real lexer (`trust_syntax::lexer::lex`).
//!
//! A script is one text, one configuration vector and a list of requests.  For every script the
//! runner records one ndjson event per specification action (Format.tla) with the projected state:
//!
//!   Reset{id,fam,cfg:{maxLineLength,vendor,spacingStyle},doc,mlk,frag}
//!                                   a new document; doc = what the contract observes of a text:
//!                                   {dg, nt:[text..], nk:[kind..], cm:[text..], ln:[[n,c]..], ld:[digest..]}
//!                                   (dg digest of the text; nt text of the non-trivia tokens,
//!                                   keywords ASCII-upper-cased; nk their kinds, for reports only;
//!                                   cm comments and pragmas; ln per line the number of nt / cm
//!                                   entries that start on it; ld per line a digest of its text);
//!                                   mlk = kinds of the tokens that
//!                                   span lines; frag = the text holds an unterminated string
//!   FormatDoc{via,on,edits}         via "lsp"|"web"; on "source"|"formatted" (= the result of the
//!                                   previous FormatDoc on the source through the same path)
//!   FormatRange{sl,sc,el,ec,edits}  FormatOnType{l,c,ch,edits}
//!                                   edit = {ls,le,cut,nf,nl,cf,cl,nt,cm,ld,ldx} (see Format.tla part 1;
//!                                   ld / ldx: line digests of the new text without / with the
//!                                   empty piece after a final line terminator)
//!   ApplyEdits{doc,overlap}         the editor applied the edits of the preceding request to the
//!                                   text that request was made on
//!   Died{during,via,status} / Failed{during,via,code,msg} / Hang{during,via,secs} / Panic{during,via,msg}
//!
//! A panic of the web formatter is caught; a language server that dies, answers with a JSON-RPC
//! error or stops answering is recorded (a script on which the server is silent is run once more
//! on a fresh server before `Hang` is written).  Only the specification (FormatTrace) decides what
//! is a violation.
use crate::util::*;
use rand::{rngs::StdRng, seq::SliceRandom, Rng, SeedableRng};
use serde_json::{json, Value as J};
use sha2::{Digest, Sha256};
use std::io::{BufRead, BufReader, Read, Write};
use std::path::{Path, PathBuf};
use std::process::{Child, ChildStdin, Command, Stdio};
use std::sync::mpsc::{channel, Receiver, RecvTimeoutError};
use std::time::{Duration, Instant};
use trust_runtime::web::ide::{IdeRole, WebIdeState};
use trust_syntax::lexer::lex;

// ------------------------------------------------------------------------------------------
// projection: what the contract observes of a text
// ------------------------------------------------------------------------------------------
const WS: [char; 4] = [' ', '\t', '\r', '\n'];

/// Text of a comment / of a token that spans lines without the white space next to its line
/// breaks and at its end (Format.tla: CmNorm).
fn cm_norm(t: &str) -> String {
    let cs: Vec<char> = t.chars().collect();
    let mut out = String::new();
    let mut i = 0;
    while i < cs.len() {
        if !WS.contains(&cs[i]) {
            out.push(cs[i]);
            i += 1;
            continue;
        }
        let mut j = i;
        while j < cs.len() && WS.contains(&cs[j]) {
            j += 1;
        }
        if j == cs.len() {
            break;
        }
        if cs[i..j].contains(&'\n') {
            out.push('\n');
        } else {
            out.extend(&cs[i..j]);
        }
        i = j;
    }
    out
}

fn digest(t: &str) -> String {
    let mut h = Sha256::new();
    h.update(t.as_bytes());
    let d: String = h.finalize().iter().take(8).map(|b| format!("{b:02x}")).collect();
    format!("{}:{}", t.len(), d)
}

struct Tk {
    kind: String,
    start: usize,
    end: usize,
    code: bool,
    comment: bool,
    proj: String,
    line: usize,
}

fn line_starts(t: &str) -> Vec<usize> {
    let mut v = vec![0];
    for (i, b) in t.bytes().enumerate() {
        if b == b'\n' {
            v.push(i + 1);
        }
    }
    v
}
fn line_of(starts: &[usize], off: usize) -> usize {
    match starts.binary_search(&off) {
        Ok(i) => i,
        Err(i) => i - 1,
    }
}

/// The tokens of a text other than white space, projected.
fn tokens(t: &str) -> Vec<Tk> {
    let starts = line_starts(t);
    let mut out = Vec::new();
    for tok in lex(t) {
        let kind = format!("{:?}", tok.kind);
        if kind == "Whitespace" {
            continue;
        }
        let (s, e) = (usize::from(tok.range.start()), usize::from(tok.range.end()));
        let text = &t[s..e];
        let comment = tok.kind.is_trivia();
        let proj = if comment {
            cm_norm(text)
        } else if tok.kind.is_keyword() {
            text.to_ascii_uppercase()
        } else if text.contains('\n') || kind == "Error" {
            // a token that spans lines (an unterminated comment); an error token may also run to
            // the end of its line and take the blanks there with it
            cm_norm(text)
        } else {
            text.to_string()
        };
        out.push(Tk { kind, start: s, end: e, code: !comment, comment, proj, line: line_of(&starts, s) });
    }
    out
}

/// Identity of every line of a text (without its terminator).
fn line_digests(t: &str, drop_final_empty: bool) -> Vec<String> {
    let mut v: Vec<&str> = t.split('\n').collect();
    if drop_final_empty && v.len() > 1 && v.last() == Some(&"") {
        v.pop();
    }
    v.into_iter()
        .map(|l| {
            let l = l.strip_suffix('\r').unwrap_or(l);
            let mut h = Sha256::new();
            h.update(l.as_bytes());
            h.finalize().iter().take(4).map(|b| format!("{b:02x}")).collect()
        })
        .collect()
}

fn observe_toks(t: &str, toks: &[Tk]) -> J {
    let nlines = line_starts(t).len();
    let mut ln = vec![[0u32, 0u32]; nlines];
    for k in toks {
        ln[k.line][if k.code { 0 } else { 1 }] += 1;
    }
    json!({
        "dg": digest(t),
        "nt": toks.iter().filter(|k| k.code).map(|k| k.proj.as_str()).collect::<Vec<_>>(),
        "nk": toks.iter().filter(|k| k.code).map(|k| k.kind.as_str()).collect::<Vec<_>>(),
        "cm": toks.iter().filter(|k| k.comment).map(|k| k.proj.as_str()).collect::<Vec<_>>(),
        "ln": ln,
        "ld": line_digests(t, false),
    })
}
fn observe(t: &str) -> J {
    observe_toks(t, &tokens(t))
}

// ------------------------------------------------------------------------------------------
// the editor's half: positions, applying edits
// ------------------------------------------------------------------------------------------
#[derive(Clone, Debug)]
struct Edit {
    sl: usize,
    sc: usize,
    el: usize,
    ec: usize,
    new: String,
}

/// Byte offset of an LSP position (line, UTF-16 column); positions past the end of a line or of
/// the text are clamped as an editor does.
fn offset_of(t: &str, starts: &[usize], line: usize, col: usize) -> usize {
    if line >= starts.len() {
        return t.len();
    }
    let from = starts[line];
    let to = if line + 1 < starts.len() { starts[line + 1] - 1 } else { t.len() };
    let mut units = 0;
    for (i, ch) in t[from..to].char_indices() {
        if units >= col {
            return from + i;
        }
        units += ch.len_utf16();
    }
    to
}

fn parse_edits(result: &J) -> Result<Vec<Edit>, String> {
    let Some(arr) = result.as_array() else {
        return if result.is_null() { Ok(vec![]) } else { Err(format!("result is not a list of edits: {result}")) };
    };
    let mut out = Vec::new();
    for e in arr {
        let g = |a: &str, b: &str| e["range"][a][b].as_u64().map(|x| x as usize).ok_or_else(|| format!("bad edit {e}"));
        out.push(Edit {
            sl: g("start", "line")?,
            sc: g("start", "character")?,
            el: g("end", "line")?,
            ec: g("end", "character")?,
            new: e["newText"].as_str().ok_or_else(|| format!("bad edit {e}"))?.to_string(),
        });
    }
    Ok(out)
}

/// Applies the edits to the text; returns the new text, the projected edits, and whether two
/// edits overlap (then the later one in document order is dropped, as editors reject the batch).
fn apply_edits(t: &str, toks: &[Tk], edits: &[Edit]) -> (String, Vec<J>, bool) {
    let starts = line_starts(t);
    let mut spans: Vec<(usize, usize, &Edit)> = edits
        .iter()
        .map(|e| {
            let s = offset_of(t, &starts, e.sl, e.sc);
            let x = offset_of(t, &starts, e.el, e.ec);
            (s.min(x), s.max(x), e)
        })
        .collect();
    spans.sort_by_key(|x| (x.0, x.1));
    let mut overlap = false;
    let mut kept: Vec<(usize, usize, &Edit)> = Vec::new();
    for sp in spans {
        if let Some(last) = kept.last() {
            if sp.0 < last.1 {
                overlap = true;
                continue;
            }
        }
        kept.push(sp);
    }
    let mut out = String::with_capacity(t.len() + 64);
    let mut at = 0;
    let mut proj = Vec::new();
    for (s, x, e) in &kept {
        out.push_str(&t[at..*s]);
        out.push_str(&e.new);
        at = *x;
        let inside = |k: &&Tk| k.start >= *s && k.end <= *x;
        let cut = toks.iter().any(|k| (k.start < *s && *s < k.end) || (k.start < *x && *x < k.end));
        let nf = 1 + toks.iter().filter(|k| k.code && k.start < *s).count();
        let cf = 1 + toks.iter().filter(|k| k.comment && k.start < *s).count();
        let nin = toks.iter().filter(inside).filter(|k| k.code).count();
        let cin = toks.iter().filter(inside).filter(|k| k.comment).count();
        let nt = tokens(&e.new);
        proj.push(json!({
            "ls": line_of(&starts, *s), "le": line_of(&starts, if x > s { *x - 1 } else { *x }),
            "cut": cut, "nf": nf, "nl": nf - 1 + nin, "cf": cf, "cl": cf - 1 + cin,
            "nt": nt.iter().filter(|k| k.code).map(|k| k.proj.as_str()).collect::<Vec<_>>(),
            "cm": nt.iter().filter(|k| k.comment).map(|k| k.proj.as_str()).collect::<Vec<_>>(),
            "ld": line_digests(&e.new, true), "ldx": line_digests(&e.new, false),
        }));
    }
    out.push_str(&t[at..]);
    (out, proj, overlap)
}

// ------------------------------------------------------------------------------------------
// JSON-RPC client of the real trust-lsp binary
// ------------------------------------------------------------------------------------------
enum Fail {
    Died(String),
    Silent(u64),
    Rpc(i64, String),
}

struct Lsp {
    child: Child,
    stdin: ChildStdin,
    rx: Receiver<J>,
    next_id: i64,
    root: PathBuf,
    settings: String,
    open: Option<(String, i64, String)>, // uri, version, text the server holds
    requests: u64,
}

const VENDORS: [&str; 3] = ["none", "codesys", "siemens"];

impl Lsp {
    fn start(bin: &str, work: &Path, worker: usize) -> Result<Lsp, String> {
        let root = work.join(format!("ws{worker}"));
        let mut folders = Vec::new();
        for v in VENDORS {
            let d = root.join(v);
            std::fs::create_dir_all(&d).map_err(|e| format!("mkdir {}: {e}", d.display()))?;
            if v != "none" {
                std::fs::write(d.join("trust-lsp.toml"), format!("[project]\nvendor_profile = \"{v}\"\n")).map_err(|e| e.to_string())?;
            }
            folders.push(json!({"uri": format!("file://{}", d.display()), "name": v}));
        }
        let mut child = Command::new(bin)
            .stdin(Stdio::piped())
            .stdout(Stdio::piped())
            .stderr(Stdio::null())
            .env("RUST_LOG", "off")
            .env("RUST_BACKTRACE", "0")
            .spawn()
            .map_err(|e| format!("spawn {bin}: {e}"))?;
        let stdin = child.stdin.take().unwrap();
        let stdout = child.stdout.take().unwrap();
        let (tx, rx) = channel();
        std::thread::spawn(move || {
            let mut r = BufReader::new(stdout);
            loop {
                let mut len = 0usize;
                loop {
                    let mut line = String::new();
                    match r.read_line(&mut line) {
                        Ok(0) | Err(_) => return,
                        Ok(_) => {}
                    }
                    let l = line.trim_end();
                    if l.is_empty() {
                        break;
                    }
                    if let Some(v) = l.to_ascii_lowercase().strip_prefix("content-length:") {
                        len = v.trim().parse().unwrap_or(0);
                    }
                }
                let mut body = vec![0u8; len];
                if r.read_exact(&mut body).is_err() {
                    return;
                }
                match serde_json::from_slice::<J>(&body) {
                    Ok(v) => {
                        if tx.send(v).is_err() {
                            return;
                        }
                    }
                    Err(_) => return,
                }
            }
        });
        let mut s = Lsp { child, stdin, rx, next_id: 0, root, settings: String::new(), open: None, requests: 0 };
        let init = json!({"processId": J::Null, "rootUri": J::Null, "workspaceFolders": folders,
            "capabilities": {"workspace": {"diagnostic": {"refreshSupport": true}, "configuration": false},
                             "textDocument": {"diagnostic": {"dynamicRegistration": false}}}});
        let fail = |f: Fail| match f {
            Fail::Died(s) => format!("language server died while starting: {s}"),
            Fail::Silent(n) => format!("language server silent for {n}s while starting"),
            Fail::Rpc(c, m) => format!("language server refused to start: {c} {m}"),
        };
        s.request("initialize", init, 60).map_err(fail)?;
        s.notify("initialized", json!({})).map_err(fail)?;
        // the workspace configurations (vendor profiles) are loaded by a background task
        let t0 = Instant::now();
        loop {
            let r = s.request("workspace/executeCommand", json!({"command": "trust-lsp.projectInfo", "arguments": []}), 60).map_err(fail)?;
            let n = r["projects"].as_array().map_or(0, |a| a.len());
            let with_cfg = r["projects"].as_array().map_or(0, |a| a.iter().filter(|p| p["configPath"].is_string()).count());
            if n == VENDORS.len() && with_cfg == VENDORS.len() - 1 {
                break;
            }
            if t0.elapsed() > Duration::from_secs(60) {
                return Err(format!("language server did not load the workspace configurations: {r}"));
            }
            std::thread::sleep(Duration::from_millis(15));
        }
        Ok(s)
    }

    fn send(&mut self, msg: &J) -> Result<(), Fail> {
        let b = serde_json::to_vec(msg).unwrap();
        if std::env::var_os("FORMAT_LSP_LOG").is_some() {
            eprintln!("--> {}", String::from_utf8_lossy(&b).chars().take(400).collect::<String>());
        }
        let r = write!(self.stdin, "Content-Length: {}\r\n\r\n", b.len()).and_then(|_| self.stdin.write_all(&b)).and_then(|_| self.stdin.flush());
        r.map_err(|_| Fail::Died(self.status()))
    }
    fn status(&mut self) -> String {
        for _ in 0..50 {
            if let Ok(Some(st)) = self.child.try_wait() {
                return format!("{st}");
            }
            std::thread::sleep(Duration::from_millis(20));
        }
        "output closed".to_string()
    }
    fn notify(&mut self, method: &str, params: J) -> Result<(), Fail> {
        self.send(&json!({"jsonrpc": "2.0", "method": method, "params": params}))
    }
    fn request(&mut self, method: &str, params: J, secs: u64) -> Result<J, Fail> {
        self.next_id += 1;
        self.requests += 1;
        let id = self.next_id;
        self.send(&json!({"jsonrpc": "2.0", "id": id, "method": method, "params": params}))?;
        let deadline = Instant::now() + Duration::from_secs(secs);
        loop {
            let left = deadline.saturating_duration_since(Instant::now());
            // A server whose main task panicked stays around, mute, until its blocked stdin reader
            // sees input: after a short wait every further wait starts with a notification that a
            // healthy server ignores and that lets a dying one finish dying.
            let slice = left.min(Duration::from_millis(400));
            match self.rx.recv_timeout(slice) {
                Err(RecvTimeoutError::Timeout) if left > slice => {
                    self.notify("$/verifPing", json!({}))?;
                    continue;
                }
                Ok(m) => {
                    if std::env::var_os("FORMAT_LSP_LOG").is_some() {
                        eprintln!("<-- {}", m.to_string().chars().take(400).collect::<String>());
                    }
                    if m.get("method").is_some() {
                        if let Some(rid) = m.get("id") {
                            // a request of the server to its client (capability registration, refresh)
                            self.send(&json!({"jsonrpc": "2.0", "id": rid, "result": J::Null}))?;
                        }
                        continue;
                    }
                    if m["id"].as_i64() == Some(id) {
                        if let Some(e) = m.get("error") {
                            return Err(Fail::Rpc(e["code"].as_i64().unwrap_or(0), e["message"].as_str().unwrap_or("").to_string()));
                        }
                        return Ok(m.get("result").cloned().unwrap_or(J::Null));
                    }
                }
                Err(RecvTimeoutError::Timeout) => return Err(Fail::Silent(secs)),
                Err(RecvTimeoutError::Disconnected) => return Err(Fail::Died(self.status())),
            }
        }
    }
    fn configure(&mut self, settings: &J) -> Result<(), Fail> {
        let s = settings.to_string();
        if s != self.settings {
            self.notify("workspace/didChangeConfiguration", json!({"settings": settings}))?;
            self.settings = s;
        }
        Ok(())
    }
    /// Makes the server hold `text` under the document of the vendor's workspace folder.
    fn sync(&mut self, vendor: &str, text: &str) -> Result<String, Fail> {
        let uri = format!("file://{}/{}/doc.st", self.root.display(), vendor);
        match self.open.clone() {
            Some((u, _, t)) if u == uri && t == text => {}
            Some((u, v, _)) if u == uri => {
                self.notify("textDocument/didChange", json!({"textDocument": {"uri": uri, "version": v + 1}, "contentChanges": [{"text": text}]}))?;
                self.open = Some((uri.clone(), v + 1, text.to_string()));
            }
            other => {
                if let Some((u, _, _)) = other {
                    self.notify("textDocument/didClose", json!({"textDocument": {"uri": u}}))?;
                }
                self.notify("textDocument/didOpen", json!({"textDocument": {"uri": uri, "languageId": "structured-text", "version": 1, "text": text}}))?;
                self.open = Some((uri.clone(), 1, text.to_string()));
            }
        }
        Ok(uri)
    }
    fn kill(&mut self) {
        let _ = self.child.kill();
        let _ = self.child.wait();
    }
}

// ------------------------------------------------------------------------------------------
// executing one script
// ------------------------------------------------------------------------------------------
fn lsp_settings(cfg: &J) -> J {
    let mut f = serde_json::Map::new();
    for k in ["indentWidth", "insertSpaces", "keywordCase", "spacingStyle", "endKeywordStyle", "alignVarDecls", "alignAssignments", "maxLineLength"] {
        match &cfg[k] {
            J::Null => {}
            J::String(s) if s == "unset" => {}
            v => {
                f.insert(k.to_string(), v.clone());
            }
        }
    }
    json!({"stLsp": {"format": J::Object(f)}})
}

enum Outcome {
    Done,
    Silent,      // the server stopped answering: the caller decides whether to retry
    Restart,     // the server is gone; the script's trace is complete
    Tool(String),
}

struct Web {
    state: WebIdeState,
    token: String,
}

fn web_format(web: &Web, text: &str) -> Result<Result<String, String>, String> {
    let r = std::panic::catch_unwind(std::panic::AssertUnwindSafe(|| web.state.format_source(&web.token, "main.st", Some(text.to_string()))));
    match r {
        Ok(Ok(res)) => Ok(Ok(res.content)),
        Ok(Err(e)) => Ok(Err(format!("{e:?}"))),
        Err(p) => Err(p.downcast_ref::<&str>().map(|s| s.to_string()).or_else(|| p.downcast_ref::<String>().cloned()).unwrap_or_else(|| "panic".into())),
    }
}

fn exec_script(sc: &J, lsp: &mut Lsp, web: &Web, silent_secs: u64, ev: &mut Vec<J>) -> Outcome {
    let text = sc["text"].as_str().unwrap_or("").to_string();
    let cfg = &sc["cfg"];
    let vendor = cfg["vendor"].as_str().unwrap_or("none").to_string();
    if !VENDORS.contains(&vendor.as_str()) {
        return Outcome::Tool(format!("unknown vendor {vendor}"));
    }
    let toks = tokens(&text);
    let mlk: Vec<&str> = toks.iter().filter(|k| text[k.start..k.end].contains('\n')).map(|k| k.kind.as_str()).collect();
    // an unterminated string literal: where the lexer's error token ends depends on the blanks
    // and on the `$` that follow it, so the token lists of two layouts cannot be compared
    let frag = toks.iter().any(|k| k.kind == "Error" && (text[k.start..].starts_with('\'') || text[k.start..].starts_with('"')));
    ev.push(json!({"a": "Reset", "id": sc["id"], "fam": sc["src"],
        "cfg": {"maxLineLength": cfg["maxLineLength"].as_u64().unwrap_or(0), "vendor": vendor,
                "spacingStyle": cfg["spacingStyle"].as_str().unwrap_or("unset")},
        "doc": observe_toks(&text, &toks), "mlk": mlk, "frag": frag}));
    let options = json!({"tabSize": cfg["tabSize"].as_u64().unwrap_or(4), "insertSpaces": cfg["optInsertSpaces"].as_bool().unwrap_or(true)});
    let mut formatted: std::collections::HashMap<&'static str, String> = Default::default();
    macro_rules! lsp_try {
        ($e:expr, $during:expr) => {
            match $e {
                Ok(v) => v,
                Err(Fail::Died(status)) => {
                    ev.push(json!({"a": "Died", "during": $during, "via": "lsp", "status": status}));
                    return Outcome::Restart;
                }
                Err(Fail::Silent(_)) => return Outcome::Silent,
                Err(Fail::Rpc(code, msg)) => {
                    ev.push(json!({"a": "Failed", "during": $during, "via": "lsp", "code": code, "msg": msg}));
                    return Outcome::Done;
                }
            }
        };
    }
    for op in sc["ops"].as_array().cloned().unwrap_or_default() {
        let name = op["op"].as_str().unwrap_or("");
        match name {
            "full" | "refull" | "range" | "ontype" => {
                let (on, base): (&str, String) = if name == "refull" {
                    match formatted.get("lsp") {
                        Some(t) => ("formatted", t.clone()),
                        None => return Outcome::Tool("refull without full".into()),
                    }
                } else {
                    ("source", text.clone())
                };
                let during = match name {
                    "range" => "FormatRange",
                    "ontype" => "FormatOnType",
                    _ => "FormatDoc",
                };
                lsp_try!(lsp.configure(&lsp_settings(cfg)), during);
                let uri = lsp_try!(lsp.sync(&vendor, &base), during);
                let u = |k: &str| op[k].as_u64().unwrap_or(0);
                let (method, params, mut event) = match name {
                    "range" => (
                        "textDocument/rangeFormatting",
                        json!({"textDocument": {"uri": uri}, "options": options,
                               "range": {"start": {"line": u("sl"), "character": u("sc")}, "end": {"line": u("el"), "character": u("ec")}}}),
                        json!({"a": "FormatRange", "sl": u("sl"), "sc": u("sc"), "el": u("el"), "ec": u("ec")}),
                    ),
                    "ontype" => (
                        "textDocument/onTypeFormatting",
                        json!({"textDocument": {"uri": uri}, "options": options, "position": {"line": u("l"), "character": u("c")},
                               "ch": op["ch"].as_str().unwrap_or(";")}),
                        json!({"a": "FormatOnType", "l": u("l"), "c": u("c"), "ch": if op["ch"] == "\n" { "newline" } else { "semicolon" }}),
                    ),
                    _ => (
                        "textDocument/formatting",
                        json!({"textDocument": {"uri": uri}, "options": options}),
                        json!({"a": "FormatDoc", "via": "lsp", "on": on}),
                    ),
                };
                let result = lsp_try!(lsp.request(method, params, silent_secs), during);
                let edits = match parse_edits(&result) {
                    Ok(e) => e,
                    Err(m) => return Outcome::Tool(m),
                };
                let btoks = if name == "refull" { tokens(&base) } else { Vec::new() };
                let (after, proj, overlap) = apply_edits(&base, if name == "refull" { &btoks } else { &toks }, &edits);
                event["edits"] = json!(proj);
                ev.push(event);
                ev.push(json!({"a": "ApplyEdits", "doc": observe(&after), "overlap": overlap}));
                if name == "full" {
                    formatted.insert("lsp", after);
                }
            }
            "web" | "reweb" => {
                let (on, base): (&str, String) = if name == "reweb" {
                    match formatted.get("web") {
                        Some(t) => ("formatted", t.clone()),
                        None => return Outcome::Tool("reweb without web".into()),
                    }
                } else {
                    ("source", text.clone())
                };
                match web_format(web, &base) {
                    Err(msg) => {
                        ev.push(json!({"a": "Panic", "during": "FormatDoc", "via": "web", "msg": msg}));
                        return Outcome::Done;
                    }
                    Ok(Err(msg)) => {
                        ev.push(json!({"a": "Failed", "during": "FormatDoc", "via": "web", "code": 0, "msg": msg}));
                        return Outcome::Done;
                    }
                    Ok(Ok(after)) => {
                        // the web IDE replaces the editor's whole content with the result
                        let btoks = tokens(&base);
                        let starts = line_starts(&base);
                        let last = starts.len() - 1;
                        let whole = Edit { sl: 0, sc: 0, el: last, ec: usize::MAX / 2, new: after.clone() };
                        let (applied, proj, overlap) = apply_edits(&base, &btoks, &[whole]);
                        debug_assert_eq!(applied, after);
                        ev.push(json!({"a": "FormatDoc", "via": "web", "on": on, "edits": proj}));
                        ev.push(json!({"a": "ApplyEdits", "doc": observe(&applied), "overlap": overlap}));
                        if name == "web" {
                            formatted.insert("web", after);
                        }
                    }
                }
            }
            other => return Outcome::Tool(format!("unknown op {other}")),
        }
    }
    Outcome::Done
}

pub fn run(args: &[String]) -> i32 {
    let scripts = read_ndjson(arg(args, "--scripts").expect("--scripts"));
    let out_path = arg(args, "--out").expect("--out").to_string();
    let bin = arg(args, "--lsp").expect("--lsp").to_string();
    let work = PathBuf::from(arg(args, "--work").expect("--work"));
    let _ = std::fs::create_dir_all(&work);
    let work = std::fs::canonicalize(&work).unwrap_or(work);
    let jobs = (arg_u64(args, "--jobs", 8) as usize).clamp(1, 32).min(scripts.len().max(1));
    std::panic::set_hook(Box::new(|_| {}));
    let web_root = work.join("webroot");
    let _ = std::fs::create_dir_all(&web_root);
    let _ = std::fs::write(web_root.join("main.st"), "PROGRAM Main\nEND_PROGRAM\n");
    let n = scripts.len();
    let per = (n + jobs - 1) / jobs.max(1);
    let results: Vec<Result<(Vec<Vec<J>>, u64, u64, u64), String>> = std::thread::scope(|sc| {
        let mut hs = Vec::new();
        for w in 0..jobs {
            let (a, b) = ((w * per).min(n), ((w + 1) * per).min(n));
            let part = &scripts[a..b];
            let (bin, work, web_root) = (bin.clone(), work.clone(), web_root.clone());
            hs.push(sc.spawn(move || -> Result<(Vec<Vec<J>>, u64, u64, u64), String> {
                let state = WebIdeState::new(Some(web_root));
                let token = state.create_session(IdeRole::Editor).map_err(|e| format!("web IDE session: {e:?}"))?.token;
                let web = Web { state, token };
                let mut lsp = Lsp::start(&bin, &work, w)?;
                let (mut died, mut hangs, mut requests) = (0u64, 0u64, 0u64);
                let mut out = Vec::with_capacity(part.len());
                for s in part {
                    let mut ev = Vec::new();
                    let mut outcome = exec_script(s, &mut lsp, &web, 20, &mut ev);
                    if matches!(outcome, Outcome::Silent) {
                        // once more, alone on a fresh server, with more patience
                        eprintln!("format-run: language server silent on script {} (after {:?}); retrying on a fresh server", s["id"], ev.last().map(|e| e["a"].clone()));
                        requests += lsp.requests;
                        lsp.kill();
                        lsp = Lsp::start(&bin, &work, w)?;
                        ev.clear();
                        outcome = exec_script(s, &mut lsp, &web, 45, &mut ev);
                        if matches!(outcome, Outcome::Silent) {
                            let during = ev.last().map(|e| e["a"].as_str().unwrap_or("").to_string()).unwrap_or_default();
                            ev.push(json!({"a": "Hang", "during": if during == "Reset" || during == "ApplyEdits" { "request".to_string() } else { during }, "via": "lsp", "secs": 45}));
                            hangs += 1;
                            outcome = Outcome::Restart;
                        }
                    }
                    match outcome {
                        Outcome::Done => {}
                        Outcome::Restart => {
                            if ev.last().map_or(false, |e| e["a"] == "Died") {
                                died += 1;
                            }
                            requests += lsp.requests;
                            lsp.kill();
                            lsp = Lsp::start(&bin, &work, w)?;
                        }
                        Outcome::Tool(m) => return Err(format!("script {}: {m}", s["id"])),
                        Outcome::Silent => unreachable!(),
                    }
                    out.push(ev);
                }
                requests += lsp.requests;
                lsp.kill();
                Ok((out, died, hangs, requests))
            }));
        }
        hs.into_iter().map(|h| h.join().unwrap_or_else(|_| Err("worker thread panicked".into()))).collect()
    });
    let mut o = Out::create(&out_path);
    let (mut died, mut hangs, mut requests, mut runs, mut events) = (0, 0, 0, 0u64, 0u64);
    for r in results {
        match r {
            Ok((evs, d, h, q)) => {
                died += d;
                hangs += h;
                requests += q;
                for run in evs {
                    runs += 1;
                    for e in run {
                        events += 1;
                        o.line(&e);
                    }
                }
            }
            Err(m) => {
                eprintln!("format-run: {m}");
                return 2;
            }
        }
    }
    o.flush();
    println!("{}", json!({"runs": runs, "events": events, "died": died, "hangs": hangs, "requests": requests}));
    0
}

// ------------------------------------------------------------------------------------------
// script generation
// ------------------------------------------------------------------------------------------
fn repo_root() -> PathBuf {
    PathBuf::from(std::env::var("VERIF_REPO").unwrap_or_else(|_| "/repo".into()))
}

/// Corpus programs of the repository (sorted; no astral characters and no lone CR: how columns
/// and lines are counted there is C14's subject).
fn corpus() -> Vec<(String, String)> {
    let root = repo_root();
    let mut out = Vec::new();
    let mut stack = vec![root.clone()];
    while let Some(d) = stack.pop() {
        let Ok(rd) = std::fs::read_dir(&d) else { continue };
        for e in rd.flatten() {
            let p = e.path();
            let name = p.file_name().and_then(|s| s.to_str()).unwrap_or("");
            if p.is_dir() {
                if !matches!(name, "target" | ".git" | "node_modules") && !p.is_symlink() {
                    stack.push(p);
                }
            } else if p.extension().map_or(false, |x| x == "st") {
                if let Ok(t) = std::fs::read_to_string(&p) {
                    if t.len() <= 4000 && plain(&t) {
                        out.push((p.strip_prefix(&root).unwrap_or(&p).to_string_lossy().into_owned(), t));
                    }
                }
            }
        }
    }
    out.sort();
    out
}
fn plain(t: &str) -> bool {
    let b = t.as_bytes();
    t.chars().all(|c| (c as u32) < 0x10000 && c != '\u{2028}' && c != '\u{2029}' && c != '\u{85}')
        && (0..b.len()).all(|i| b[i] != b'\r' || b.get(i + 1) == Some(&b'\n'))
}

const ATOMS: &[&str] = &[
    "a", "b1", "Foo", "IF", "if", "THEN", "END_IF", "VAR", "END_VAR", "MOD", "NOT", "AND", "OR", "AT", "TRUE", "INT", "INT#", "T#", "D#",
    "TOD#", "1", "16", "5", "30", "1.5", "1.0E3", "16#FF", "2#1", "FF", "s", "ms", "T#5s", "T#1h30m", "D#2024-01-15", "TOD#12:30:00",
    "DT#2024-01-15-12:30:00", "%IX0.5", "%MW1", "'s'", "'a,b'", "'a:=b'", "'a  b'", "\"w\"", "'i$'s: x'", "\"q$\": y\"", ";", ":", ",", ".", "..", "(", ")", "[", "]", "#", "^",
    "@", ":=", "=>", "?=", "=", "<>", "<", "<=", ">", ">=", "+", "-", "*", "/", "**", "&", "?", "$", "'", "\"", "{", "}", "%", "(*c*)",
    "/*c*/", "//c", "{p}", "(*", "*)", "/*", "*/", "\u{e9}",
];

/// Maximal runs of word characters, maximal runs of white space, every other character alone.
fn pieces(s: &str) -> Vec<&str> {
    let mut out = Vec::new();
    let cls = |c: char| if c.is_alphanumeric() || c == '_' { 0 } else if c.is_whitespace() { 1 } else { 2 };
    let mut start = 0;
    let mut prev: Option<i32> = None;
    for (i, c) in s.char_indices() {
        let k = cls(c);
        if let Some(p) = prev {
            if p != k || k == 2 {
                out.push(&s[start..i]);
                start = i;
            }
        }
        prev = Some(k);
    }
    if start < s.len() {
        out.push(&s[start..]);
    }
    out
}

fn mutate(base: &str, rng: &mut StdRng) -> String {
    let mut ps: Vec<String> = pieces(base).into_iter().map(|s| s.to_string()).collect();
    for _ in 0..rng.gen_range(1..4) {
        if ps.is_empty() {
            break;
        }
        let i = rng.gen_range(0..ps.len());
        match rng.gen_range(0..13) {
            0 => {
                ps.remove(i);
            }
            1 => {
                let p = ps[i].clone();
                ps.insert(i, p);
            }
            2 => {
                if i + 1 < ps.len() {
                    ps.swap(i, i + 1);
                }
            }
            3 => ps.insert(i, ATOMS.choose(rng).unwrap().to_string()),
            4 => ps.insert(i, format!(" {} ", ATOMS.choose(rng).unwrap())),
            5 => ps.truncate(i),
            6 => {
                // a blank inside every two-character operator from here on
                for p in ps.iter_mut().skip(i) {
                    if matches!(p.as_str(), ":" | "<" | ">" | "*" | "=" | "." | "/" | "(") {
                        p.push(' ');
                    }
                }
            }
            7 => {
                // white space removed
                if let Some(j) = (i..ps.len()).find(|&j| ps[j].trim().is_empty() && !ps[j].contains('\n')) {
                    ps.remove(j);
                }
            }
            8 => ps.insert(i, "\n".to_string()),
            9 => ps.insert(i, ["{attr\n  'x'}", "(* two\n   lines *)", "/* a\n\tb */", "{p} ", " // tail\n"].choose(rng).unwrap().to_string()),
            10 => ps.insert(i, ["(* open", "'open", "{ open", "/* open", "\"open"].choose(rng).unwrap().to_string()),
            11 => {
                // lines joined
                if let Some(j) = (i..ps.len()).find(|&j| ps[j].contains('\n')) {
                    ps[j] = " ".to_string();
                }
            }
            _ => {
                // the same statement written with a long argument list
                ps.insert(i, format!("\nr := Scale(in1 := {0}, in2 := {0} + 1, lo := 0, hi := 100, q => out1, 'a, b');\n", ATOMS[rng.gen_range(0..3)]));
            }
        }
    }
    ps.concat()
}

struct Synth<'a> {
    rng: &'a mut StdRng,
    lines: Vec<String>,
    kwcase: u8,
}
impl<'a> Synth<'a> {
    fn kw(&mut self, k: &str) -> String {
        match self.kwcase {
            0 => k.to_string(),
            1 => k.to_ascii_lowercase(),
            _ => k.chars().enumerate().map(|(i, c)| if (i + self.rng.gen_range(0..2)) % 2 == 0 { c.to_ascii_lowercase() } else { c }).collect(),
        }
    }
    fn name(&mut self) -> String {
        ["a", "b", "cnt", "x1", "longer_name", "Motor_Speed", "q", "tmp", "idx", "s", "fb1", "very_long_identifier_name"].choose(self.rng).unwrap().to_string()
    }
    fn lit(&mut self) -> String {
        ["0", "1", "42", "1_000", "16#FF", "2#1010", "1.5", "2.5E-3", "TRUE", "FALSE", "T#10ms", "T#1h30m", "TIME#5s", "D#2024-01-15",
         "TOD#12:30:00", "DT#2024-01-15-12:30:00", "INT#5", "INT#-3", "REAL#1.5", "'text'", "'a, b: c := d'", "'(* no comment *)'",
         "'it$'s'", "\"wide, str\"", "Color#Red", "%IX0.1", "'two  blanks'",
         // escaped quotes FOLLOWED by text that looks like syntax: a scan that does not know the `$` escapes
         // leaves the literal early and sees ':' ':=' ',' '(*' as tokens
         "'can$'t open: retry'", "'$'': x := 1'", "\"say $\"hi$\": ok\"", "'a$'b, c$'d'", "'$'(* x *)$''", "'100$$: y'"].choose(self.rng).unwrap().to_string()
    }
    fn expr(&mut self, depth: u32) -> Vec<String> {
        let r = self.rng.gen_range(0..10);
        if depth == 0 || r < 3 {
            return if self.rng.gen_bool(0.5) { vec![self.name()] } else { vec![self.lit()] };
        }
        match r {
            3 => {
                let mut v = vec!["(".to_string()];
                v.extend(self.expr(depth - 1));
                v.push(")".into());
                v
            }
            4 => {
                let op = ["-", "NOT", "+"].choose(self.rng).unwrap().to_string();
                let op = if op == "NOT" { self.kw("NOT") } else { op };
                let mut v = vec![op];
                v.extend(self.expr(depth - 1));
                v
            }
            5 => {
                let f = ["MAX", "MIN", "LIMIT", "CONCAT", "SEL", "ABS", "Scale"].choose(self.rng).unwrap().to_string();
                let mut v = vec![f, "(".into()];
                let n = self.rng.gen_range(1..7);
                for i in 0..n {
                    if i > 0 {
                        v.push(",".into());
                    }
                    if self.rng.gen_bool(0.3) {
                        v.push(self.name());
                        v.push(if self.rng.gen_bool(0.7) { ":=".into() } else { "=>".into() });
                    }
                    v.extend(self.expr(depth - 1));
                }
                v.push(")".into());
                v
            }
            6 => {
                let mut v = vec![self.name()];
                match self.rng.gen_range(0..4) {
                    0 => v.extend([".".to_string(), self.name()]),
                    1 => {
                        v.push("[".into());
                        v.extend(self.expr(1));
                        v.push("]".into());
                    }
                    2 => v.push("^".into()),
                    _ => v.extend([".".to_string(), "%X1".to_string()]),
                }
                v
            }
            _ => {
                let op = ["+", "-", "*", "/", "**", "=", "<>", "<", "<=", ">", ">=", "&", "MOD", "AND", "OR", "XOR"].choose(self.rng).unwrap().to_string();
                let op = if op.chars().all(|c| c.is_ascii_alphabetic()) { self.kw(&op) } else { op };
                let mut v = self.expr(depth - 1);
                v.push(op);
                v.extend(self.expr(depth - 1));
                v
            }
        }
    }
    /// Tokens to a line: blanks wherever they are needed, sometimes more, sometimes none next to punctuation.
    fn join(&mut self, toks: &[String]) -> String {
        let tight = |t: &str| matches!(t, "(" | ")" | "," | ";" | "[" | "]");
        let mut s = String::new();
        for (i, t) in toks.iter().enumerate() {
            if i > 0 {
                let can_glue = tight(&toks[i - 1]) || tight(t);
                let r = self.rng.gen_range(0..10);
                if can_glue && r < 5 {
                } else if r < 8 {
                    s.push(' ');
                } else if r < 9 {
                    s.push_str("  ");
                } else {
                    s.push('\t');
                }
            }
            s.push_str(t);
        }
        s
    }
    fn emit(&mut self, toks: Vec<String>) {
        // sometimes the statement is broken after a comma or an operator
        let mut toks = toks;
        let mut line;
        loop {
            let cut = if toks.len() > 4 && self.rng.gen_bool(0.12) {
                toks.iter().position(|t| matches!(t.as_str(), "," | ":=" | "+" | "(")).map(|i| i + 1).filter(|&i| i < toks.len())
            } else {
                None
            };
            match cut {
                Some(i) => {
                    let rest = toks.split_off(i);
                    line = self.join(&toks);
                    self.push(line);
                    toks = rest;
                }
                None => {
                    line = self.join(&toks);
                    break;
                }
            }
        }
        match self.rng.gen_range(0..14) {
            0 => line.push_str(" // note, with a comma"),
            1 => line.push_str("  (* trailing :=  comment *)"),
            2 => line.push_str(" {attribute 'x'}"),
            3 => line.push_str("   "),
            4 => line = format!("(* lead *) {line}"),
            _ => {}
        }
        self.push(line);
    }
    fn push(&mut self, line: String) {
        let ind = match self.rng.gen_range(0..6) {
            0 => "",
            1 => "  ",
            2 => "    ",
            3 => "\t",
            4 => "        ",
            _ => " ",
        };
        self.lines.push(format!("{ind}{line}"));
    }
    fn decls(&mut self) {
        let kind = ["VAR", "VAR_INPUT", "VAR_OUTPUT", "VAR_TEMP", "VAR_IN_OUT", "VAR CONSTANT", "VAR RETAIN"].choose(self.rng).unwrap().to_string();
        let head: Vec<String> = kind.split(' ').map(|k| self.kw(k)).collect();
        self.emit(head);
        for _ in 0..self.rng.gen_range(0..6) {
            let ty = ["INT", "BOOL", "REAL", "TIME", "TOD", "DT", "STRING", "STRING[20]", "WORD", "TON", "ARRAY[1..10] OF INT", "DATE"].choose(self.rng).unwrap().to_string();
            let mut v = vec![self.name()];
            if self.rng.gen_bool(0.15) {
                v.extend([",".to_string(), self.name()]);
            }
            if self.rng.gen_bool(0.15) {
                v.extend([self.kw("AT"), "%IX0.1".to_string()]);
            }
            v.push(":".into());
            v.extend(pieces(&ty).into_iter().filter(|p| !p.trim().is_empty()).map(|p| p.to_string()).fold(Vec::<String>::new(), |mut acc, p| {
                // "1..10" must stay one run of pieces: "1", ".", ".", "10" -> "1", "..", "10"
                if p == "." && acc.last().map_or(false, |l| l == ".") {
                    acc.pop();
                    acc.push("..".into());
                } else {
                    acc.push(p);
                }
                acc
            }));
            let mut tricky = false;
            if (ty.starts_with("STRING") || ty.starts_with("ARRAY")) && self.rng.gen_bool(0.5) {
                // string initialisers whose text looks like syntax once an escaped quote is misread, on
                // their own continuation lines (no declaration colon in front of them on that line)
                const TRICKY: [&str; 8] = ["'can$'t open: retry'", "'$'': x := 1'", "\"say $\"hi$\": ok\"", "'a$'b, c$'d'", "'$'(* x *)$''", "'100$$: y'", "'plain: text'", "\"w: s\""];
                v.push(":=".into());
                if ty.starts_with("ARRAY") {
                    v.push("[".into());
                    for i in 0..self.rng.gen_range(1..4) {
                        if i > 0 {
                            v.push(",".into());
                        }
                        v.push(TRICKY.choose(self.rng).unwrap().to_string());
                    }
                    v.push("]".into());
                } else {
                    v.push(TRICKY.choose(self.rng).unwrap().to_string());
                }
                tricky = true;
            } else if self.rng.gen_bool(0.4) {
                v.push(":=".into());
                v.push(self.lit());
            }
            v.push(";".into());
            if tricky && self.rng.gen_bool(0.6) {
                // break right after ":=" / "[" / "," so that the literal starts a line
                let cuts: Vec<usize> = v.iter().enumerate().filter(|(_, t)| matches!(t.as_str(), ":=" | "[" | ",")).map(|(i, _)| i + 1).collect();
                let at = *cuts.choose(self.rng).unwrap();
                let rest = v.split_off(at);
                let first = self.join(&v);
                self.push(first);
                v = rest;
            }
            self.emit(v);
            if self.rng.gen_bool(0.1) {
                self.lines.push(String::new());
            }
            if self.rng.gen_bool(0.1) {
                self.push("// group".into());
            }
        }
        let e = self.kw("END_VAR");
        self.emit(vec![e]);
    }
    fn stmts(&mut self, depth: u32) {
        for _ in 0..self.rng.gen_range(1..5) {
            // comment lines that LOOK like statements, between real statements at the same indent: whatever a pass
            // decides per line (alignment, wrapping, spacing) must leave them alone, also after an earlier pass changed
            // the number of lines above them
            if self.rng.gen_bool(0.12) {
                let c = ["// a := 1;", "(* c := 3; *)", "// f(x => 1, y := 2);", "(* k : INT := 5; *)", "// very_long_name := a + b;   trailing",
                         "{attribute 'x := y'}", "// 'str := ' \"w => \""].choose(self.rng).unwrap().to_string();
                self.push(c);
            }
            match self.rng.gen_range(0..12) {
                0 if depth > 0 => {
                    let mut v = vec![self.kw("IF")];
                    v.extend(self.expr(2));
                    v.push(self.kw("THEN"));
                    self.emit(v);
                    self.stmts(depth - 1);
                    if self.rng.gen_bool(0.4) {
                        let mut v = vec![self.kw("ELSIF")];
                        v.extend(self.expr(1));
                        v.push(self.kw("THEN"));
                        self.emit(v);
                        self.stmts(depth - 1);
                    }
                    if self.rng.gen_bool(0.4) {
                        let e = self.kw("ELSE");
                        self.emit(vec![e]);
                        self.stmts(depth - 1);
                    }
                    let mut v = vec![self.kw("END_IF")];
                    if self.rng.gen_bool(0.5) {
                        v.push(";".into());
                    }
                    self.emit(v);
                }
                1 if depth > 0 => {
                    let v = vec![self.kw("CASE"), self.name(), self.kw("OF")];
                    self.emit(v);
                    for k in 0..self.rng.gen_range(1..4) {
                        let label: Vec<String> = match k {
                            0 => vec!["1".into(), ":".into()],
                            1 => vec!["2".into(), ",".into(), "3".into(), ":".into()],
                            _ => vec!["4".into(), "..".into(), "9".into(), ":".into()],
                        };
                        if self.rng.gen_bool(0.5) {
                            let mut v = label;
                            v.extend([self.name(), ":=".to_string()]);
                            v.extend(self.expr(1));
                            v.push(";".into());
                            self.emit(v);
                        } else {
                            self.emit(label);
                            self.stmts(0);
                        }
                    }
                    let v = vec![self.kw("END_CASE")];
                    self.emit(v);
                }
                2 if depth > 0 => {
                    let v = vec![self.kw("FOR"), self.name(), ":=".into(), "0".into(), self.kw("TO"), "10".into(), self.kw("BY"), "2".into(), self.kw("DO")];
                    self.emit(v);
                    self.stmts(depth - 1);
                    let v = vec![self.kw("END_FOR"), ";".into()];
                    self.emit(v);
                }
                3 if depth > 0 => {
                    if self.rng.gen_bool(0.5) {
                        let mut v = vec![self.kw("WHILE")];
                        v.extend(self.expr(1));
                        v.push(self.kw("DO"));
                        self.emit(v);
                        self.stmts(depth - 1);
                        let v = vec![self.kw("END_WHILE")];
                        self.emit(v);
                    } else {
                        let v = vec![self.kw("REPEAT")];
                        self.emit(v);
                        self.stmts(depth - 1);
                        let mut v = vec![self.kw("UNTIL")];
                        v.extend(self.expr(1));
                        self.emit(v);
                        let v = vec![self.kw("END_REPEAT")];
                        self.emit(v);
                    }
                }
                4 => {
                    // a function block call with named arguments: long enough to be wrapped
                    let mut v = vec![self.name(), "(".into()];
                    let n = self.rng.gen_range(2..8);
                    for i in 0..n {
                        if i > 0 {
                            v.push(",".into());
                        }
                        v.push(["IN", "PT", "Q", "ET", "CLK", "PV", "R", "CU"][i % 8].to_string());
                        v.push(if i % 3 == 2 { "=>".into() } else { ":=".into() });
                        v.extend(self.expr(1));
                    }
                    v.extend([")".to_string(), ";".to_string()]);
                    self.emit(v);
                }
                5 => match self.rng.gen_range(0..5) {
                    0 => self.push("(* a block comment *)".into()),
                    1 => {
                        self.push("(* a comment over".into());
                        self.push("   two lines, x := 1; *)".into());
                    }
                    2 => self.push("// a line comment: a := b, c".into()),
                    3 => self.push("{region 'setup'}".into()),
                    _ => self.lines.push(String::new()),
                },
                6 => {
                    // two statements on one line
                    let mut v = vec![self.name(), ":=".to_string()];
                    v.extend(self.expr(1));
                    v.extend([";".to_string(), self.name(), ":=".to_string()]);
                    v.extend(self.expr(1));
                    v.push(";".into());
                    self.emit(v);
                }
                7 => {
                    let v = vec![[self.kw("RETURN"), self.kw("EXIT"), self.kw("CONTINUE")].choose(self.rng).unwrap().clone(), ";".into()];
                    self.emit(v);
                }
                _ => {
                    let mut v = vec![self.name()];
                    if self.rng.gen_bool(0.2) {
                        v.extend([".".to_string(), self.name()]);
                    }
                    v.push(":=".into());
                    let d = self.rng.gen_range(1..4);
                    v.extend(self.expr(d));
                    v.push(";".into());
                    self.emit(v);
                }
            }
        }
    }
}

fn synth(rng: &mut StdRng) -> String {
    let kwcase = rng.gen_range(0..3);
    let mut s = Synth { rng, lines: Vec::new(), kwcase };
    let pou = ["PROGRAM", "FUNCTION_BLOCK", "FUNCTION"].choose(s.rng).unwrap().to_string();
    let mut head = vec![s.kw(&pou), "Unit".to_string()];
    if pou == "FUNCTION" {
        head.extend([":".to_string(), "INT".to_string()]);
    }
    s.emit(head);
    for _ in 0..s.rng.gen_range(0..3) {
        s.decls();
    }
    s.stmts(2);
    let e = s.kw(&format!("END_{pou}"));
    s.emit(vec![e]);
    let eol = match s.rng.gen_range(0..6) {
        0 => "\r\n",
        _ => "\n",
    };
    let mixed = s.rng.gen_bool(0.05);
    let mut out = String::new();
    let n = s.lines.len();
    for (i, l) in s.lines.iter().enumerate() {
        out.push_str(l);
        if i + 1 < n || s.rng.gen_bool(0.85) {
            out.push_str(if mixed && s.rng.gen_bool(0.5) { "\r\n" } else { eol });
        }
    }
    out
}

fn random_cfg(rng: &mut StdRng) -> J {
    let mut c = serde_json::Map::new();
    let mut put = |k: &str, v: J| {
        c.insert(k.to_string(), v);
    };
    let unset = json!("unset");
    put("indentWidth", if rng.gen_bool(0.4) { unset.clone() } else { json!([1, 2, 3, 4, 8][rng.gen_range(0..5)]) });
    put("insertSpaces", if rng.gen_bool(0.5) { unset.clone() } else { json!(rng.gen_bool(0.6)) });
    put("keywordCase", if rng.gen_bool(0.25) { unset.clone() } else { json!(["preserve", "upper", "lower"][rng.gen_range(0..3)]) });
    put("spacingStyle", if rng.gen_bool(0.25) { unset.clone() } else { json!(["spaced", "compact"][rng.gen_range(0..2)]) });
    put("endKeywordStyle", if rng.gen_bool(0.4) { unset.clone() } else { json!(["aligned", "indented"][rng.gen_range(0..2)]) });
    put("alignVarDecls", if rng.gen_bool(0.5) { unset.clone() } else { json!(rng.gen_bool(0.5)) });
    put("alignAssignments", if rng.gen_bool(0.5) { unset.clone() } else { json!(rng.gen_bool(0.5)) });
    put("maxLineLength", json!([0, 0, 0, 0, 20, 40, 60, 120][rng.gen_range(0..8)]));
    put("vendor", json!(["none", "none", "none", "codesys", "siemens"][rng.gen_range(0..5)]));
    put("tabSize", json!([2, 4, 8][rng.gen_range(0..3)]));
    put("optInsertSpaces", json!(rng.gen_bool(0.8)));
    J::Object(c)
}

fn line_lens(t: &str) -> Vec<usize> {
    t.split('\n').map(|l| l.strip_suffix('\r').unwrap_or(l).encode_utf16().count()).collect()
}
fn range_op(t: &str, a: usize, b: usize, rng: &mut StdRng) -> J {
    let lens = line_lens(t);
    let b = b.min(lens.len() - 1);
    let a = a.min(b);
    match rng.gen_range(0..4) {
        0 if b + 1 < lens.len() => json!({"op": "range", "sl": a, "sc": 0, "el": b + 1, "ec": 0}),
        1 => json!({"op": "range", "sl": a, "sc": rng.gen_range(0..=lens[a]), "el": b, "ec": rng.gen_range(0..=lens[b])}),
        _ => json!({"op": "range", "sl": a, "sc": 0, "el": b, "ec": lens[b]}),
    }
}
fn ontype_op(t: &str, l: usize, rng: &mut StdRng) -> J {
    let lens = line_lens(t);
    let l = l.min(lens.len() - 1);
    if rng.gen_bool(0.3) && l > 0 {
        json!({"op": "ontype", "l": l, "c": 0, "ch": "\n"})
    } else {
        json!({"op": "ontype", "l": l, "c": rng.gen_range(0..=lens[l]), "ch": ";"})
    }
}
fn random_ops(t: &str, rng: &mut StdRng) -> Vec<J> {
    let n = line_lens(t).len();
    let mut ops = vec![json!({"op": "full"})];
    for _ in 0..rng.gen_range(0..4) {
        let a = rng.gen_range(0..n);
        let b = (a + [0, 0, 1, 2, 5, 40][rng.gen_range(0..6)]).min(n - 1);
        ops.push(range_op(t, a, b, rng));
    }
    if rng.gen_bool(0.1) {
        ops.push(json!({"op": "range", "sl": n + 2, "sc": 0, "el": n + 5, "ec": 0}));
    }
    for _ in 0..rng.gen_range(0..3) {
        ops.push(ontype_op(t, rng.gen_range(0..n), rng));
    }
    ops.extend([json!({"op": "web"}), json!({"op": "reweb"}), json!({"op": "refull"})]);
    ops
}

pub fn gen(args: &[String]) -> i32 {
    let seed = arg_u64(args, "--seed", 1);
    let runs = arg_u64(args, "--runs", 100) as usize;
    let mut rng = StdRng::seed_from_u64(seed ^ 0xc15_c15);
    let mut o = Out::create(arg(args, "--out").expect("--out"));
    let mut id = 0u64;
    let mut put = |o: &mut Out, src: &str, cfg: J, text: String, ops: Vec<J>| {
        id += 1;
        o.line(&json!({"id": id, "src": src, "cfg": cfg, "text": text, "ops": ops}));
    };
    // (1) abstract scripts exported by TLC: the characters of the text, the configuration vector, the request
    if let Some(p) = arg(args, "--tlc") {
        for sc in read_ndjson(p) {
            let text: String = sc["text"].as_array().map(|a| a.iter().map(|c| match c.as_str().unwrap_or("") {
                "NL" => "\n", "TAB" => "\t", "CR" => "\r", x => x }).collect()).unwrap_or_default();
            if !plain(&text) {
                continue; // a CR that is not part of CR LF: how lines are counted there is C14's subject
            }
            let mut cfg = sc["cfg"].clone();
            cfg["tabSize"] = json!(4);
            cfg["optInsertSpaces"] = json!(true);
            let fam = sc["family"].as_str().unwrap_or("tlc").to_string();
            let n = line_lens(&text).len();
            let mut ops = vec![json!({"op": "full"})];
            let req = &sc["req"];
            match (fam.as_str(), req["op"].as_str().unwrap_or("full")) {
                ("matrix", _) => {
                    ops.push(json!({"op": "range", "sl": 0, "sc": 0, "el": 0, "ec": line_lens(&text)[0]}));
                    ops.push(json!({"op": "ontype", "l": 0, "c": line_lens(&text)[0], "ch": ";"}));
                }
                ("layout", _) => {
                    // every range of whole lines and every on-type line, as the model's Requests(t)
                    if n <= 4 {
                        for a in 0..n {
                            for b in a..n {
                                ops.push(range_op(&text, a, b, &mut rng));
                            }
                            ops.push(ontype_op(&text, a, &mut rng));
                        }
                    } else {
                        // longer documents (a template of several lines): a sample of them
                        for _ in 0..10 {
                            let a = rng.gen_range(0..n);
                            let b = rng.gen_range(a..n);
                            ops.push(range_op(&text, a, b, &mut rng));
                        }
                        for _ in 0..4 {
                            ops.push(ontype_op(&text, rng.gen_range(0..n), &mut rng));
                        }
                    }
                }
                (_, "range") => ops.push(range_op(&text, req["a"].as_u64().unwrap_or(1) as usize - 1, req["b"].as_u64().unwrap_or(1) as usize - 1, &mut rng)),
                (_, "ontype") => ops.push(ontype_op(&text, req["a"].as_u64().unwrap_or(1) as usize - 1, &mut rng)),
                _ => {}
            }
            ops.extend([json!({"op": "web"}), json!({"op": "reweb"}), json!({"op": "refull"})]);
            put(&mut o, &fam, cfg, text, ops);
        }
    }
    if runs == 0 {
        o.flush();
        return 0;
    }
    // (2) seeded random scripts
    let corp = corpus();
    if corp.len() < 20 {
        eprintln!("format-gen: only {} corpus programs under {}", corp.len(), repo_root().display());
        return 2;
    }
    for k in 0..runs {
        let cfg = random_cfg(&mut rng);
        let (src, text) = match k % 10 {
            0 | 1 => ("corpus", corp[rng.gen_range(0..corp.len())].1.clone()),
            2 | 3 => ("mutated", mutate(&corp[rng.gen_range(0..corp.len())].1, &mut rng)),
            4 => ("mutated-synthetic", {
                let t = synth(&mut rng);
                mutate(&t, &mut rng)
            }),
            5 => ("soup", {
                let mut t = String::new();
                for _ in 0..rng.gen_range(1..6) {
                    for _ in 0..rng.gen_range(1..9) {
                        t.push_str(ATOMS.choose(&mut rng).unwrap());
                        if rng.gen_bool(0.7) {
                            t.push(' ');
                        }
                    }
                    t.push('\n');
                }
                t
            }),
            6 => ("crlf", {
                let t = &corp[rng.gen_range(0..corp.len())].1;
                t.replace("\r\n", "\n").replace('\n', "\r\n")
            }),
            _ => ("synthetic", synth(&mut rng)),
        };
        if !plain(&text) {
            continue;
        }
        let ops = random_ops(&text, &mut rng);
        put(&mut o, src, cfg, text, ops);
    }
    o.flush();
    0
}
