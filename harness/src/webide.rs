//! WebIde domain (C19): the browser IDE's file API stays inside the active project, honours
//! session roles / expiry / write-disabled mode, and never loses a concurrent edit.
//!
//! `webide-gen --kind paths|seq|conc` — seeded random scripts with a richer value space than the
//!     model enumerates (unicode, very long, NUL, deeper paths; more sessions, stale versions,
//!     longer request sequences; free-running thread programs).
//! `webide-run --tree T --scripts S --out O --work DIR` — executes scripts on the REAL
//!     `trust_runtime::web::ide::WebIdeState` through its public API only.
//!       kind "path": one path (a sequence of components from the model's vocabulary) x every
//!           file operation, on a sentinel tree built from the MODEL's tree (`--tree`, exported by
//!           TLC from spec/WebIde.tla): the project is nested in directories holding outside files,
//!           hidden entries, file / directory symlinks pointing in and out, dangling symlinks.  A
//!           complete snapshot of the sentinel (names, bytes, link targets, mtimes) is compared
//!           before / after every call; what a read returned is scanned for the zone markers every
//!           file carries.  Every (path, operation) that changed something as an editor is repeated
//!           as viewer / expired / never-issued session and in write-disabled mode.
//!       kind "list": list_sources / list_tree / workspace_search under every session kind.
//!       kind "seq":  sequential open / write / expire / external-edit requests of several sessions
//!           on one file (TLC-exported and random); kind "conc": the same requests from real
//!           threads, free-running with seeded delays; every call is logged as Begin / End with
//!           arguments and result, in real-time order.
//!     One ndjson line per specification action.  Scripts run in child processes of this binary
//!     (address-space limit); a panic of the code under test is caught and recorded as data
//!     (`{"a":"Panic"}` / result kind "panic"), a child killed by a signal likewise.
//!
//! Session expiry needs the wall clock to move by the session TTL (15 min): this module
//! interposes `clock_gettime` (a pass-through to libc unless an offset was set by THIS module in
//! a webide child process) so that CLOCK_REALTIME can be advanced; a self-test at child start
//! turns a non-working interposition into a tool error, never into a verdict.
use crate::util::*;
use rand::{rngs::StdRng, seq::SliceRandom, Rng, SeedableRng};
use serde_json::{json, Value as J};
use std::collections::{BTreeMap, BTreeSet};
use std::panic::{catch_unwind, AssertUnwindSafe};
use std::path::{Path, PathBuf};
use std::io::{Read, Write};
use std::sync::atomic::{AtomicBool, AtomicI64, AtomicUsize, Ordering};
use std::sync::{Arc, Barrier, Mutex};
use trust_runtime::web::ide::{IdeError, IdeErrorKind, IdeRole, IdeTreeNode, WebIdeState};

// ------------------------------------------------------------------ the movable wall clock
static CLOCK_OFFSET_SECS: AtomicI64 = AtomicI64::new(0);
static REAL_CLOCK_GETTIME: AtomicUsize = AtomicUsize::new(0);

/// Pass-through to libc's `clock_gettime`; CLOCK_REALTIME is shifted by `CLOCK_OFFSET_SECS`, which
/// is zero everywhere except in webide child processes.
#[no_mangle]
pub unsafe extern "C" fn clock_gettime(clk: libc::clockid_t, ts: *mut libc::timespec) -> libc::c_int {
    type F = unsafe extern "C" fn(libc::clockid_t, *mut libc::timespec) -> libc::c_int;
    let mut f = REAL_CLOCK_GETTIME.load(Ordering::Relaxed);
    if f == 0 {
        f = libc::dlsym(libc::RTLD_NEXT, b"clock_gettime\0".as_ptr() as *const libc::c_char) as usize;
        REAL_CLOCK_GETTIME.store(f, Ordering::Relaxed);
    }
    let r = if f == 0 {
        libc::syscall(libc::SYS_clock_gettime, clk, ts) as libc::c_int
    } else {
        std::mem::transmute::<usize, F>(f)(clk, ts)
    };
    if r == 0 && clk == libc::CLOCK_REALTIME {
        let off = CLOCK_OFFSET_SECS.load(Ordering::Relaxed);
        if off != 0 {
            (*ts).tv_sec += off;
        }
    }
    r
}
fn jump_clock(secs: u64) {
    CLOCK_OFFSET_SECS.fetch_add(secs as i64, Ordering::SeqCst);
}
fn wall_secs() -> u64 {
    std::time::SystemTime::now().duration_since(std::time::UNIX_EPOCH).map(|d| d.as_secs()).unwrap_or(0)
}
fn clock_selftest() -> bool {
    let t0 = wall_secs();
    jump_clock(1000);
    let t1 = wall_secs();
    t1 >= t0 + 1000 && t1 <= t0 + 1003
}

// ------------------------------------------------------------------ the sentinel tree
const GUARDS: &str = "g1/g2/g3/g4/g5/g6";
const LONG_LEN: usize = 300;
const WRITTEN: &str = "MARK WRITTEN-BY-CHECK\n";

struct Sentinel {
    scratch: PathBuf,
    tree: J,
    paths: BTreeMap<String, PathBuf>, // node id -> absolute path
    proj_rel: String,                 // project directory relative to scratch
    out_names: BTreeSet<String>,      // names that exist only outside the project
    pristine: BTreeMap<String, String>,
    dirty: bool,
    http: Option<Arc<Ide>>,
}

impl Sentinel {
    fn new(scratch: &Path, tree: &J) -> Self {
        let mut s = Sentinel { scratch: scratch.to_path_buf(), tree: tree.clone(), paths: BTreeMap::new(), proj_rel: String::new(),
                               out_names: BTreeSet::new(), pristine: BTreeMap::new(), dirty: true, http: None };
        let nodes = tree.as_object().expect("tree object");
        // absolute paths, parents first
        let mut todo: Vec<&String> = nodes.keys().collect();
        while !todo.is_empty() {
            let before = todo.len();
            todo.retain(|id| {
                let n = &nodes[*id];
                let parent = n["parent"].as_str().unwrap();
                let base = if parent == "beyond" { Some(s.scratch.join(GUARDS)) } else { s.paths.get(parent).cloned() };
                match base {
                    Some(b) => {
                        s.paths.insert((*id).clone(), b.join(n["name"].as_str().unwrap()));
                        false
                    }
                    None => true,
                }
            });
            assert!(todo.len() < before, "tree has a node without a parent");
        }
        s.proj_rel = s.paths["proj"].strip_prefix(&s.scratch).unwrap().to_string_lossy().to_string();
        let inside: BTreeSet<String> = nodes.values().filter(|n| n["zone"] != "out").map(|n| n["name"].as_str().unwrap().to_string()).collect();
        for n in nodes.values() {
            let name = n["name"].as_str().unwrap().to_string();
            if n["zone"] == "out" && !inside.contains(&name) {
                s.out_names.insert(name);
            }
        }
        for g in GUARDS.split('/') {
            s.out_names.insert(g.to_string());
        }
        s
    }
    fn marker(zone: &str, id: &str) -> String {
        format!("MARK {}:{}\n", match zone { "out" => "OUT", "hid" => "HID", _ => "IN" }, id)
    }
    fn build(&mut self) {
        let _ = std::fs::remove_dir_all(self.scratch.join("g1"));
        std::fs::create_dir_all(self.scratch.join(GUARDS)).expect("mkdir guards");
        std::fs::write(self.scratch.join("g1/guard.st"), Self::marker("out", "guard")).unwrap();
        let nodes = self.tree.as_object().unwrap();
        let mut ids: Vec<&String> = nodes.keys().collect();
        ids.sort_by_key(|id| self.paths[*id].components().count());
        for id in ids {
            let n = &nodes[id];
            let p = &self.paths[id];
            match n["kind"].as_str().unwrap() {
                "dir" => std::fs::create_dir_all(p).expect("mkdir"),
                "file" => std::fs::write(p, Self::marker(n["zone"].as_str().unwrap(), id)).expect("write"),
                "link" => std::os::unix::fs::symlink(&self.paths[n["to"].as_str().unwrap()], p).expect("symlink"),
                _ => {}
            }
        }
        self.pristine = snapshot(&self.scratch);
        self.dirty = false;
    }
    fn ensure(&mut self) {
        if self.dirty {
            self.build();
        }
    }
    fn zone_of(&self, rel: &str) -> &'static str {
        if rel == self.proj_rel {
            return "in";
        }
        match rel.strip_prefix(&format!("{}/", self.proj_rel)) {
            None => "out",
            Some(rest) => {
                if rest.split('/').any(|c| c.starts_with('.')) { "hid" } else { "in" }
            }
        }
    }
    /// (inside, outside, hidden) entries that differ from the pristine tree, and the list of them
    fn diff(&mut self) -> (usize, usize, usize, Vec<J>) {
        let after = snapshot(&self.scratch);
        let keys: BTreeSet<&String> = self.pristine.keys().chain(after.keys()).collect();
        let (mut i, mut o, mut h, mut list) = (0, 0, 0, Vec::new());
        for k in keys {
            let (a, b) = (self.pristine.get(k), after.get(k));
            if a != b {
                let z = self.zone_of(k);
                match z { "in" => i += 1, "out" => o += 1, _ => h += 1 }
                let kind = if a.is_none() { "created" } else if b.is_none() { "removed" } else { "modified" };
                if list.len() < 8 {
                    list.push(json!({"path": k, "zone": z, "kind": kind}));
                }
            }
        }
        if i + o + h > 0 {
            self.dirty = true;
        }
        (i, o, h, list)
    }
    fn concrete(&self, comps: &[String]) -> String {
        comps.iter().map(|c| match c.as_str() {
            "<ABS>" => self.paths["base"].to_string_lossy().to_string(),
            "<LONG>" => format!("{}.st", "x".repeat(LONG_LEN)),
            "<BSL>" => "a\\..\\..\\outside".to_string(),
            "<HUGE>" => "y/".repeat(3000) + "z.st",
            o => o.to_string(),
        }).collect::<Vec<_>>().join("/")
    }
    /// through which kind of symbolic link a listed project-relative path leads
    fn via(&self, listed: &str) -> &'static str {
        let mut cur = self.paths["proj"].clone();
        for c in listed.split('/') {
            cur = cur.join(c);
            if let Ok(md) = std::fs::symlink_metadata(&cur) {
                if md.file_type().is_symlink() {
                    return if cur.is_dir() { "dir-symlink" } else { "file-symlink" };
                }
            }
        }
        "none"
    }
}

fn snapshot(root: &Path) -> BTreeMap<String, String> {
    use std::os::unix::fs::MetadataExt;
    let mut out = BTreeMap::new();
    let mut stack = vec![root.to_path_buf()];
    while let Some(d) = stack.pop() {
        let rd = match std::fs::read_dir(&d) { Ok(r) => r, Err(_) => continue };
        for e in rd.flatten() {
            let p = e.path();
            let md = match std::fs::symlink_metadata(&p) { Ok(m) => m, Err(_) => continue };
            let rel = p.strip_prefix(root).unwrap().to_string_lossy().to_string();
            if md.file_type().is_symlink() {
                out.insert(rel, format!("link:{}", std::fs::read_link(&p).map(|t| t.to_string_lossy().to_string()).unwrap_or_default()));
            } else if md.is_dir() {
                out.insert(rel, format!("dir:{}.{}:{:o}", md.mtime(), md.mtime_nsec(), md.mode()));
                stack.push(p);
            } else {
                let bytes = std::fs::read(&p).unwrap_or_default();
                let shown = String::from_utf8_lossy(&bytes[..bytes.len().min(64)]).to_string();
                out.insert(rel, format!("file:{}.{}:{:o}:{}:{}", md.mtime(), md.mtime_nsec(), md.mode(), bytes.len(), shown));
            }
        }
    }
    out
}

// ------------------------------------------------------------------ calls
fn err_kind(e: &IdeError) -> &'static str {
    match e.kind() {
        IdeErrorKind::Unauthorized => "unauthorized",
        IdeErrorKind::Forbidden => "forbidden",
        IdeErrorKind::NotFound => "notfound",
        IdeErrorKind::Conflict => "conflict",
        IdeErrorKind::InvalidInput => "invalid",
        IdeErrorKind::TooLarge => "toolarge",
        IdeErrorKind::LimitExceeded => "limit",
        IdeErrorKind::Internal => "internal",
    }
}
fn panic_msg(e: Box<dyn std::any::Any + Send>) -> String {
    e.downcast_ref::<String>().cloned().or_else(|| e.downcast_ref::<&str>().map(|s| s.to_string())).unwrap_or_else(|| "panic".into())
}

// ------------------------------------------------------------------ the API, called directly or over HTTP
/// `--http`: every call goes through the real web server (`trust_runtime::web::start_web_server`, the routes
/// of web.rs: session header, query / JSON decoding, status codes) instead of straight into `WebIdeState`.
static HTTP_MODE: AtomicBool = AtomicBool::new(false);
fn http_mode() -> bool {
    HTTP_MODE.load(Ordering::Relaxed)
}
struct IdeErr {
    kind: &'static str,
    msg: String,
    ver: Option<u64>,
}
fn ide_err(e: &IdeError) -> IdeErr {
    IdeErr { kind: err_kind(e), msg: e.to_string(), ver: e.current_version() }
}
/// `IdeError::status_code` read backwards
fn kind_of_status(code: u16) -> &'static str {
    match code {
        401 => "unauthorized",
        403 => "forbidden",
        404 => "notfound",
        409 => "conflict",
        400 => "invalid",
        413 => "toolarge",
        429 => "limit",
        500 => "internal",
        _ => "http-status",
    }
}
struct HttpIde {
    addr: String,
    _server: trust_runtime::web::WebServer,
    _fx: Mutex<crate::ctrlauth::Fx>,
}
enum Ide {
    Direct(WebIdeState),
    Http(HttpIde),
}
static HTTP_SEQ: AtomicUsize = AtomicUsize::new(0);
fn pct(s: &str) -> String {
    s.bytes().map(|b| if b.is_ascii_alphanumeric() { (b as char).to_string() } else { format!("%{b:02X}") }).collect()
}
impl HttpIde {
    fn start(proj: PathBuf, work: &Path) -> Result<HttpIde, String> {
        let n = HTTP_SEQ.fetch_add(1, Ordering::SeqCst);
        // next to the work directory, not inside it: the work directory is the sentinel tree that is snapshotted
        let fxdir = work.parent().unwrap_or(work).join(format!("{}-httpfx/{n}", work.file_name().map(|f| f.to_string_lossy().to_string()).unwrap_or_default()));
        std::fs::create_dir_all(&fxdir).map_err(|e| e.to_string())?;
        let fx = crate::ctrlauth::Fx::build_with_pairing(&fxdir, &crate::ctrlauth::Cfg { token: false, debug: false, mode: "debug".into() }, None);
        for _ in 0..20 {
            let port = {
                let l = std::net::TcpListener::bind("127.0.0.1:0").map_err(|e| e.to_string())?;
                l.local_addr().map_err(|e| e.to_string())?.port()
            };
            let addr = format!("127.0.0.1:{port}");
            let cfg = trust_runtime::config::WebConfig { enabled: true, listen: addr.as_str().into(), auth: trust_runtime::config::WebAuthMode::Local, tls: false };
            if let Ok(server) = trust_runtime::web::start_web_server(&cfg, fx.control_state(), None, None, Some(proj.clone()), None) {
                let h = HttpIde { addr, _server: server, _fx: Mutex::new(fx) };
                for _ in 0..200 {
                    if h.req("GET", "/api/ide/capabilities", None, None).is_ok() {
                        return Ok(h);
                    }
                    std::thread::sleep(std::time::Duration::from_millis(5));
                }
                return Err("web server does not answer".into());
            }
        }
        Err("no free loopback port for the web server".into())
    }
    /// One HTTP/1.0 request on a connection of its own -> (status, JSON body)
    fn req(&self, method: &str, url: &str, session: Option<&str>, body: Option<&J>) -> Result<(u16, J), String> {
        let mut s = std::net::TcpStream::connect(&self.addr).map_err(|e| e.to_string())?;
        s.set_read_timeout(Some(std::time::Duration::from_secs(60))).ok();
        let b = body.map(|b| b.to_string()).unwrap_or_default();
        let mut head = format!("{method} {url} HTTP/1.0\r\nHost: {}\r\n", self.addr);
        if let Some(t) = session {
            head.push_str(&format!("X-Trust-Ide-Session: {t}\r\n"));
        }
        if method == "POST" {
            head.push_str(&format!("Content-Type: application/json\r\nContent-Length: {}\r\n", b.len()));
        }
        head.push_str("\r\n");
        s.write_all(head.as_bytes()).map_err(|e| e.to_string())?;
        s.write_all(b.as_bytes()).map_err(|e| e.to_string())?;
        let mut raw = Vec::new();
        s.read_to_end(&mut raw).map_err(|e| e.to_string())?;
        let text = String::from_utf8_lossy(&raw).to_string();
        let status: u16 = text.split_whitespace().nth(1).and_then(|c| c.parse().ok()).ok_or_else(|| format!("no status line in {:?}", text.chars().take(80).collect::<String>()))?;
        let body = text.split_once("\r\n\r\n").map(|x| x.1).unwrap_or("");
        Ok((status, serde_json::from_str(body).unwrap_or(J::Null)))
    }
    /// -> the `result` of an ok answer, or the error an `IdeError` would have been
    fn call(&self, method: &str, url: &str, session: &str, body: Option<J>) -> Result<J, IdeErr> {
        match self.req(method, url, Some(session), body.as_ref()) {
            Err(e) => panic!("TOOL: http transport: {e}"),
            Ok((200, j)) if j["ok"] == true => Ok(j["result"].clone()),
            Ok((code, j)) => Err(IdeErr { kind: kind_of_status(code), msg: j["error"].as_str().unwrap_or("").to_string(), ver: j["current_version"].as_u64() }),
        }
    }
}
fn tree_names(nodes: &J, out: &mut Vec<String>) {
    for n in nodes.as_array().map(|a| a.as_slice()).unwrap_or(&[]) {
        out.push(n["path"].as_str().unwrap_or("").to_string());
        out.push(n["name"].as_str().unwrap_or("").to_string());
        tree_names(&n["children"], out);
    }
}
impl Ide {
    fn new(proj: PathBuf, work: &Path) -> Result<Ide, String> {
        if http_mode() {
            HttpIde::start(proj, work).map(Ide::Http)
        } else {
            Ok(Ide::Direct(WebIdeState::new(Some(proj))))
        }
    }
    fn create_session(&self, role: IdeRole) -> Result<String, String> {
        match self {
            Ide::Direct(ide) => ide.create_session(role).map(|s| s.token).map_err(|e| e.to_string()),
            Ide::Http(h) => {
                let r = if matches!(role, IdeRole::Editor) { "editor" } else { "viewer" };
                match h.req("POST", "/api/ide/session", None, Some(&json!({"role": r}))) {
                    Ok((200, j)) if j["ok"] == true => j["result"]["token"].as_str().map(str::to_string).ok_or_else(|| "session without token".to_string()),
                    Ok((c, j)) => Err(format!("session refused: {c} {j}")),
                    Err(e) => Err(e),
                }
            }
        }
    }
    fn ttl(&self) -> u64 {
        match self {
            Ide::Direct(ide) => ide.capabilities(true).limits.session_ttl_secs,
            Ide::Http(h) => h.req("GET", "/api/ide/capabilities", None, None).ok().and_then(|(_, j)| j["result"]["limits"]["session_ttl_secs"].as_u64()).expect("TOOL: capabilities over http"),
        }
    }
    /// any request that renews the session's idle timer
    fn renew(&self, tok: &str) {
        match self {
            Ide::Direct(ide) => {
                let _ = ide.project_selection(tok);
            }
            Ide::Http(h) => {
                let _ = h.req("GET", "/api/ide/project", Some(tok), None);
            }
        }
    }
    fn open(&self, tok: &str, p: &str) -> Result<(String, u64), IdeErr> {
        match self {
            Ide::Direct(ide) => ide.open_source(tok, p).map(|s| (s.content, s.version)).map_err(|e| ide_err(&e)),
            Ide::Http(h) => h.call("GET", &format!("/api/ide/file?path={}", pct(p)), tok, None).map(|r| (r["content"].as_str().unwrap_or("").to_string(), r["version"].as_u64().unwrap_or(0))),
        }
    }
    fn write(&self, tok: &str, p: &str, exp: u64, content: String, we: bool) -> Result<u64, IdeErr> {
        match self {
            Ide::Direct(ide) => ide.apply_source(tok, p, exp, content, we).map(|w| w.version).map_err(|e| ide_err(&e)),
            Ide::Http(h) => h.call("POST", "/api/ide/file", tok, Some(json!({"path": p, "expected_version": exp, "content": content}))).map(|r| r["version"].as_u64().unwrap_or(0)),
        }
    }
    fn create(&self, tok: &str, p: &str, dir: bool, content: Option<String>, we: bool) -> Result<String, IdeErr> {
        match self {
            Ide::Direct(ide) => ide.create_entry(tok, p, dir, content, we).map(|r| r.path).map_err(|e| ide_err(&e)),
            Ide::Http(h) => h.call("POST", "/api/ide/fs/create", tok, Some(json!({"path": p, "kind": if dir { "directory" } else { "file" }, "content": content}))).map(|r| r["path"].as_str().unwrap_or("").to_string()),
        }
    }
    fn delete(&self, tok: &str, p: &str, we: bool) -> Result<String, IdeErr> {
        match self {
            Ide::Direct(ide) => ide.delete_entry(tok, p, we).map(|r| r.path).map_err(|e| ide_err(&e)),
            Ide::Http(h) => h.call("POST", "/api/ide/fs/delete", tok, Some(json!({"path": p}))).map(|r| r["path"].as_str().unwrap_or("").to_string()),
        }
    }
    fn rename(&self, tok: &str, p: &str, new: &str, we: bool) -> Result<String, IdeErr> {
        static TURN: AtomicUsize = AtomicUsize::new(0);
        match self {
            Ide::Direct(ide) => ide.rename_entry(tok, p, new, we).map(|r| r.path).map_err(|e| ide_err(&e)),
            Ide::Http(h) => {
                // the two spellings of the route, in turn
                let url = if TURN.fetch_add(1, Ordering::Relaxed) % 2 == 0 { "/api/ide/fs/rename" } else { "/api/ide/fs/move" };
                h.call("POST", url, tok, Some(json!({"path": p, "new_path": new}))).map(|r| r["path"].as_str().unwrap_or("").to_string())
            }
        }
    }
    fn list(&self, tok: &str) -> Result<Vec<String>, IdeErr> {
        match self {
            Ide::Direct(ide) => ide.list_sources(tok).map_err(|e| ide_err(&e)),
            Ide::Http(h) => h.call("GET", "/api/ide/files", tok, None).map(|r| r["files"].as_array().map(|a| a.iter().map(|f| f.as_str().unwrap_or("").to_string()).collect()).unwrap_or_default()),
        }
    }
    fn tree(&self, tok: &str) -> Result<Vec<String>, IdeErr> {
        match self {
            Ide::Direct(ide) => ide.list_tree(tok).map(|v| {
                let mut names = Vec::new();
                flatten_tree(&v, &mut names);
                names
            }).map_err(|e| ide_err(&e)),
            Ide::Http(h) => h.call("GET", "/api/ide/tree", tok, None).map(|r| {
                let mut names = Vec::new();
                tree_names(&r["tree"], &mut names);
                names
            }),
        }
    }
    /// -> (previews, paths) of the hits for "mark"
    fn search(&self, tok: &str) -> Result<(Vec<String>, Vec<String>), IdeErr> {
        match self {
            Ide::Direct(ide) => ide.workspace_search(tok, "mark", None, None, 10_000).map(|v| (v.iter().map(|h| h.preview.clone()).collect(), v.iter().map(|h| h.path.clone()).collect())).map_err(|e| ide_err(&e)),
            Ide::Http(h) => h.call("GET", "/api/ide/search?q=mark&limit=500", tok, None).map(|r| {
                let hits = r.as_array().cloned().or_else(|| r["hits"].as_array().cloned()).unwrap_or_default();
                (hits.iter().map(|h| h["preview"].as_str().unwrap_or("").to_string()).collect(), hits.iter().map(|h| h["path"].as_str().unwrap_or("").to_string()).collect())
            }),
        }
    }
}

fn ttl(ide: &Ide) -> u64 {
    ide.ttl()
}
/// A session token of the requested kind on a fresh state.
fn token_for(ide: &Ide, sk: &str) -> Result<String, String> {
    match sk {
        "editor" => ide.create_session(IdeRole::Editor),
        "viewer" => ide.create_session(IdeRole::Viewer),
        "expired" => {
            let t = ide.create_session(IdeRole::Editor)?;
            jump_clock(ttl(ide) + 1);
            Ok(t)
        }
        _ => {
            // no session token at all, but a near miss of a live editor session's token (a proper prefix,
            // an extension, another letter case, the empty string) or an unrelated string, in turn
            static TURN: std::sync::atomic::AtomicUsize = std::sync::atomic::AtomicUsize::new(0);
            let live = ide.create_session(IdeRole::Editor)?;
            let turn = TURN.fetch_add(1, std::sync::atomic::Ordering::SeqCst);
            Ok(match turn % 5 {
                0 => live[..live.len() - 1].to_string(),
                1 => format!("{live}A"),
                2 if live.to_ascii_uppercase() != live => live.to_ascii_uppercase(),
                2 => live.to_ascii_lowercase(),
                3 => String::new(),
                _ => "bm90LWEtc2Vzc2lvbi10b2tlbi1ub3QtYS1zZXNzaW9uLXRva2Vu".to_string(),
            })
        }
    }
}
fn flatten_tree(nodes: &[IdeTreeNode], out: &mut Vec<String>) {
    for n in nodes {
        out.push(n.path.clone());
        out.push(n.name.clone());
        flatten_tree(&n.children, out);
    }
}
struct Obs {
    ok: bool,
    kind: String,
    texts: Vec<String>, // bytes the call returned
    names: Vec<String>, // project-relative paths / names the call returned
}
fn obs_err(e: &IdeErr) -> Obs {
    // an error message is an answer too
    Obs { ok: false, kind: e.kind.to_string(), texts: vec![e.msg.clone()], names: vec![] }
}
const PATH_OPS: [&str; 7] = ["open", "write", "create", "mkdir", "delete", "rename_from", "rename_to"];
const MUTATING: [&str; 6] = ["write", "create", "mkdir", "delete", "rename_from", "rename_to"];
const LIST_OPS: [&str; 3] = ["list", "tree", "search"];

fn do_call(ide: &Ide, tok: &str, op: &str, p: &str, we: bool) -> Obs {
    let fs = |r: Result<String, IdeErr>| match r {
        Ok(path) => Obs { ok: true, kind: "ok".into(), texts: vec![], names: vec![path] },
        Err(e) => obs_err(&e),
    };
    match op {
        "open" => match ide.open(tok, p) {
            Ok((content, _)) => Obs { ok: true, kind: "ok".into(), texts: vec![content], names: vec![] },
            Err(e) => obs_err(&e),
        },
        "write" => {
            // the version comes from an open by the same session, as a browser would do it (what
            // that open returns is judged by the "open" operation, not here)
            let expected = ide.open(tok, p).map(|s| s.1).unwrap_or(1);
            match ide.write(tok, p, expected, WRITTEN.to_string(), we) {
                Ok(_) => Obs { ok: true, kind: "ok".into(), texts: vec![], names: vec![] },
                Err(e) => obs_err(&e),
            }
        }
        "create" => fs(ide.create(tok, p, false, Some(WRITTEN.to_string()), we)),
        "mkdir" => fs(ide.create(tok, p, true, None, we)),
        "delete" => fs(ide.delete(tok, p, we)),
        "rename_from" => fs(ide.rename(tok, p, "moved.st", we)),
        "rename_to" => fs(ide.rename(tok, "top.st", p, we)),
        "list" => match ide.list(tok) {
            Ok(v) => Obs { ok: true, kind: "ok".into(), texts: vec![], names: v },
            Err(e) => obs_err(&e),
        },
        "tree" => match ide.tree(tok) {
            Ok(names) => Obs { ok: true, kind: "ok".into(), texts: vec![], names },
            Err(e) => obs_err(&e),
        },
        "search" => match ide.search(tok) {
            Ok((texts, names)) => Obs { ok: true, kind: "ok".into(), texts, names },
            Err(e) => obs_err(&e),
        },
        o => panic!("unknown op {o}"),
    }
}

/// One call on a pristine sentinel with a fresh state; returns the recorded event.
fn one_call(sn: &mut Sentinel, op: &str, pstr: &str, sk: &str, we: bool) -> J {
    sn.ensure();
    // (over HTTP one server per sentinel serves every call: the project directory is the same, and a server
    // cannot be shut down; its state survives the restoring of the sentinel, as a running IDE's would)
    if http_mode() && sn.http.is_none() {
        match Ide::new(sn.paths["proj"].clone(), &sn.scratch) {
            Ok(i) => sn.http = Some(Arc::new(i)),
            Err(e) => return json!({"a": "ToolError", "msg": format!("web server: {e}")}),
        }
    }
    let ide: Arc<Ide> = match &sn.http {
        Some(i) => i.clone(),
        None => Arc::new(Ide::Direct(WebIdeState::new(Some(sn.paths["proj"].clone())))),
    };
    let ide = &*ide;
    if http_mode() {
        // the sessions of the earlier calls on this server idle out (a state allows only so many live ones)
        jump_clock(ttl(ide) + 1);
    }
    let tok = match token_for(ide, sk) {
        Ok(t) => t,
        Err(e) => return json!({"a": "ToolError", "msg": format!("create_session: {e}")}),
    };
    let a = if LIST_OPS.contains(&op) { "List" } else { "Op" };
    let r = catch_unwind(AssertUnwindSafe(|| do_call(ide, &tok, op, pstr, we)));
    let (di, dout, dh, changed) = sn.diff();
    match r {
        Err(e) => json!({"a": "Panic", "op": op, "sk": sk, "we": we, "msg": panic_msg(e), "dIn": di, "dOut": dout, "dHid": dh, "changed": changed}),
        Ok(o) => {
            let leak_out_bytes = o.texts.iter().any(|t| t.contains("OUT:"));
            let leak_hid_bytes = o.texts.iter().any(|t| t.contains("HID:"));
            let mut via = BTreeSet::new();
            let mut leaked = Vec::new();
            let (mut leak_out_names, mut leak_hid_names) = (false, false);
            if a == "List" {
                for n in &o.names {
                    let comps: Vec<&str> = n.split('/').collect();
                    let outn = comps.iter().any(|c| sn.out_names.contains(*c));
                    let hidn = comps.iter().any(|c| c.starts_with('.'));
                    if outn || hidn {
                        leak_out_names |= outn;
                        leak_hid_names |= hidn;
                        via.insert(sn.via(n));
                        if leaked.len() < 6 {
                            leaked.push(n.clone());
                        }
                    }
                }
                for (t, n) in o.texts.iter().zip(o.names.iter()) {
                    if t.contains("OUT:") || t.contains("HID:") {
                        via.insert(sn.via(n));
                        if leaked.len() < 6 {
                            leaked.push(format!("{n}: {}", t.trim()));
                        }
                    }
                }
            }
            via.remove("none");
            json!({"a": a, "op": op, "sk": sk, "we": we, "ok": o.ok, "kind": o.kind,
                   "dIn": di, "dOut": dout, "dHid": dh,
                   "leakOut": leak_out_bytes || leak_out_names, "leakHid": leak_hid_bytes || leak_hid_names,
                   "leakBytes": leak_out_bytes || leak_hid_bytes, "leakNames": leak_out_names || leak_hid_names,
                   "via": via.into_iter().collect::<Vec<_>>().join("+"), "leaked": leaked, "changed": changed})
        }
    }
}

fn run_path_script(sn: &mut Sentinel, sc: &J, o: &mut Out) {
    let comps: Vec<String> = sc["path"].as_array().unwrap().iter().map(|c| c.as_str().unwrap().to_string()).collect();
    let pstr = sn.concrete(&comps);
    let shown: String = pstr.chars().take(200).collect();
    o.line(&json!({"a": "Reset", "path": comps, "str": shown}));
    o.flush();
    // an absolute path that does not point into the sentinel must never be handed to a creating
    // operation: a broken tree under test would create it in the real file system
    let base = sn.paths["base"].to_string_lossy().to_string();
    let trimmed = pstr.trim();
    let foreign_abs = trimmed.starts_with('/') && !(trimmed == base || trimmed.starts_with(&format!("{base}/")));
    for op in PATH_OPS {
        if foreign_abs && ["create", "mkdir", "rename_to"].contains(&op) {
            continue;
        }
        let ev = one_call(sn, op, &pstr, "editor", true);
        let effective = ev["dIn"].as_u64().unwrap_or(0) + ev["dOut"].as_u64().unwrap_or(0) + ev["dHid"].as_u64().unwrap_or(0) > 0;
        o.line(&ev);
        if effective && MUTATING.contains(&op) {
            for (sk, we) in [("viewer", true), ("expired", true), ("invalid", true), ("editor", false)] {
                if http_mode() && !we {
                    continue; // the web routes always pass write_enabled = true
                }
                o.line(&one_call(sn, op, &pstr, sk, we));
            }
        }
    }
}
fn run_list_script(sn: &mut Sentinel, o: &mut Out) {
    o.line(&json!({"a": "Reset", "path": [], "str": ""}));
    o.flush();
    for op in LIST_OPS {
        for sk in ["editor", "viewer", "expired", "invalid"] {
            o.line(&one_call(sn, op, "", sk, true));
        }
    }
}

// ------------------------------------------------------------------ histories on one file
const DOC: &str = "doc.st";
const TORN_BASE: i64 = 9000;
const TORN_MAX: i64 = 7;
fn content_of(id: i64, pad: usize) -> String {
    format!("C{id:05}\n{}", " ".repeat(pad))
}
struct Hist {
    ide: Ide,
    file: PathBuf,
    pad: usize,
    tokens: Vec<String>,
    roles: Vec<String>,
    /// the shared, real-time ordered log; content ids are handed out while it is locked, in the
    /// order of the Begin / Ext events (the model numbers new contents the same way)
    log: Mutex<(Vec<J>, i64)>,
    torn: Mutex<Vec<String>>,
}
impl Hist {
    /// content id of a text read back: n for a complete content, 0 for the empty file, 9000.. for
    /// a torn read (one id per distinct torn text)
    fn content_id(&self, text: &str) -> i64 {
        if text.is_empty() {
            return 0;
        }
        if let Some(n) = text.lines().next().and_then(|f| f.strip_prefix('C')).and_then(|d| d.parse::<i64>().ok()) {
            if n >= 1 && n < TORN_BASE && text == content_of(n, self.pad) {
                return n;
            }
        }
        let mut t = self.torn.lock().unwrap();
        let k = match t.iter().position(|x| x == text) {
            Some(k) => k,
            None => {
                t.push(text.to_string());
                t.len() - 1
            }
        };
        TORN_BASE + (k as i64).min(TORN_MAX)
    }
    fn begin(&self, s: usize, op: &str, we: bool, exp: u64) -> i64 {
        let mut l = self.log.lock().unwrap();
        let new = if op == "write" {
            l.1 += 1;
            l.1
        } else {
            0
        };
        l.0.push(json!({"a": "B", "s": s, "op": op, "we": we, "exp": exp, "new": new}));
        new
    }
    fn end(&self, s: usize, r: &J) {
        self.log.lock().unwrap().0.push(json!({"a": "E", "s": s, "ok": r["ok"], "kind": r["kind"], "ver": r["ver"], "content": r["content"]}));
    }
    fn event(&self, e: J) {
        self.log.lock().unwrap().0.push(e);
    }
    fn open(&self, s: usize, known: &mut Vec<u64>) {
        self.begin(s, "open", true, 0);
        let r = match catch_unwind(AssertUnwindSafe(|| self.ide.open(&self.tokens[s - 1], DOC))) {
            Err(_) => json!({"ok": false, "kind": "panic", "ver": 0, "content": 0}),
            Ok(Ok((content, version))) => json!({"ok": true, "kind": "ok", "ver": version, "content": self.content_id(&content)}),
            Ok(Err(e)) => json!({"ok": false, "kind": hist_kind(&e), "ver": e.ver.unwrap_or(0), "content": 0}),
        };
        learn(known, &r);
        self.end(s, &r);
    }
    fn write(&self, s: usize, known: &mut Vec<u64>, we: bool, stale: bool) {
        let we = we || http_mode(); // the web routes always pass write_enabled = true
        let exp = pick_version(known, stale);
        let new = self.begin(s, "write", we, exp);
        let r = match catch_unwind(AssertUnwindSafe(|| self.ide.write(&self.tokens[s - 1], DOC, exp, content_of(new, self.pad), we))) {
            Err(_) => json!({"ok": false, "kind": "panic", "ver": 0, "content": 0}),
            Ok(Ok(version)) => json!({"ok": true, "kind": "ok", "ver": version, "content": 0}),
            Ok(Err(e)) => json!({"ok": false, "kind": hist_kind(&e), "ver": e.ver.unwrap_or(0), "content": 0}),
        };
        learn(known, &r);
        self.end(s, &r);
    }
    /// File operations on OTHER entries of the project whose names share a prefix with the document's
    /// (a directory `doc` next to `doc.st`, `doc.st.bak`, `do/`, ...), done by a session of its own that
    /// is not part of the history: for the model nothing happens to the document, so these calls are not
    /// logged -- any effect they have on the document's version or content makes the history unexplainable.
    /// Each variant leaves the project as it found it.
    fn other(&self, k: u64) {
        let Ok(sess) = self.ide.create_session(IdeRole::Editor) else { return };
        let t = sess.as_str();
        let ide = &self.ide;
        let _ = catch_unwind(AssertUnwindSafe(|| match k % 6 {
            0 => {
                let _ = ide.create(t, "doc", true, None, true);
                let _ = ide.delete(t, "doc", true);
            }
            1 => {
                let _ = ide.create(t, "doc.st.bak", false, Some("x".into()), true);
                let _ = ide.open(t, "doc.st.bak");
                let _ = ide.delete(t, "doc.st.bak", true);
            }
            2 => {
                let _ = ide.create(t, "do", true, None, true);
                let _ = ide.create(t, "do/doc.st", false, Some("y".into()), true);
                let _ = ide.open(t, "do/doc.st");
                let _ = ide.delete(t, "do", true);
            }
            3 => {
                let _ = ide.create(t, "doc.s", false, Some("z".into()), true);
                let _ = ide.rename(t, "doc.s", "doc.stx", true);
                let _ = ide.delete(t, "doc.stx", true);
            }
            4 => {
                let _ = ide.create(t, "d", true, None, true);
                let _ = ide.rename(t, "d", "doc.st.d", true);
                let _ = ide.delete(t, "doc.st.d", true);
            }
            _ => {
                let _ = ide.delete(t, "doc.stx", true);
                let _ = ide.delete(t, "DOC.ST.", true);
                let _ = ide.rename(t, "nothing.st", "doc.st2", true);
            }
        }));
    }
    fn finish(&self, kind: &str) -> J {
        let text = std::fs::read_to_string(&self.file).unwrap_or_default();
        let disk = self.content_id(&text);
        let mut ev = std::mem::take(&mut self.log.lock().unwrap().0);
        // every Begin gets the (1-based) index of the End of its call
        let mut open_call: BTreeMap<u64, usize> = BTreeMap::new();
        for k in 0..ev.len() {
            let s = ev[k]["s"].as_u64().unwrap_or(0);
            if ev[k]["a"] == "B" {
                open_call.insert(s, k);
            } else if ev[k]["a"] == "E" {
                if let Some(b) = open_call.remove(&s) {
                    ev[b]["e"] = json!(k + 1);
                }
            }
        }
        ev.push(json!({"a": "Final", "disk": disk}));
        json!({"a": "Run", "kind": kind, "roles": self.roles, "ev": ev})
    }
}
fn hist_kind(e: &IdeErr) -> &'static str {
    match e.kind {
        "conflict" => "conflict",
        "unauthorized" => "unauthorized",
        "forbidden" => "forbidden",
        _ => "other",
    }
}
fn setup_hist(dir: &Path, roles: &[String], pad: usize) -> Result<Hist, String> {
    let proj = dir.join("hist/project");
    let _ = std::fs::remove_dir_all(dir.join("hist"));
    std::fs::create_dir_all(&proj).map_err(|e| e.to_string())?;
    let file = proj.join(DOC);
    std::fs::write(&file, content_of(1, pad)).map_err(|e| e.to_string())?;
    let ide = Ide::new(proj, dir)?;
    let mut tokens = Vec::new();
    for r in roles {
        tokens.push(match r.as_str() {
            "editor" => ide.create_session(IdeRole::Editor)?,
            "viewer" => ide.create_session(IdeRole::Viewer)?,
            _ => format!("bm90LWEtc2Vzc2lvbi10b2tlbi0{}", tokens.len()),
        });
    }
    Ok(Hist { ide, file, pad, tokens, roles: roles.to_vec(), log: Mutex::new((Vec::new(), 1)), torn: Mutex::new(Vec::new()) })
}
fn roles_of(sc: &J) -> Vec<String> {
    sc["roles"].as_array().unwrap().iter().map(|r| r.as_str().unwrap().to_string()).collect()
}
/// the version a session uses for its next write: the last one it learned (open / own write),
/// or (`stale`) the different one it had learned before that
fn pick_version(known: &[u64], stale: bool) -> u64 {
    match known.len() {
        0 => 0,
        1 => known[0],
        n => if stale { known[n - 2] } else { known[n - 1] },
    }
}
fn learn(known: &mut Vec<u64>, res: &J) {
    if res["ok"] == true {
        let v = res["ver"].as_u64().unwrap_or(0);
        if known.last() != Some(&v) {
            known.push(v);
        }
    }
}
fn tool_error_run(kind: &str, roles: &[String], msg: String) -> J {
    json!({"a": "Run", "kind": kind, "roles": roles, "ev": [{"a": "ToolError", "msg": msg}]})
}

fn run_seq_script(dir: &Path, sc: &J) -> J {
    let roles = roles_of(sc);
    let steps = sc["steps"].as_array().unwrap();
    let pad = sc["pad"].as_u64().unwrap_or(0) as usize;
    let h = match setup_hist(dir, &roles, pad) {
        Ok(h) => h,
        Err(e) => return tool_error_run("seq", &roles, e),
    };
    let mut known: Vec<Vec<u64>> = vec![Vec::new(); roles.len()];
    let mut alive: Vec<bool> = roles.iter().map(|r| r != "invalid").collect();
    let ttl = ttl(&h.ide);
    for st in steps {
        let a = st["a"].as_str().unwrap();
        let s = st["s"].as_u64().unwrap_or(1) as usize; // 1-based
        match a {
            "open" => h.open(s, &mut known[s - 1]),
            "write" => h.write(s, &mut known[s - 1], st["we"].as_bool().unwrap_or(true), st["stale"].as_bool().unwrap_or(false)),
            "other" => h.other(st["k"].as_u64().unwrap_or(0)),
            "expire" => {
                // let exactly this session idle for longer than the TTL: renew the others, half the
                // TTL, renew the others, the other half
                for half in [ttl / 2, ttl - ttl / 2 + 1] {
                    for (i, t) in h.tokens.iter().enumerate() {
                        if i != s - 1 && alive[i] {
                            h.ide.renew(t);
                        }
                    }
                    jump_clock(half);
                }
                alive[s - 1] = false;
                h.event(json!({"a": "Expire", "s": s}));
            }
            "ext" => {
                let new = {
                    let mut l = h.log.lock().unwrap();
                    l.1 += 1;
                    l.1
                };
                let tmp = h.file.with_extension("tmp-ext");
                std::fs::write(&tmp, content_of(new, pad)).unwrap();
                std::fs::rename(&tmp, &h.file).unwrap();
                h.event(json!({"a": "Ext", "new": new}));
            }
            o => panic!("unknown step {o}"),
        }
    }
    h.finish("seq")
}

fn spin_us(us: u64) {
    if us == 0 {
        return;
    }
    if us >= 100 {
        std::thread::sleep(std::time::Duration::from_micros(us));
        return;
    }
    let t = std::time::Instant::now();
    while (t.elapsed().as_micros() as u64) < us {
        std::hint::spin_loop();
    }
}
fn run_conc_script(dir: &Path, sc: &J) -> J {
    let roles = roles_of(sc);
    let pad = sc["pad"].as_u64().unwrap_or(0) as usize;
    let calls = sc["calls"].as_array().unwrap();
    let h = match setup_hist(dir, &roles, pad) {
        Ok(h) => Arc::new(h),
        Err(e) => return tool_error_run("conc", &roles, e),
    };
    let barrier = Arc::new(Barrier::new(roles.len()));
    let mut handles = Vec::new();
    for (t, prog) in calls.iter().enumerate() {
        let prog: Vec<J> = prog.as_array().unwrap().clone();
        let (h, barrier) = (h.clone(), barrier.clone());
        handles.push(std::thread::spawn(move || {
            let s = t + 1;
            let mut known: Vec<u64> = Vec::new();
            barrier.wait();
            for c in prog.iter() {
                spin_us(c["d"].as_u64().unwrap_or(0));
                if c["a"] == "other" {
                    h.other(c["k"].as_u64().unwrap_or(0));
                } else if c["a"] == "open" {
                    h.open(s, &mut known);
                } else {
                    h.write(s, &mut known, c["we"].as_bool().unwrap_or(true), c["stale"].as_bool().unwrap_or(false));
                }
            }
        }));
    }
    let mut crashed = false;
    for hd in handles {
        crashed |= hd.join().is_err();
    }
    if crashed {
        return tool_error_run("conc", &roles, "a harness thread panicked".into());
    }
    h.finish("conc")
}

// ------------------------------------------------------------------ running
pub fn run(args: &[String]) -> i32 {
    if args.iter().any(|a| a == "--child") {
        return child(args);
    }
    let path = arg(args, "--scripts").expect("--scripts");
    let out = arg(args, "--out").expect("--out");
    let work = arg(args, "--work").expect("--work");
    let tree = arg(args, "--tree").expect("--tree");
    let n = read_ndjson(path).len();
    let jobs = (arg_u64(args, "--jobs", 8) as usize).clamp(1, n.max(1));
    let exe = crate::util::self_exe();
    let http = args.iter().any(|a| a == "--http");
    let handles: Vec<_> = (0..jobs)
        .map(|j| {
            let (exe, path, part, work, tree) = (exe.clone(), path.to_string(), format!("{out}.part{j}"), format!("{work}/j{j}"), tree.to_string());
            std::thread::spawn(move || -> Result<(), String> {
                let _ = std::fs::remove_file(&part);
                std::fs::File::create(&part).map_err(|e| e.to_string())?;
                std::fs::create_dir_all(&work).map_err(|e| e.to_string())?;
                let mut started = 0usize;
                while j + started * jobs < n {
                    let from = j + started * jobs;
                    let st = std::process::Command::new(&exe)
                        .args(["webide-run", "--child", "--scripts", &path, "--out", &part, "--work", &work, "--tree", &tree,
                               "--from", &from.to_string(), "--step", &jobs.to_string()])
                        .args(if http { vec!["--http"] } else { vec![] })
                        .status()
                        .map_err(|e| e.to_string())?;
                    if st.success() {
                        break;
                    }
                    if st.code() == Some(75) {
                        // the child asked for a fresh process (web servers cannot be shut down and leave their threads
                        // behind): every script it started is complete
                        let text = std::fs::read_to_string(&part).map_err(|e| e.to_string())?;
                        let now = text.lines().filter(|l| is_head(l)).count();
                        if now <= started {
                            return Err(format!("child of job {j} asked for a restart without having run a script"));
                        }
                        started = now;
                        continue;
                    }
                    if st.code().is_some() {
                        return Err(format!("child of job {j} (from script {from}) failed with {st}"));
                    }
                    // killed by a signal while a script was running: that is data
                    let text = std::fs::read_to_string(&part).map_err(|e| e.to_string())?;
                    let now = text.lines().filter(|l| is_head(l)).count();
                    if now <= started {
                        return Err(format!("child of job {j} died with {st} before starting a script"));
                    }
                    use std::io::Write;
                    let mut f = std::fs::OpenOptions::new().append(true).open(&part).map_err(|e| e.to_string())?;
                    let tail_ok = text.is_empty() || text.ends_with('\n');
                    writeln!(f, "{}{}", if tail_ok { "" } else { "\n" }, json!({"a": "Panic", "op": "abort", "sk": "editor", "we": true, "msg": format!("{st}"), "dIn": 0, "dOut": 0, "dHid": 0})).map_err(|e| e.to_string())?;
                    started = now;
                }
                let _ = std::fs::remove_dir_all(&work);
                Ok(())
            })
        })
        .collect();
    let mut rc = 0;
    for h in handles {
        match h.join() {
            Ok(Ok(())) => {}
            Ok(Err(e)) => {
                eprintln!("webide-run: {e}");
                rc = 2;
            }
            Err(_) => rc = 2,
        }
    }
    if rc != 0 {
        return rc;
    }
    // merge: script i is the (i / jobs)-th run of part i % jobs
    use std::io::{BufRead, Write};
    let mut o = Out::create(out);
    let mut readers: Vec<_> = (0..jobs)
        .map(|j| std::io::BufReader::new(std::fs::File::open(format!("{out}.part{j}")).expect("open part")).lines().peekable())
        .collect();
    for i in 0..n {
        let r = &mut readers[i % jobs];
        let mut first = true;
        let mut hist_run: Option<bool> = None; // Some(complete?) for a seq / conc script
        loop {
            let head = match r.peek() {
                None => break,
                Some(Ok(l)) => is_head(l),
                Some(Err(e)) => panic!("read part: {e}"),
            };
            if head && !first {
                break;
            }
            if !head && first {
                eprintln!("webide-run: part {} does not continue with a run head for script {i}", i % jobs);
                return 2;
            }
            first = false;
            let l = r.next().unwrap().unwrap();
            if l.starts_with("{\"a\":\"RunStart\"") {
                hist_run = Some(false);
                continue;
            }
            if hist_run.is_some() {
                // of a history run only the complete `Run` line is kept
                if l.starts_with("{\"a\":\"Run\"") && serde_json::from_str::<J>(&l).is_ok() {
                    hist_run = Some(true);
                    writeln!(o.0, "{l}").unwrap();
                }
                continue;
            }
            if serde_json::from_str::<J>(&l).is_ok() {
                writeln!(o.0, "{l}").unwrap();
            }
        }
        if hist_run == Some(false) {
            // the child died inside this run
            writeln!(o.0, "{}", json!({"a": "Run", "kind": "aborted", "roles": ["editor"], "ev": [{"a": "Abort"}]})).unwrap();
        }
        if first {
            eprintln!("webide-run: part {} has no run for script {i}", i % jobs);
            return 2;
        }
    }
    o.flush();
    for j in 0..jobs {
        let _ = std::fs::remove_file(format!("{out}.part{j}"));
    }
    0
}
fn is_head(l: &str) -> bool {
    l.starts_with("{\"a\":\"Reset\"") || l.starts_with("{\"a\":\"RunStart\"")
}

fn child(args: &[String]) -> i32 {
    unsafe {
        // (over HTTP every request is a connection of its own and the web server answers each on a thread of its pool
        // that lingers for a few seconds: thousands of 2 MB stacks of address space at the rate of the history scripts)
        let gb: u64 = if args.iter().any(|a| a == "--http") { 48 } else { 8 };
        let lim = libc::rlimit { rlim_cur: gb << 30, rlim_max: gb << 30 };
        libc::setrlimit(libc::RLIMIT_AS, &lim);
        let core = libc::rlimit { rlim_cur: 0, rlim_max: 0 };
        libc::setrlimit(libc::RLIMIT_CORE, &core);
    }
    if std::env::var("ZQ_SHOW_PANIC").is_err() {
        std::panic::set_hook(Box::new(|_| {}));
    }
    HTTP_MODE.store(args.iter().any(|a| a == "--http"), Ordering::Relaxed);
    if !clock_selftest() {
        eprintln!("webide-run: the wall clock could not be advanced (clock_gettime interposition not effective)");
        return 3;
    }
    let scripts = read_ndjson(arg(args, "--scripts").expect("--scripts"));
    let tree: J = serde_json::from_str(&std::fs::read_to_string(arg(args, "--tree").expect("--tree")).expect("read tree")).expect("tree json");
    let work = PathBuf::from(arg(args, "--work").expect("--work"));
    std::fs::create_dir_all(&work).expect("mkdir work");
    let work = work.canonicalize().expect("canonical work dir");
    let from = arg_u64(args, "--from", 0) as usize;
    let step = (arg_u64(args, "--step", 1) as usize).max(1);
    let f = std::fs::OpenOptions::new().append(true).create(true).open(arg(args, "--out").expect("--out")).expect("open part");
    let mut o = Out(std::io::BufWriter::new(f));
    let mut sn = Sentinel::new(&work, &tree);
    for k in (from..scripts.len()).step_by(step) {
        let sc = &scripts[k];
        match sc["kind"].as_str().unwrap_or("") {
            "path" => run_path_script(&mut sn, sc, &mut o),
            "list" => run_list_script(&mut sn, &mut o),
            "seq" | "conc" => {
                // a head line first, so that a child dying inside the run is attributed to it; the
                // merged output keeps only the complete `Run` line
                o.line(&json!({"a": "RunStart"}));
                o.flush();
                let r = if sc["kind"] == "seq" { run_seq_script(&work, sc) } else { run_conc_script(&work, sc) };
                o.line(&r);
            }
            other => {
                eprintln!("webide-run: unknown script kind {other:?}");
                return 2;
            }
        }
        o.flush();
        if HTTP_SEQ.load(Ordering::SeqCst) >= 6 && k + step < scripts.len() {
            return 75;
        }
    }
    0
}

// ------------------------------------------------------------------ generation
const VOCAB: [&str; 40] = [
    "src", "main.st", "util.st", "top.st", "new.st", "newdir", "..", ".", "", ".hidden", "h.st", ".dot.st", ".newdot.st",
    "flink.st", "dlink", "inlink", "ifile.st", "dangling.st", "ddangling", "secret.st", "sub", "deep.st", "outside", "project", "base",
    "<ABS>", "<BSL>", "%2e%2e", "%2e%2e%2f", " ..", ".. ", "<LONG>", "..;", "...", "\u{ff0e}\u{ff0e}", "\u{2024}\u{2024}", "n\u{00e4}me \u{1f600}.st",
    "nul\u{0}x.st", "line\nbreak.st", "<HUGE>",
];
pub fn gen(args: &[String]) -> i32 {
    let seed = arg_u64(args, "--seed", 1);
    let runs = arg_u64(args, "--runs", 100) as usize;
    let kind = arg(args, "--kind").unwrap_or("paths");
    let mut o = Out::create(arg(args, "--out").expect("--out"));
    let mut rng = StdRng::seed_from_u64(seed ^ 0xc19_1de);
    for _ in 0..runs {
        let sc = match kind {
            "paths" => gen_path(&mut rng),
            "seq" => gen_seq(&mut rng),
            "conc" => gen_conc(&mut rng),
            o => {
                eprintln!("webide-gen: unknown kind {o}");
                return 2;
            }
        };
        o.line(&sc);
    }
    o.flush();
    0
}
fn gen_path(rng: &mut StdRng) -> J {
    let n = rng.gen_range(1..=6);
    let mut comps: Vec<&str> = Vec::new();
    let mut ups_after_abs = 0;
    for i in 0..n {
        let mut c = *VOCAB.choose(rng).unwrap();
        if c == "<ABS>" && i > 0 && rng.gen_bool(0.7) {
            c = "src";
        }
        if c == "<HUGE>" && i + 1 < n {
            c = "newdir";
        }
        // the sentinel has six guard directories above `base`: never climb past them
        if c == ".." || c == " .." || c == ".. " {
            ups_after_abs += 1;
            if ups_after_abs > 5 {
                c = ".";
            }
        }
        comps.push(c);
    }
    json!({"kind": "path", "path": comps, "from": "random"})
}
fn gen_roles(rng: &mut StdRng, n: usize) -> Vec<&'static str> {
    let mut roles: Vec<&'static str> = vec!["editor", "editor"];
    while roles.len() < n {
        roles.push(*["editor", "editor", "editor", "viewer", "invalid"].choose(rng).unwrap());
    }
    roles.shuffle(rng);
    roles
}
fn gen_seq(rng: &mut StdRng) -> J {
    let n = rng.gen_range(2..=5);
    let roles = gen_roles(rng, n);
    let len = rng.gen_range(6..=24);
    let mut steps = Vec::new();
    for s in 1..=n {
        if rng.gen_bool(0.6) {
            steps.push(json!({"a": "open", "s": s, "we": true}));
        }
    }
    while steps.len() < len {
        let s = rng.gen_range(1..=n);
        let x = rng.gen_range(0..100);
        steps.push(if x < 35 {
            json!({"a": "open", "s": s, "we": true})
        } else if x < 85 {
            json!({"a": "write", "s": s, "we": rng.gen_bool(0.9), "stale": rng.gen_bool(0.15)})
        } else if x < 90 {
            json!({"a": "ext", "s": 0, "we": true})
        } else if x < 96 {
            json!({"a": "other", "s": 0, "we": true, "k": rng.gen_range(0..6)})
        } else {
            json!({"a": "expire", "s": s, "we": true})
        });
    }
    json!({"kind": "seq", "roles": roles, "steps": steps, "pad": *[0usize, 10, 5000].choose(rng).unwrap(), "from": "random"})
}
fn gen_conc(rng: &mut StdRng) -> J {
    let n = rng.gen_range(2..=5);
    let roles = gen_roles(rng, n);
    let pad = *[0usize, 64, 4000, 30000, 120000].choose(rng).unwrap();
    let maxd = *[0u64, 5, 30, 150].choose(rng).unwrap();
    let mut calls = Vec::new();
    for _ in 0..n {
        let k = rng.gen_range(3..=8);
        let mut prog = vec![json!({"a": "open", "we": true, "d": rng.gen_range(0..=maxd)})];
        while prog.len() < k {
            let x = rng.gen_range(0..100);
            prog.push(if x < 30 {
                json!({"a": "open", "we": true, "d": rng.gen_range(0..=maxd)})
            } else if x < 36 {
                json!({"a": "other", "we": true, "k": rng.gen_range(0..6), "d": rng.gen_range(0..=maxd)})
            } else {
                json!({"a": "write", "we": rng.gen_bool(0.93), "stale": rng.gen_bool(0.1), "d": rng.gen_range(0..=maxd)})
            });
        }
        calls.push(J::Array(prog));
    }
    json!({"kind": "conc", "roles": roles, "calls": calls, "pad": pad, "from": "random"})
}
