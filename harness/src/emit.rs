//! Emission sweep (C11, "every container the compiler emits validates"): every program the other
//! generators produce (typed core, POU programs, wide programs, feature programs) and a family of
//! loop shapes is compiled to an STBC container; the compiler must either emit a container that
//! decodes, validates, re-encodes to the same bytes and can be applied to a runtime, or refuse the
//! program for a reason of its own (unsupported construct) -- never fail in, or slip past, its
//! own validation.
use crate::util::*;
use rand::{rngs::StdRng, Rng, SeedableRng};
use serde_json::json;
use trust_runtime::bytecode::BytecodeModule;
use trust_runtime::harness::{bytecode_bytes_from_source, TestHarness};

/// Loop / condition shapes at the end of a POU (the encoder keeps side tables per statement).
fn loop_shapes(rng: &mut StdRng, k: usize) -> String {
    let conds = ["idx > INT#2", "samples[idx] > INT#3", "samples[idx] > samples[INT#0]", "flags[idx]", "NOT flags[idx] OR idx > INT#2",
                 "F(samples[idx]) > INT#1", "st.v[idx] > INT#0", "samples[idx MOD INT#4] = INT#9 OR idx >= INT#3", "mat[idx, INT#1] > INT#0 OR idx > INT#1"];
    let cond = conds[k % conds.len()];
    let nbody = 1 + (k / conds.len()) % 3;
    let mut body = String::new();
    for j in 0..nbody {
        body.push_str(["  idx := idx + INT#1;\n", "  total := total + samples[idx MOD INT#4];\n", "  flags[idx MOD INT#4] := NOT flags[idx MOD INT#4];\n"][j]);
    }
    let kind = (k / (conds.len() * 3)) % 4;
    let lp = match kind {
        0 => format!("REPEAT\n{body}UNTIL {cond} END_REPEAT;\n"),
        1 => format!("WHILE NOT ({cond}) AND idx < INT#3 DO\n{body}END_WHILE;\n"),
        2 => format!("IF {cond} THEN\n{body}ELSIF idx < INT#3 THEN\n{body}END_IF;\n"),
        _ => format!("FOR j := INT#0 TO INT#2 DO\n  IF {cond} THEN EXIT; END_IF;\n{body}END_FOR;\n"),
    };
    let tail = if rng.gen_bool(0.5) { "" } else { "total := total + INT#1;\n" };
    let decls = "VAR idx : INT; j : INT; total : INT; samples : ARRAY[0..3] OF INT; flags : ARRAY[0..3] OF BOOL; mat : ARRAY[0..3, 0..1] OF INT; st : Rec; END_VAR\n";
    let types = "TYPE Rec : STRUCT v : ARRAY[0..3] OF INT; END_STRUCT END_TYPE\nFUNCTION F : INT\nVAR_INPUT a : INT; END_VAR\nF := a + INT#1;\nEND_FUNCTION\n";
    match (k / (conds.len() * 12)) % 3 {
        0 => format!("{types}PROGRAM P\n{decls}{lp}{tail}END_PROGRAM\n"),
        1 => format!("{types}FUNCTION G : INT\nVAR_INPUT n : INT; END_VAR\n{decls}{lp}{tail}G := total;\nEND_FUNCTION\nPROGRAM P\nVAR y : INT; END_VAR\ny := G(n := INT#1);\nEND_PROGRAM\n"),
        _ => format!("{types}FUNCTION_BLOCK B\n{decls}{lp}{tail}END_FUNCTION_BLOCK\nPROGRAM P\nVAR b : B; END_VAR\nb();\nEND_PROGRAM\n"),
    }
}

/// `emit-run --sources S.ndjson --shapes N --seed K --out trace.ndjson`; S holds {"src": ..., "from": ...} lines.
pub fn run(args: &[String]) -> i32 {
    let mut sources: Vec<(String, String)> = arg(args, "--sources").map(read_ndjson).unwrap_or_default().iter()
        .filter_map(|r| Some((r["from"].as_str().unwrap_or("?").to_string(), r["src"].as_str()?.to_string()))).collect();
    let mut rng = StdRng::seed_from_u64(arg_u64(args, "--seed", 1) ^ 0xe117);
    for k in 0..arg_u64(args, "--shapes", 324) as usize {
        sources.push(("loop-shape".into(), loop_shapes(&mut rng, k)));
    }
    // directly addressed declarations of mixed widths, overlapping, in any order of declaration
    for k in 0..(arg_u64(args, "--shapes", 324) as usize * 2 / 3) {
        sources.push(("io-shape".into(), io_shapes(&mut rng, k)));
    }
    let mut o = Out::create(arg(args, "--out").expect("--out"));
    std::panic::set_hook(Box::new(|_| {}));
    for (i, (from, src)) in sources.iter().enumerate() {
        // only programs the compiler front end accepts are in scope
        let accepted = matches!(std::panic::catch_unwind(|| TestHarness::from_source(src)), Ok(Ok(_)));
        if !accepted {
            o.line(&json!({"a": "Emit", "i": i, "from": from, "accepted": false, "res": "rejected", "detail": ""}));
            continue;
        }
        let r = std::panic::catch_unwind(|| -> Result<(), (String, String)> {
            let bytes = bytecode_bytes_from_source(src).map_err(|e| ("compile".to_string(), e.to_string()))?;
            let m = BytecodeModule::decode(&bytes).map_err(|e| ("decode".to_string(), e.to_string()))?;
            m.validate().map_err(|e| ("validate".to_string(), e.to_string()))?;
            let enc = m.encode().map_err(|e| ("encode".to_string(), e.to_string()))?;
            if enc != bytes {
                return Err(("roundtrip".into(), format!("{} bytes re-encoded to {}", bytes.len(), enc.len())));
            }
            let mut h = TestHarness::from_source(src).map_err(|e| ("harness".to_string(), e.to_string()))?;
            h.runtime_mut().apply_bytecode_bytes(&bytes, None).map_err(|e| ("apply".to_string(), e.to_string()))?;
            // the process-image sizes the container carries are what a deployed runtime gives its images: every
            // directly addressed declaration (`AT %IW0`) must lie inside them
            let need = declared_image_ends(src);
            let io = h.runtime().io();
            let have = [io.inputs().len(), io.outputs().len(), io.memory().len()];
            for a in 0..3 {
                if have[a] < need[a] {
                    return Err(("image".into(), format!("area {} of the applied container has {} byte(s), a declaration needs {}", ["%I", "%Q", "%M"][a], have[a], need[a])));
                }
            }
            Ok(())
        });
        let (res, detail) = match r {
            Ok(Ok(())) => ("ok".to_string(), String::new()),
            Ok(Err((stage, e))) => (stage, e.lines().next().unwrap_or("").to_string()),
            Err(_) => ("panic".into(), String::new()),
        };
        let keep_src = res != "ok";
        o.line(&json!({"a": "Emit", "i": i, "from": from, "accepted": true, "res": res, "detail": detail, "src": if keep_src { src.as_str() } else { "" }}));
    }
    o.flush();
    0
}

/// End (in bytes) of the farthest `AT %<area><size><byte>[.<bit>]` declaration per area [I, Q, M]; wildcard and
/// malformed addresses are ignored.
fn declared_image_ends(src: &str) -> [usize; 3] {
    let mut need = [0usize; 3];
    let b = src.as_bytes();
    let mut i = 0;
    while i + 4 < b.len() {
        let at = (b[i] == b'A' || b[i] == b'a') && (b[i + 1] == b'T' || b[i + 1] == b't') && (i == 0 || !(b[i - 1].is_ascii_alphanumeric() || b[i - 1] == b'_'))
            && b[i + 2].is_ascii_whitespace();
        if !at {
            i += 1;
            continue;
        }
        let mut j = i + 2;
        while j < b.len() && b[j].is_ascii_whitespace() {
            j += 1;
        }
        i = j;
        if j + 2 >= b.len() || b[j] != b'%' {
            continue;
        }
        let area = match b[j + 1].to_ascii_uppercase() { b'I' => 0, b'Q' => 1, b'M' => 2, _ => continue };
        let (span, mut p) = match b[j + 2].to_ascii_uppercase() { b'X' => (1usize, j + 3), b'B' => (1, j + 3), b'W' => (2, j + 3), b'D' => (4, j + 3), b'L' => (8, j + 3), c if c.is_ascii_digit() => (1, j + 2), _ => continue };
        let s0 = p;
        while p < b.len() && b[p].is_ascii_digit() {
            p += 1;
        }
        if p == s0 {
            continue;
        }
        if let Ok(byte) = src[s0..p].parse::<usize>() {
            if byte < 1 << 20 {
                need[area] = need[area].max(byte + span);
            }
        }
    }
    need
}

fn io_shapes(rng: &mut StdRng, k: usize) -> String {
    let mut decls = String::new();
    let mut body = String::new();
    let n = rng.gen_range(2..7);
    for i in 0..n {
        let area = ["I", "Q", "M"][rng.gen_range(0..3)];
        let byte = rng.gen_range(0..10);
        let (sz, ty, lit) = [("X", "BOOL", "TRUE"), ("B", "BYTE", "BYTE#1"), ("W", "WORD", "WORD#2"), ("D", "DWORD", "DWORD#3"), ("L", "LWORD", "LWORD#4")][rng.gen_range(0..5)];
        let addr = if sz == "X" { format!("%{area}X{byte}.{}", rng.gen_range(0..8)) } else { format!("%{area}{sz}{byte}") };
        decls.push_str(&format!("  v{i} AT {addr} : {ty};\n"));
        if area != "I" {
            body.push_str(&format!("v{i} := {lit};\n"));
        }
    }
    format!("PROGRAM IoShape{k}\nVAR\n{decls}  t : DINT;\nEND_VAR\nt := t + DINT#1;\n{body}END_PROGRAM\n")
}
