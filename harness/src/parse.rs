//! ParseSink domain (C12): the lexer, the parser and the event sink of `trust-syntax`, driven
//! through the public API only (`trust_syntax::lexer::lex`, `trust_syntax::parser::parse`,
//! `Parse::syntax()`, `Parse::errors()`).
//!
//! A script is one input text plus a list of trivia insertions (the metamorphic action
//! `InsertTrivia(i, kind)` of the specification).  For every script the runner records one
//! ndjson event per specification action with the projected state:
//!
//!   Reset{id,n,dg,rep,src}        a new input text of n bytes (dg = digest of the text, rep = 1 if
//!                                 the same text occurs in more than one script of the file)
//!   Lex{toks:[[kind,start,end,hash,trivia]..]}
//!   Parse{walk:[["S",kind]|["T",kind,len,trivia]|["F"]..], errs:[[s,e]..], tlen, tdg, dg}
//!   Reparse{dg}                   a second parse of the same text after an unrelated one
//!   Insert{i,what,len,n,dg}       the text with `what` inserted between tokens i and i+1,
//!                                 followed by the Lex and Parse events of the new text
//!   Panic{phase,msg,loc} / Abort{after,status} / Hang{after,secs}
//!
//! A panic, an abort (stack overflow, allocation failure, signal) and a hang of the code under
//! test are data: scripts run in child processes of this binary (address-space limit, fixed
//! stack size, wall-clock limit), panics are caught per phase, and whatever happened is written
//! to the trace.  Only the specification (ParseSinkTrace) decides what is a violation.
use crate::util::*;
use rand::{rngs::StdRng, seq::SliceRandom, Rng, SeedableRng};
use serde_json::{json, Value as J};
use sha2::{Digest, Sha256};
use std::cell::RefCell;
use std::io::Write;
use std::path::{Path, PathBuf};
use std::time::{Duration, Instant};
use trust_syntax::lexer::lex;
use trust_syntax::parser::parse;
use trust_syntax::SyntaxNode;

// ------------------------------------------------------------------------------------------
// alphabet of lexical classes (names shared with MCParseSink.tla: `Classes`)
// ------------------------------------------------------------------------------------------
const CLASSES: &[(&str, &[&str])] = &[
    ("pou_open", &["PROGRAM", "FUNCTION", "FUNCTION_BLOCK", "CLASS", "METHOD", "PROPERTY", "INTERFACE", "NAMESPACE", "ACTION",
        "CONFIGURATION", "RESOURCE", "TEST_PROGRAM", "TEST_FUNCTION_BLOCK", "USING", "GET", "SET"]),
    ("pou_close", &["END_PROGRAM", "END_FUNCTION", "END_FUNCTION_BLOCK", "END_CLASS", "END_METHOD", "END_PROPERTY", "END_INTERFACE",
        "END_NAMESPACE", "END_ACTION", "END_CONFIGURATION", "END_RESOURCE", "END_TEST_PROGRAM", "END_TEST_FUNCTION_BLOCK", "END_GET", "END_SET"]),
    ("var_open", &["VAR", "VAR_INPUT", "VAR_OUTPUT", "VAR_IN_OUT", "VAR_TEMP", "VAR_GLOBAL", "VAR_EXTERNAL", "VAR_ACCESS", "VAR_CONFIG", "VAR_STAT"]),
    ("var_close", &["END_VAR"]),
    ("qualifier", &["CONSTANT", "RETAIN", "NON_RETAIN", "PERSISTENT", "PUBLIC", "PRIVATE", "PROTECTED", "INTERNAL", "FINAL", "ABSTRACT", "OVERRIDE",
        "R_EDGE", "F_EDGE", "READ_WRITE", "READ_ONLY"]),
    ("type_open", &["TYPE", "STRUCT", "UNION"]),
    ("type_close", &["END_TYPE", "END_STRUCT", "END_UNION"]),
    ("type_kw", &["ARRAY", "OF", "STRING", "WSTRING", "POINTER", "REF", "REF_TO", "TO"]),
    ("elem_type", &["BOOL", "SINT", "INT", "DINT", "LINT", "USINT", "UINT", "UDINT", "ULINT", "REAL", "LREAL", "BYTE", "WORD", "DWORD", "LWORD",
        "TIME", "LTIME", "DATE", "TOD", "DT", "CHAR", "WCHAR", "ANY", "ANY_INT", "ANY_NUM", "TIME_OF_DAY", "DATE_AND_TIME"]),
    ("if_kw", &["IF", "THEN", "ELSIF", "ELSE"]),
    ("if_close", &["END_IF"]),
    ("case_kw", &["CASE", "OF", "ELSE"]),
    ("case_close", &["END_CASE"]),
    ("loop_kw", &["FOR", "TO", "BY", "DO", "WHILE", "REPEAT", "UNTIL"]),
    ("loop_close", &["END_FOR", "END_WHILE", "END_REPEAT"]),
    ("jump", &["RETURN", "EXIT", "CONTINUE", "JMP"]),
    ("oop_kw", &["EXTENDS", "IMPLEMENTS", "THIS", "SUPER", "NEW", "__NEW", "__DELETE", "ADR", "SIZEOF", "EN", "ENO"]),
    ("config_kw", &["TASK", "WITH", "AT", "ON", "STEP", "END_STEP", "INITIAL_STEP", "TRANSITION", "END_TRANSITION", "FROM"]),
    ("ident", &["x", "y1", "Foo", "_a", "fb", "Q", "END", "T", "program1"]),
    ("bool_lit", &["TRUE", "FALSE", "NULL"]),
    ("int_lit", &["0", "1", "42", "1_000", "007", "1_"]),
    ("based_lit", &["16#FF", "2#1010", "8#17", "16#", "2#12", "16#F_F"]),
    ("real_lit", &["1.5", "1.0E3", "2.5e-3", "1.", "1.e", "1.5E", "1..2", "1.x"]),
    ("typed_lit", &["INT#5", "REAL#1.5", "BOOL#TRUE", "INT#-3", "INT#16#FF", "Color#Red", "INT#", "DINT#+", "INT#-16#F"]),
    ("time_lit", &["T#5s", "T#1h2m", "TIME#-5ms", "LT#1us", "T#1.5s_3ms", "D#2024-01-01", "TOD#12:00:00", "DT#2024-01-01-12:00:00", "T#", "T#5", "LTOD#15:36:55.36"]),
    ("string_lit", &["'str'", "\"wide\"", "''", "'a$'b'", "'$N$$'", "\"$0041\"", "'$'", "'$Q'"]),
    ("unterminated", &["'unterminated", "\"unterminated", "'", "\""]),
    ("direct_addr", &["%IX0.0", "%QW2", "%MD4", "%I*", "%", "%X1", "%IX", "%QB1.2.3"]),
    ("assign_op", &[":=", "=>", "?="]),
    ("colon", &[":"]),
    ("semicolon", &[";"]),
    ("comma_dot", &[",", ".", ".."]),
    ("lparen", &["("]),
    ("rparen", &[")"]),
    ("bracket", &["[", "]"]),
    ("arith_op", &["+", "-", "*", "/", "**", "MOD"]),
    ("cmp_op", &["=", "<>", "<", ">", "<=", ">="]),
    ("logic_op", &["AND", "OR", "XOR", "NOT", "&"]),
    ("misc_punct", &["^", "#", "@", "?"]),
    ("comment_open", &["(*", "/*", "//"]),
    ("comment_close", &["*)", "*/", "(* c *)", "/* c */", "// line\n", "(* (* n *) *)"]),
    ("pragma", &["{", "}", "{pragma}", "{attribute 'x'}"]),
    ("ws", &[" ", "\t", "\n", "\r\n", "   ", "\r"]),
    ("stray", &["\u{e9}", "\u{1F600}", "$", "\\", "\u{0}", "\u{feff}", "~", "`", "!", "\u{2028}", "\u{a0}", "\u{301}"]),
];

fn class_members(name: &str) -> Option<&'static [&'static str]> {
    CLASSES.iter().find(|(n, _)| *n == name).map(|(_, m)| *m)
}

/// What `InsertTrivia` may insert ("spaces, newlines or block comments").
const TRIVIA: &[(&str, &str)] = &[("space", " "), ("spaces", "   "), ("newline", "\n"), ("crlf", "\r\n"), ("comment", "(* c *)"), ("empty_comment", "(**)")];

fn trivia_text(what: &str) -> Option<&'static str> {
    TRIVIA.iter().find(|(n, _)| *n == what).map(|(_, t)| *t)
}

fn hex_digest(parts: &[&[u8]]) -> String {
    let mut h = Sha256::new();
    for p in parts {
        h.update((p.len() as u64).to_le_bytes());
        h.update(p);
    }
    h.finalize().iter().take(8).map(|b| format!("{b:02x}")).collect()
}

// ------------------------------------------------------------------------------------------
// script generation
// ------------------------------------------------------------------------------------------
fn repo_root() -> PathBuf {
    PathBuf::from(std::env::var("VERIF_REPO").unwrap_or_else(|_| "/repo".into()))
}

/// Corpus programs of the repository (sorted, so that an index names the same file in every run).
fn corpus() -> Vec<(String, String)> {
    let root = repo_root();
    let mut out = Vec::new();
    let mut stack = vec![root.clone()];
    while let Some(d) = stack.pop() {
        let Ok(rd) = std::fs::read_dir(&d) else { continue };
        for e in rd.flatten() {
            let p = e.path();
            let name = p.file_name().and_then(|s| s.to_str()).unwrap_or("");
            if p.is_dir() {
                if !matches!(name, "target" | ".git" | "node_modules") && !p.is_symlink() {
                    stack.push(p);
                }
            } else if p.extension().map_or(false, |x| x == "st") {
                if let Ok(t) = std::fs::read_to_string(&p) {
                    if t.len() <= 8000 {
                        out.push((p.strip_prefix(&root).unwrap_or(&p).to_string_lossy().into_owned(), t));
                    }
                }
            } else if p.extension().map_or(false, |x| x == "md") && p.components().any(|c| c.as_os_str() == "docs") {
                // the language documents: every fenced code block (whole declarations and fragments of every
                // production the documents describe -- VAR_ACCESS, VAR_CONFIG, RESOURCE, properties, actions, ...)
                if let Ok(t) = std::fs::read_to_string(&p) {
                    let rel = p.strip_prefix(&root).unwrap_or(&p).to_string_lossy().into_owned();
                    let (mut inside, mut block, mut k) = (false, String::new(), 0usize);
                    for line in t.lines() {
                        if line.trim_start().starts_with("```") {
                            if inside {
                                if !block.trim().is_empty() && block.len() <= 8000 && block.chars().any(|c| c == ';' || c == ':') {
                                    out.push((format!("{rel}#{k}"), block.clone()));
                                    k += 1;
                                }
                                block.clear();
                            }
                            inside = !inside;
                        } else if inside {
                            block.push_str(line);
                            block.push('\n');
                        }
                    }
                }
            } else if p.extension().map_or(false, |x| x == "rs") && p.components().any(|c| c.as_os_str() == "tests")
                && p.components().any(|c| matches!(c.as_os_str().to_str(), Some("trust-syntax") | Some("trust-hir"))) {
                // the front end's own tests: ST texts in raw string literals
                if let Ok(t) = std::fs::read_to_string(&p) {
                    let rel = p.strip_prefix(&root).unwrap_or(&p).to_string_lossy().into_owned();
                    let mut rest = t.as_str();
                    let mut k = 0usize;
                    while let Some(a) = rest.find("r#\"") {
                        let body = &rest[a + 3..];
                        let Some(b) = body.find("\"#") else { break };
                        let text = &body[..b];
                        if text.contains('\n') && text.len() <= 8000 && (text.contains("END_") || text.contains(":=")) {
                            out.push((format!("{rel}#{k}"), text.to_string()));
                            k += 1;
                        }
                        rest = &body[b + 2..];
                    }
                }
            }
        }
    }
    out.sort();
    out
}

/// Boundaries for the mutation operators.  Deliberately NOT the lexer under test: maximal runs
/// of word characters, maximal runs of white space, and every other character on its own.
fn pieces(s: &str) -> Vec<&str> {
    let mut out = Vec::new();
    let mut start = 0usize;
    let mut prev: Option<u8> = None;
    for (i, c) in s.char_indices() {
        let cls = if c.is_alphanumeric() || c == '_' || c == '#' {
            1u8
        } else if c.is_whitespace() {
            2
        } else {
            3
        };
        if let Some(p) = prev {
            if p != cls || cls == 3 {
                out.push(&s[start..i]);
                start = i;
            }
        }
        prev = Some(cls);
    }
    if start < s.len() {
        out.push(&s[start..]);
    }
    out
}

/// The model's mutation actions Delete(i) | Duplicate(i) | Swap(i,j) | Truncate(i) | Splice(i,j);
/// positions are given in per-mille of the piece count so that they are independent of the file.
fn mutate(base: &str, other: &str, ops: &[(String, u64, u64)]) -> String {
    let mut parts: Vec<String> = pieces(base).into_iter().map(str::to_owned).collect();
    for (op, i, j) in ops {
        if parts.is_empty() {
            break;
        }
        let at = |p: u64, n: usize| ((p as usize).min(999) * n) / 1000;
        let k = at(*i, parts.len());
        match op.as_str() {
            "Delete" => {
                parts.remove(k);
            }
            "Duplicate" => {
                let p = parts[k].clone();
                parts.insert(k, p);
            }
            "Swap" => {
                let m = at(*j, parts.len());
                parts.swap(k, m);
            }
            "Truncate" => parts.truncate(k.max(1)),
            "Splice" => {
                let o: Vec<String> = pieces(other).into_iter().map(str::to_owned).collect();
                parts.truncate(k.max(1));
                if !o.is_empty() {
                    parts.extend_from_slice(&o[at(*j, o.len())..]);
                }
            }
            _ => panic!("unknown mutation {op}"),
        }
    }
    parts.concat()
}

fn resolve_soup(names: &[String], rng: &mut StdRng) -> String {
    let mut s = String::new();
    for n in names {
        let m = class_members(n).unwrap_or_else(|| panic!("unknown lexical class {n}"));
        s.push_str(m.choose(rng).unwrap());
        if n != "ws" && rng.gen_bool(0.6) {
            s.push(' ');
        }
    }
    s
}

const UNICODE: &[char] = &['a', 'Z', '_', '0', '9', ' ', '\t', '\n', '\r', ';', ':', '=', '(', ')', '*', '/', '\'', '"', '#', '%', '.', '{', '}', '$',
    '\u{0}', '\u{7}', '\u{1b}', '\u{7f}', '\u{80}', '\u{a0}', '\u{e9}', '\u{3b1}', '\u{5d0}', '\u{4e2d}', '\u{301}', '\u{200b}', '\u{200f}',
    '\u{2028}', '\u{feff}', '\u{fffd}', '\u{ffff}', '\u{1F600}', '\u{10FFFF}', '\u{1D11E}'];

fn random_unicode(rng: &mut StdRng) -> String {
    let n = rng.gen_range(0..60);
    (0..n)
        .map(|_| if rng.gen_bool(0.8) { *UNICODE.choose(rng).unwrap() } else { char::from_u32(rng.gen_range(0..0x11_0000)).unwrap_or('\u{fffd}') })
        .collect()
}

/// Nesting up to the stated depth: 200 statement / type levels, 500 expression levels.
fn nested(rng: &mut StdRng) -> String {
    let sd = *[1usize, 3, 10, 40, 100, 200].choose(rng).unwrap();
    let ed = *[1usize, 5, 30, 120, 300, 500].choose(rng).unwrap();
    let body = match rng.gen_range(0..14) {
        0 => format!("{}y := 1;\n{}", "IF x THEN\n".repeat(sd), "END_IF;\n".repeat(sd)),
        1 => format!("{}y := 1;\n{}", "WHILE x DO\n".repeat(sd), "END_WHILE;\n".repeat(sd)),
        2 => format!("{}y := 1;\n{}", "FOR i := 1 TO 2 DO\n".repeat(sd), "END_FOR;\n".repeat(sd)),
        3 => format!("{}y := 1;\n{}", "REPEAT\n".repeat(sd), "UNTIL x END_REPEAT;\n".repeat(sd)),
        4 => format!("{}y := 1;\n{}", "CASE x OF 1:\n".repeat(sd), "END_CASE;\n".repeat(sd)),
        5 => {
            let open = ["IF x THEN\n", "WHILE x DO\n", "FOR i := 1 TO 2 DO\n", "REPEAT\n", "CASE x OF 1:\n", "IF a THEN b := 1; ELSIF c THEN\n", "IF a THEN b := 1; ELSE\n"];
            let close = ["END_IF;\n", "END_WHILE;\n", "END_FOR;\n", "UNTIL x END_REPEAT;\n", "END_CASE;\n", "END_IF;\n", "END_IF;\n"];
            let ks: Vec<usize> = (0..sd).map(|_| rng.gen_range(0..open.len())).collect();
            let mut s: String = ks.iter().map(|k| open[*k]).collect();
            s.push_str("y := 1;\n");
            for k in ks.iter().rev() {
                s.push_str(close[*k]);
            }
            s
        }
        6 => format!("y := {}1{};\n", "(".repeat(ed), ")".repeat(ed)),
        7 => format!("y := {}x;\n", ["NOT ", "-", "+", "- -"].choose(rng).unwrap().repeat(ed)),
        8 => format!("y := {}1;\n", ["a ** ", "a + ", "a OR ", "a < ", "a * (b - "].choose(rng).unwrap().repeat(ed)),
        9 => format!("y := {}1{};\n", "f(".repeat(ed), ")".repeat(ed)),
        10 => format!("y := {}1{};\n", "a[".repeat(ed), "]".repeat(ed)),
        11 => format!("y := a{};\n", [".b", "^", "[1]", "(1)", ".b^[1](2)"].choose(rng).unwrap().repeat(ed)),
        12 => format!("y := {}1{};\n", "f(a := ".repeat(ed.min(200)), ")".repeat(ed.min(200))),
        _ => format!("IF {}1{} THEN y := 1; END_IF;\n", "(".repeat(ed), ")".repeat(ed)),
    };
    let decl = match rng.gen_range(0..6) {
        0 => format!("VAR v : {}INT; END_VAR\n", "ARRAY[0..1] OF ".repeat(sd)),
        1 => format!("VAR v : {}INT; END_VAR\n", ["POINTER TO ", "REF_TO "].choose(rng).unwrap().repeat(sd)),
        2 => format!("VAR v : {}INT;{} END_VAR\n", "STRUCT a : ".repeat(sd), " END_STRUCT;".repeat(sd)),
        _ => "VAR x : BOOL; y : INT; END_VAR\n".to_string(),
    };
    let mut s = match rng.gen_range(0..8) {
        0 => format!("{}PROGRAM p\n{decl}{body}END_PROGRAM\n{}", "NAMESPACE n\n".repeat(sd.min(100)), "END_NAMESPACE\n".repeat(sd.min(100))),
        1 => format!("TYPE t : {}INT;{} END_TYPE\n", "STRUCT a : ".repeat(sd), " END_STRUCT;".repeat(sd)),
        2 => format!("FUNCTION_BLOCK fb\n{decl}METHOD m\n{body}END_METHOD\nEND_FUNCTION_BLOCK\n"),
        _ => format!("PROGRAM p\n{decl}{body}END_PROGRAM\n"),
    };
    // unclosed / over-closed variants: cut the text somewhere, or drop the opening half
    match rng.gen_range(0..6) {
        0 => {
            let mut k = rng.gen_range(0..=s.len());
            while !s.is_char_boundary(k) {
                k -= 1;
            }
            s.truncate(k);
        }
        1 => {
            let mut k = rng.gen_range(0..=s.len());
            while !s.is_char_boundary(k) {
                k -= 1;
            }
            s = s[k..].to_string();
        }
        _ => {}
    }
    s
}

/// Small well-formed programs (most of them parse without errors) for the trivia insertions.
fn well_formed(rng: &mut StdRng) -> String {
    fn expr(rng: &mut StdRng, d: u32) -> String {
        if d == 0 || rng.gen_bool(0.3) {
            return ["x", "y", "1", "16#FF", "TRUE", "INT#5", "T#5s", "1.5", "'s'", "a.b", "arr[1]", "f(1, 2)", "fb.q", "%IX0.0", "p^", "-z", "NOT b", "1..2", "g(a := 1, b => c)"]
                .choose(rng)
                .unwrap()
                .to_string();
        }
        match rng.gen_range(0..4) {
            0 => format!("({})", expr(rng, d - 1)),
            1 => format!("{} {} {}", expr(rng, d - 1), ["+", "-", "*", "/", "MOD", "AND", "OR", "XOR", "=", "<>", "<", "<=", ">", ">=", "**", "&"].choose(rng).unwrap(), expr(rng, d - 1)),
            2 => format!("{}{}", ["-", "NOT ", "+"].choose(rng).unwrap(), expr(rng, d - 1)),
            _ => format!("f({}, {})", expr(rng, d - 1), expr(rng, d - 1)),
        }
    }
    fn stmt(rng: &mut StdRng, d: u32) -> String {
        let e = |rng: &mut StdRng| {
            let mut s = expr(rng, 2);
            if s == "1..2" {
                s = "1".into();
            }
            s
        };
        if d == 0 {
            return format!("x := {};\n", e(rng));
        }
        match rng.gen_range(0..10) {
            0 => format!("IF {} THEN\n{}ELSIF {} THEN\n{}ELSE\n{}END_IF;\n", e(rng), stmt(rng, d - 1), e(rng), stmt(rng, d - 1), stmt(rng, d - 1)),
            1 => format!("WHILE {} DO\n{}END_WHILE;\n", e(rng), stmt(rng, d - 1)),
            2 => format!("FOR i := {} TO {} BY {} DO\n{}END_FOR;\n", e(rng), e(rng), e(rng), stmt(rng, d - 1)),
            3 => format!("REPEAT\n{}UNTIL {} END_REPEAT;\n", stmt(rng, d - 1), e(rng)),
            4 => format!("CASE {} OF\n1: {}2, 3: {}4..6: {}ELSE\n{}END_CASE;\n", e(rng), stmt(rng, d - 1), stmt(rng, 0), stmt(rng, 0), stmt(rng, 0)),
            5 => format!("fb(a := {}, q => y);\n", e(rng)),
            6 => "RETURN;\n".into(),
            7 => format!("a.b[{}] := {};\n", e(rng), e(rng)),
            8 => format!("{}{}", stmt(rng, d - 1), stmt(rng, d - 1)),
            _ => format!("x := {};\n", e(rng)),
        }
    }
    let head = ["PROGRAM p", "FUNCTION_BLOCK fb", "FUNCTION f : INT"].choose(rng).unwrap();
    let end = match *head {
        "PROGRAM p" => "END_PROGRAM",
        "FUNCTION_BLOCK fb" => "END_FUNCTION_BLOCK",
        _ => "END_FUNCTION",
    };
    let vars = ["VAR\n  x : INT := 1;\n  y : BOOL;\nEND_VAR\n", "VAR_INPUT a : ARRAY[0..3] OF INT; END_VAR\nVAR_OUTPUT q : REAL; END_VAR\n",
        "VAR CONSTANT k : DINT := 16#10; END_VAR\nVAR t : TON; s : STRING[10]; r AT %QX0.1 : BOOL; END_VAR\n", ""]
        .choose(rng)
        .unwrap();
    let pre = ["", "// header\n", "(* block *)\n", "{pragma}\n", "TYPE c : (Red, Green); END_TYPE\n", "TYPE s : STRUCT a : INT; b : REAL; END_STRUCT; END_TYPE\n"].choose(rng).unwrap();
    format!("{pre}{head}\n{vars}{}{end}\n", stmt(rng, 3))
}

fn ins_list(rng: &mut StdRng, n: usize) -> Vec<J> {
    (0..n).map(|_| json!([rng.gen_range(0..1000), TRIVIA.choose(rng).unwrap().0])).collect()
}

/// parse-gen --seed S --runs N [--tlc exported.ndjson] [--no-corpus] --out scripts.ndjson
/// Every script written is self-contained: {"id","src","text","ins":[[permille,what]..]}.
pub fn gen(args: &[String]) -> i32 {
    let seed = arg_u64(args, "--seed", 1);
    let runs = arg_u64(args, "--runs", 100) as usize;
    let mut rng = StdRng::seed_from_u64(seed ^ 0xc12_c12);
    let mut o = Out::create(arg(args, "--out").expect("--out"));
    let corp = corpus();
    if corp.len() < 20 {
        eprintln!("parse-gen: only {} corpus programs under {}", corp.len(), repo_root().display());
        return 2;
    }
    let all_atoms: Vec<&str> = CLASSES.iter().flat_map(|(_, m)| m.iter().copied()).collect();
    let mut id = 0u64;
    let mut put = |o: &mut Out, src: &str, text: String, ins: Vec<J>| {
        id += 1;
        o.line(&json!({"id": id, "src": src, "text": text, "ins": ins}));
    };
    // (1) abstract scripts exported by TLC (class sequences, corpus mutations, insertions)
    if let Some(p) = arg(args, "--tlc") {
        for sc in read_ndjson(p) {
            let ins: Vec<J> = sc["ins"].as_array().cloned().unwrap_or_default();
            if sc["base"] == "soup" {
                let names: Vec<String> = sc["atoms"].as_array().map(|a| a.iter().map(|x| x.as_str().unwrap().to_string()).collect()).unwrap_or_default();
                let text = resolve_soup(&names, &mut rng);
                put(&mut o, "tlc-soup", text, ins);
            } else {
                let f = sc["file"].as_u64().unwrap_or(0) as usize % corp.len();
                let g = (f * 7 + 3) % corp.len(); // the program a Splice takes its tail from
                let ops: Vec<(String, u64, u64)> = sc["ops"]
                    .as_array()
                    .map(|a| a.iter().map(|x| (x[0].as_str().unwrap().to_string(), x[1].as_u64().unwrap(), x[2].as_u64().unwrap())).collect())
                    .unwrap_or_default();
                let text = mutate(&corp[f].1, &corp[g].1, &ops);
                put(&mut o, if ops.is_empty() { "tlc-corpus" } else { "tlc-mutant" }, text, ins);
            }
        }
    }
    // (2) every corpus program as it is, with insertions
    if !args.iter().any(|a| a == "--no-corpus") {
        for (_, t) in &corp {
            let ins = ins_list(&mut rng, 6);
            put(&mut o, "corpus", t.clone(), ins);
        }
    }
    // (2b) rare productions: a keyword that occurs in at most three corpus texts marks a production the random
    // mutations would hardly ever hit (VAR_ACCESS, VAR_CONFIG, RESOURCE ... ON, PROPERTY, ...).  Every text that
    // contains one gets the complete sweep of single-word deletions and single-word replacements (by ':' , ';' and
    // a literal): each error path of those productions is entered at least once, in every run.
    if !args.iter().any(|a| a == "--no-corpus") {
        let words = |t: &str| -> Vec<(usize, usize)> {
            let b = t.as_bytes();
            let (mut v, mut i) = (Vec::new(), 0usize);
            while i < b.len() {
                if b[i].is_ascii_whitespace() {
                    i += 1;
                } else if b[i].is_ascii_alphanumeric() || b[i] == b'_' {
                    let a = i;
                    while i < b.len() && (b[i].is_ascii_alphanumeric() || b[i] == b'_') {
                        i += 1;
                    }
                    v.push((a, i));
                } else {
                    let a = i;
                    i += 1;
                    while i < b.len() && !t.is_char_boundary(i) {
                        i += 1;
                    }
                    v.push((a, i));
                }
            }
            v
        };
        let mut freq: std::collections::HashMap<String, usize> = std::collections::HashMap::new();
        for (_, t) in &corp {
            let mut seen = std::collections::HashSet::new();
            for (a, b) in words(t) {
                let w = t[a..b].to_ascii_uppercase();
                if w.len() >= 4 && w.bytes().all(|c| c.is_ascii_uppercase() || c == b'_') && t[a..b].bytes().all(|c| c.is_ascii_uppercase() || c == b'_') && seen.insert(w.clone()) {
                    *freq.entry(w).or_default() += 1;
                }
            }
        }
        let mut swept = 0usize;
        for (_, t) in &corp {
            let ws = words(t);
            if ws.len() > 120 || !ws.iter().any(|(a, b)| freq.get(&t[*a..*b].to_ascii_uppercase()).map_or(false, |n| *n <= 3) && t[*a..*b].bytes().all(|c| c.is_ascii_uppercase() || c == b'_') && b - a >= 4) {
                continue;
            }
            for (a, b) in &ws {
                put(&mut o, "rare-delete", format!("{}{}", &t[..*a], &t[*b..]), vec![]);
                for r in [":", ";", "1"] {
                    put(&mut o, "rare-replace", format!("{}{r}{}", &t[..*a], &t[*b..]), vec![]);
                }
                swept += 4;
            }
            // and the text once more in front of itself: the same production after a completed item
            put(&mut o, "rare-twice", format!("{t}\n{t}"), vec![]);
        }
        eprintln!("parse-gen: rare-production sweep: {swept} texts");
    }
    // (3) seeded random scripts; every 40th is an echo: the text generated 25 scripts earlier, again
    let mut recent: std::collections::VecDeque<String> = std::collections::VecDeque::new();
    let mut put = |o: &mut Out, src: &str, text: Option<String>, ins: Vec<J>| {
        let text = text.unwrap_or_else(|| recent.front().cloned().unwrap_or_default());
        recent.push_back(text.clone());
        if recent.len() > 25 {
            recent.pop_front();
        }
        put(o, src, text, ins);
    };
    for k in 0..runs {
        if k % 40 == 39 {
            put(&mut o, "echo", None, vec![]);
            continue;
        }
        match k % 20 {
            0..=5 => {
                let len = rng.gen_range(1..40);
                let text: String = (0..len)
                    .map(|_| {
                        let a = *all_atoms.choose(&mut rng).unwrap();
                        if rng.gen_bool(0.6) { format!("{a} ") } else { a.to_string() }
                    })
                    .collect();
                put(&mut o, "soup", Some(text), vec![]);
            }
            6..=12 => {
                let f = rng.gen_range(0..corp.len());
                let g = rng.gen_range(0..corp.len());
                let names = ["Delete", "Duplicate", "Swap", "Truncate", "Splice"];
                let ops: Vec<(String, u64, u64)> =
                    (0..rng.gen_range(1..4)).map(|_| (names[rng.gen_range(0..5)].to_string(), rng.gen_range(0..1000), rng.gen_range(0..1000))).collect();
                put(&mut o, "mutant", Some(mutate(&corp[f].1, &corp[g].1, &ops)), vec![]);
            }
            13 => put(&mut o, "unicode", Some(random_unicode(&mut rng)), vec![]),
            14 => {
                // stray characters dropped into a corpus program at arbitrary character positions
                let f = rng.gen_range(0..corp.len());
                let mut cs: Vec<char> = corp[f].1.chars().collect();
                for _ in 0..rng.gen_range(1..5) {
                    let at = rng.gen_range(0..=cs.len());
                    cs.insert(at, *UNICODE.choose(&mut rng).unwrap());
                }
                put(&mut o, "stray", Some(cs.into_iter().collect()), vec![]);
            }
            15 | 16 => {
                let t = nested(&mut rng);
                put(&mut o, "nested", Some(t), vec![]);
            }
            _ => {
                let t = well_formed(&mut rng);
                let ins = ins_list(&mut rng, 4);
                put(&mut o, "wellformed", Some(t), ins);
            }
        }
    }
    o.flush();
    0
}

// ------------------------------------------------------------------------------------------
// projection of the real code's results
// ------------------------------------------------------------------------------------------
thread_local! {
    static LAST_PANIC: RefCell<(String, String)> = RefCell::new((String::new(), String::new()));
}

fn install_panic_hook() {
    std::panic::set_hook(Box::new(|info| {
        let msg = if let Some(s) = info.payload().downcast_ref::<&str>() {
            (*s).to_string()
        } else if let Some(s) = info.payload().downcast_ref::<String>() {
            s.clone()
        } else {
            "panic".to_string()
        };
        let loc = info.location().map(|l| format!("{}:{}", l.file(), l.line())).unwrap_or_default();
        LAST_PANIC.with(|p| *p.borrow_mut() = (msg, loc));
    }));
}

/// Run one phase of the code under test; a panic becomes a `Panic` event.
fn phase<T>(name: &str, emit: &mut dyn FnMut(J), f: impl FnOnce() -> T) -> Option<T> {
    match std::panic::catch_unwind(std::panic::AssertUnwindSafe(f)) {
        Ok(v) => Some(v),
        Err(_) => {
            let (msg, loc) = LAST_PANIC.with(|p| p.borrow().clone());
            let msg: String = msg.chars().take(200).collect();
            emit(json!({"a": "Panic", "phase": name, "msg": msg, "loc": loc}));
            None
        }
    }
}

struct Lexed {
    starts: Vec<usize>,
    nontrivia: usize,
    ev: J,
}

fn lex_proj(text: &str) -> Lexed {
    let toks = lex(text);
    let mut arr = Vec::with_capacity(toks.len());
    let mut starts = Vec::with_capacity(toks.len());
    let mut nontrivia = 0;
    for t in &toks {
        let (s, e) = (u32::from(t.range.start()) as usize, u32::from(t.range.end()) as usize);
        // hash of the token's text = the slice of the input its range denotes (0 if the range
        // does not denote a slice; the specification rejects such a range anyway)
        let h = text.get(s..e).map_or(0, |x| (crc32fast::hash(x.as_bytes()) & 0x3fff_ffff) as u64);
        let triv = t.kind.is_trivia();
        if !triv {
            nontrivia += 1;
        }
        starts.push(s);
        arr.push(json!([format!("{:?}", t.kind), s, e, h, triv as u8]));
    }
    Lexed { starts, nontrivia, ev: json!({"a": "Lex", "toks": arr}) }
}

/// Pre-order walk of the tree as the sequence of builder calls that produces it.
fn walk(root: &SyntaxNode) -> Vec<J> {
    let mut out = vec![json!(["S", format!("{:?}", root.kind())])];
    let mut stack = vec![root.children_with_tokens()];
    loop {
        let next = match stack.last_mut() {
            Some(it) => it.next(),
            None => break,
        };
        match next {
            None => {
                stack.pop();
                out.push(json!(["F"]));
            }
            Some(el) => {
                if let Some(n) = el.as_node() {
                    out.push(json!(["S", format!("{:?}", n.kind())]));
                    stack.push(n.children_with_tokens());
                } else if let Some(t) = el.as_token() {
                    out.push(json!(["T", format!("{:?}", t.kind()), t.text().len(), t.kind().is_trivia() as u8]));
                }
            }
        }
    }
    out
}

struct Parsed {
    ok: bool,
    dg: String,
    ev: J,
}

fn parse_proj(text_in: &str) -> Parsed {
    let p = parse(text_in);
    let root = p.syntax();
    let w = walk(&root);
    let tree_text = root.text().to_string();
    let errs: Vec<J> = p.errors().iter().map(|e| json!([u32::from(e.range.start()), u32::from(e.range.end())])).collect();
    let errs_full: String = p.errors().iter().map(|e| format!("{}@{:?};", e.message, e.range)).collect();
    let wj = serde_json::to_string(&w).unwrap();
    let dg = hex_digest(&[wj.as_bytes(), errs_full.as_bytes(), tree_text.as_bytes(), format!("{}", p.ok()).as_bytes()]);
    let ev = json!({"a": "Parse", "walk": w, "errs": errs, "tlen": tree_text.len(), "tdg": hex_digest(&[tree_text.as_bytes()]), "dg": dg});
    Parsed { ok: p.ok(), dg, ev }
}

const DECOY: &str = "FUNCTION_BLOCK decoy VAR a : INT; END_VAR a := (a + 1 (* open\nEND_FUNCTION_BLOCK 'x";

/// Execute one script on the real code.  Returns (tokens, non-trivia tokens, error-free) of the base text.
fn exec_script(sc: &J, repeated: bool, emit: &mut dyn FnMut(J)) -> (usize, usize, bool) {
    let text = sc["text"].as_str().expect("script.text");
    emit(json!({"a": "Reset", "id": sc["id"], "n": text.len(), "dg": hex_digest(&[text.as_bytes()]), "rep": repeated as u8,
        "src": sc["src"].as_str().unwrap_or("")}));
    let Some(lx) = phase("lex", emit, || lex_proj(text)) else { return (0, 0, false) };
    let (ntok, nnt) = (lx.starts.len(), lx.nontrivia);
    emit(lx.ev);
    let Some(p) = phase("parse", emit, || parse_proj(text)) else { return (ntok, nnt, false) };
    let ok = p.ok;
    emit(p.ev);
    // purity: parse something unrelated, then the same text again
    let Some(dg2) = phase("reparse", emit, || {
        let _ = parse(DECOY);
        parse_proj(text).dg
    }) else {
        return (ntok, nnt, ok);
    };
    emit(json!({"a": "Reparse", "dg": dg2}));
    // InsertTrivia(i, what): only offered for error-free texts with at least two tokens
    if !ok || ntok < 2 {
        return (ntok, nnt, ok);
    }
    for ins in sc["ins"].as_array().map(Vec::as_slice).unwrap_or(&[]) {
        let pm = ins[0].as_u64().unwrap_or(0) as usize;
        let what = ins[1].as_str().unwrap_or("space");
        let Some(t) = trivia_text(what) else { panic!("unknown trivia kind {what}") };
        let b = 1 + (pm.min(999) * (ntok - 1)) / 1000; // between token b and token b+1 (1-based)
        let off = lx.starts[b];
        if off > text.len() || !text.is_char_boundary(off) {
            continue; // the lexer's ranges are already rejected by the Lex event
        }
        let derived = format!("{}{}{}", &text[..off], t, &text[off..]);
        emit(json!({"a": "Insert", "i": b, "what": what, "len": t.len(), "n": derived.len(), "dg": hex_digest(&[derived.as_bytes()])}));
        let Some(l2) = phase("lex", emit, || lex_proj(&derived)) else { return (ntok, nnt, ok) };
        emit(l2.ev);
        let Some(p2) = phase("parse", emit, || parse_proj(&derived)) else { return (ntok, nnt, ok) };
        emit(p2.ev);
    }
    (ntok, nnt, ok)
}

// ------------------------------------------------------------------------------------------
// execution: parent / child processes
// ------------------------------------------------------------------------------------------
const STACK_BYTES: usize = 8 << 20; // the default main-thread stack on Linux
const AS_LIMIT: u64 = 4 << 30;
/// No script of the generated size takes more than a few milliseconds; a child that makes no
/// progress for this long is stopped and the script it was working on is tried once more alone.
const STALL: Duration = Duration::from_secs(20);
const STALL_SINGLE: Duration = Duration::from_secs(30);

fn child(args: &[String]) -> i32 {
    let scripts = read_ndjson(arg(args, "--scripts").expect("--scripts"));
    let from = arg_u64(args, "--from", 0) as usize;
    let to = (arg_u64(args, "--to", scripts.len() as u64) as usize).min(scripts.len());
    let stream = args.iter().any(|a| a == "--stream");
    let outp = arg(args, "--out").expect("--out").to_string();
    unsafe {
        let lim = libc::rlimit { rlim_cur: AS_LIMIT, rlim_max: AS_LIMIT };
        libc::setrlimit(libc::RLIMIT_AS, &lim);
    }
    install_panic_hook();
    // which texts occur in more than one script of the file (Reset.rep)
    let mut mult: std::collections::HashMap<&str, u32> = std::collections::HashMap::new();
    for sc in &scripts {
        *mult.entry(sc["text"].as_str().unwrap_or("")).or_insert(0) += 1;
    }
    let repeated: Vec<bool> = scripts.iter().map(|sc| mult[sc["text"].as_str().unwrap_or("")] > 1).collect();
    drop(mult);
    let h = std::thread::Builder::new()
        .stack_size(STACK_BYTES)
        .spawn(move || {
            let mut f = std::io::BufWriter::new(std::fs::File::create(&outp).expect("create part file"));
            let mut st = std::io::BufWriter::new(std::fs::File::create(format!("{outp}.stats")).expect("create stats file"));
            for (k, sc) in scripts.iter().enumerate().take(to).skip(from) {
                let rep = repeated[k];
                let mut nev = 0usize;
                let r = if stream {
                    let mut emit = |e: J| {
                        writeln!(f, "{e}").unwrap();
                        f.flush().unwrap();
                        nev += 1;
                    };
                    exec_script(sc, rep, &mut emit)
                } else {
                    let mut buf: Vec<String> = Vec::new();
                    let mut emit = |e: J| buf.push(e.to_string());
                    let r = exec_script(sc, rep, &mut emit);
                    nev = buf.len();
                    for l in &buf {
                        writeln!(f, "{l}").unwrap();
                    }
                    f.flush().unwrap();
                    r
                };
                writeln!(st, "{}", json!({"id": sc["id"], "nt": r.0, "nnt": r.1, "ok": r.2, "events": nev})).unwrap();
                st.flush().unwrap();
            }
        })
        .expect("spawn worker");
    match h.join() {
        Ok(()) => 0,
        Err(_) => 101,
    }
}

enum Ended {
    Exit(i32),
    Signal(i32),
    Timeout,
}

/// Start a child on scripts[from..to).  The child flushes its output after every script (after
/// every event with `stream`), so "the output file has not grown for `stall`" means that one
/// script has been running for that long.
fn spawn_child(scripts: &str, from: usize, to: usize, out: &Path, stream: bool, stall: Duration) -> Ended {
    use std::os::unix::process::ExitStatusExt;
    // the running image itself (still the same program if the file was rebuilt in the meantime)
    let exe = if Path::new("/proc/self/exe").exists() { PathBuf::from("/proc/self/exe") } else { std::env::current_exe().expect("current_exe") };
    let _ = std::fs::remove_file(out);
    let mut cmd = std::process::Command::new(exe);
    cmd.args(["parse-run", "--child", "--scripts", scripts, "--from", &from.to_string(), "--to", &to.to_string(), "--out"]).arg(out);
    if stream {
        cmd.arg("--stream");
    }
    cmd.stdin(std::process::Stdio::null()).stdout(std::process::Stdio::null()).stderr(std::process::Stdio::null());
    let mut ch = cmd.spawn().expect("spawn child");
    let mut last_growth = Instant::now();
    let mut last_size = 0u64;
    loop {
        match ch.try_wait().expect("wait") {
            Some(st) => {
                return match (st.code(), st.signal()) {
                    (Some(c), _) => Ended::Exit(c),
                    (None, Some(s)) => Ended::Signal(s),
                    _ => Ended::Exit(-1),
                }
            }
            None => {
                let size = std::fs::metadata(out).map(|m| m.len()).unwrap_or(0);
                if size != last_size {
                    last_size = size;
                    last_growth = Instant::now();
                }
                if last_growth.elapsed() > stall {
                    let _ = ch.kill();
                    let _ = ch.wait();
                    return Ended::Timeout;
                }
                std::thread::sleep(Duration::from_millis(10));
            }
        }
    }
}

fn read_lines(p: &Path) -> Vec<String> {
    let s = std::fs::read(p).unwrap_or_default();
    let s = String::from_utf8_lossy(&s);
    // only complete lines (a killed child may leave a partial one)
    let complete = match s.rfind('\n') {
        Some(k) => &s[..=k],
        None => "",
    };
    complete.lines().filter(|l| !l.trim().is_empty()).map(str::to_owned).collect()
}

fn is_reset(l: &str) -> bool {
    l.contains("\"a\":\"Reset\"")
}

#[derive(Default)]
struct Tally {
    aborts: usize,
    hangs: usize,
    flaky: usize,
    skipped: usize,
    tool_error: Option<String>,
}

/// Run scripts[a..b) in child processes; returns the trace lines and the stats lines, in order.
fn run_range(scripts: &str, a: usize, b: usize, tmp: &Path, tally: &std::sync::Mutex<Tally>, stop: &std::sync::atomic::AtomicBool) -> (Vec<String>, Vec<String>) {
    use std::sync::atomic::Ordering;
    let (mut lines, mut stats) = (Vec::new(), Vec::new());
    let mut cur = a;
    let part = tmp.join(format!("part-{a}.ndjson"));
    let part_stats = PathBuf::from(format!("{}.stats", part.display()));
    while cur < b {
        if stop.load(Ordering::SeqCst) {
            tally.lock().unwrap().skipped += b - cur;
            break;
        }
        let end = spawn_child(scripts, cur, b, &part, false, STALL);
        let got = read_lines(&part);
        let done = got.iter().filter(|l| is_reset(l)).count();
        lines.extend(got);
        stats.extend(read_lines(&part_stats).into_iter().take(done));
        cur += done;
        match end {
            Ended::Exit(0) if cur == b => break,
            // a non-zero exit status is a defect of this harness (the code under test can only
            // panic inside `phase`, abort, overflow its stack or hang), never data
            Ended::Exit(c) if c != 0 => {
                tally.lock().unwrap().tool_error = Some(format!("child exited with status {c} at script index {cur}"));
                stop.store(true, Ordering::SeqCst);
                break;
            }
            _ => {}
        }
        if cur >= b {
            break;
        }
        // script `cur` did not complete: run it alone, streaming, to see how far it gets
        let end1 = spawn_child(scripts, cur, cur + 1, &part, true, STALL_SINGLE);
        let got = read_lines(&part);
        let last = got.last().map(|l| serde_json::from_str::<J>(l).ok().and_then(|j| j["a"].as_str().map(str::to_owned)).unwrap_or_default()).unwrap_or_default();
        let id = got.first().and_then(|l| serde_json::from_str::<J>(l).ok()).map(|j| j["id"].clone()).unwrap_or(J::from(0));
        let nev = got.len();
        let complete = matches!(end1, Ended::Exit(0));
        if got.is_empty() || !is_reset(&got[0]) {
            tally.lock().unwrap().tool_error = Some(format!("child produced no Reset event for script index {cur}"));
            stop.store(true, Ordering::SeqCst);
            break;
        }
        lines.extend(got);
        if complete {
            tally.lock().unwrap().flaky += 1;
            stats.extend(read_lines(&part_stats).into_iter().take(1));
        } else {
            let mut t = tally.lock().unwrap();
            match end1 {
                Ended::Timeout => {
                    lines.push(json!({"a": "Hang", "after": last, "secs": STALL_SINGLE.as_secs()}).to_string());
                    t.hangs += 1;
                }
                Ended::Signal(s) => {
                    lines.push(json!({"a": "Abort", "after": last, "status": format!("signal {s}")}).to_string());
                    t.aborts += 1;
                }
                Ended::Exit(c) => {
                    t.tool_error = Some(format!("child exited with status {c} on script index {cur}"));
                    stop.store(true, Ordering::SeqCst);
                }
            }
            stats.push(json!({"id": id, "nt": 0, "nnt": 0, "ok": false, "events": nev + 1}).to_string());
            if t.hangs + t.aborts >= 12 {
                // enough evidence; do not spend the whole budget on a code base that dies everywhere
                stop.store(true, Ordering::SeqCst);
            }
        }
        cur += 1;
    }
    let _ = std::fs::remove_file(&part);
    let _ = std::fs::remove_file(&part_stats);
    (lines, stats)
}

/// parse-run --scripts S --out T [--jobs N]     (writes T and T.stats, prints a summary line)
pub fn run(args: &[String]) -> i32 {
    if args.iter().any(|a| a == "--child") {
        return child(args);
    }
    let scripts_path = arg(args, "--scripts").expect("--scripts").to_string();
    let out = arg(args, "--out").expect("--out").to_string();
    let jobs = arg_u64(args, "--jobs", 8).max(1) as usize;
    let n = read_ndjson(&scripts_path).len();
    let tmp = PathBuf::from(format!("{out}.parts"));
    let _ = std::fs::remove_dir_all(&tmp);
    std::fs::create_dir_all(&tmp).expect("create parts dir");
    let chunk = ((n + jobs * 4 - 1) / (jobs * 4)).max(1);
    let ranges: Vec<(usize, usize)> = (0..n).step_by(chunk).map(|a| (a, (a + chunk).min(n))).collect();
    let next = std::sync::atomic::AtomicUsize::new(0);
    let stop = std::sync::atomic::AtomicBool::new(false);
    let tally = std::sync::Mutex::new(Tally::default());
    let results: std::sync::Mutex<Vec<Option<(Vec<String>, Vec<String>)>>> = std::sync::Mutex::new(vec![None; ranges.len()]);
    std::thread::scope(|s| {
        for _ in 0..jobs.min(ranges.len().max(1)) {
            s.spawn(|| loop {
                let k = next.fetch_add(1, std::sync::atomic::Ordering::SeqCst);
                if k >= ranges.len() {
                    break;
                }
                let (a, b) = ranges[k];
                let r = run_range(&scripts_path, a, b, &tmp, &tally, &stop);
                results.lock().unwrap()[k] = Some(r);
            });
        }
    });
    let mut o = Out::create(&out);
    let mut st = Out::create(&format!("{out}.stats"));
    let mut runs = 0usize;
    for r in results.into_inner().unwrap().into_iter().flatten() {
        for l in &r.0 {
            if is_reset(l) {
                runs += 1;
            }
            writeln!(o.0, "{l}").unwrap();
        }
        for l in &r.1 {
            writeln!(st.0, "{l}").unwrap();
        }
    }
    o.flush();
    st.flush();
    let _ = std::fs::remove_dir_all(&tmp);
    let t = tally.into_inner().unwrap();
    println!("{}", json!({"scripts": n, "runs": runs, "skipped": t.skipped, "aborts": t.aborts, "hangs": t.hangs, "flaky": t.flaky}));
    if let Some(e) = t.tool_error {
        eprintln!("parse-run: {e}");
        return 2;
    }
    0
}
