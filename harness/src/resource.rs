//! ResourceThreads domain (C20): 2..4 real resource threads sharing two configuration globals
//! through `SharedGlobals`, a shared `ManualClock`, and a controller thread issuing seeded
//! random pause / resume / snapshot / fault / stop commands.  Two streams are recorded per run:
//! the cycles (logged by an I/O driver from inside `execute_cycle`, i.e. under the shared lock)
//! and the controller's own actions and observations.
use crate::util::*;
use indexmap::IndexMap;
use rand::{rngs::StdRng, Rng, SeedableRng};
use serde_json::{json, Value as J};
use std::sync::atomic::{AtomicU64, Ordering};
use std::sync::{Arc, Mutex};
use trust_runtime::error::RuntimeError;
use trust_runtime::harness::TestHarness;
use trust_runtime::io::IoDriver;
use trust_runtime::retain::RetainStore;
use trust_runtime::scheduler::{ManualClock, ResourceCommand, ResourceControl, ResourceHandle, ResourceRunner, ResourceState, SharedGlobals, StartGate};
use trust_runtime::value::{Duration, Value};
use trust_runtime::RetainSnapshot;

const SRC: &str = r#"
CONFIGURATION C
VAR_GLOBAL
    a : DINT := DINT#0; b : DINT := DINT#0; boom : BOOL := FALSE; zero : DINT := DINT#0;
END_VAR
PROGRAM I1 : Main;
END_CONFIGURATION
PROGRAM Main
VAR_EXTERNAL a : DINT; b : DINT; boom : BOOL; zero : DINT; END_VAR
VAR
    n : DINT := DINT#0; t : DINT;
    qa AT %QD0 : DINT; qb AT %QD4 : DINT; qn AT %QD8 : DINT;
END_VAR
IF boom THEN t := DINT#1 / zero; END_IF;
a := a + DINT#1;
b := b + DINT#1;
n := n + DINT#1;
qa := a; qb := b; qn := n;
END_PROGRAM
"#;

struct LogDrv {
    r: String,
    log: Arc<Mutex<Vec<J>>>,
    /// microseconds every cycle spends in the driver (0 = none): widens the window in which a command
    /// arrives while the resource is in the middle of a cycle.  Switched on by the controller only for the
    /// final stop phase: the driver runs inside the cycle, i.e. under the shared-globals lock, and std's
    /// mutex is not fair -- slow cycles during the rest of the run could starve one resource for a long time,
    /// which no clause of the property forbids.
    slow_us: Arc<AtomicU64>,
}
impl IoDriver for LogDrv {
    fn read_inputs(&mut self, _inputs: &mut [u8]) -> Result<(), RuntimeError> {
        Ok(())
    }
    fn write_outputs(&mut self, o: &[u8]) -> Result<(), RuntimeError> {
        let d = |k: usize| i32::from_le_bytes([o[k], o[k + 1], o[k + 2], o[k + 3]]);
        self.log.lock().unwrap().push(json!({"r": self.r, "a": d(0), "b": d(4), "n": d(8)}));
        let slow = self.slow_us.load(Ordering::SeqCst);
        if slow > 0 {
            std::thread::sleep(std::time::Duration::from_micros(slow));
        }
        Ok(())
    }
}
struct CountStore(Arc<AtomicU64>);
impl RetainStore for CountStore {
    fn load(&self) -> Result<RetainSnapshot, RuntimeError> {
        Ok(RetainSnapshot::default())
    }
    fn store(&self, _s: &RetainSnapshot) -> Result<(), RuntimeError> {
        self.0.fetch_add(1, Ordering::SeqCst);
        Ok(())
    }
}

fn st(s: ResourceState) -> &'static str {
    match s {
        ResourceState::Boot => "Boot",
        ResourceState::Ready => "Ready",
        ResourceState::Running => "Running",
        ResourceState::Paused => "Paused",
        ResourceState::Faulted => "Faulted",
        ResourceState::Stopped => "Stopped",
    }
}
fn wait_state(c: &ResourceControl<ManualClock>, want: ResourceState, clock: &ManualClock, secs: u64) -> bool {
    let t0 = std::time::Instant::now();
    while c.state() != want {
        if t0.elapsed().as_secs() >= secs {
            return false;
        }
        clock.advance(Duration::from_millis(1));
        std::thread::sleep(std::time::Duration::from_micros(200));
    }
    true
}
fn snap_n(c: &ResourceControl<ManualClock>, clock: &ManualClock) -> Option<i64> {
    let (tx, rx) = std::sync::mpsc::channel();
    c.send_command(ResourceCommand::Snapshot { respond_to: tx }).ok()?;
    // send_command does not wake a resource sleeping on the clock; commands are polled once per loop
    let t0 = std::time::Instant::now();
    let snap = loop {
        clock.interrupt();
        match rx.recv_timeout(std::time::Duration::from_millis(5)) {
            Ok(s) => break s,
            Err(_) if t0.elapsed().as_secs() < 20 => continue,
            Err(_) => return None,
        }
    };
    // n is a variable of the program instance I1
    let id = match snap.storage.get_global("I1") {
        Some(Value::Instance(id)) => *id,
        _ => return None,
    };
    match snap.storage.get_instance_var(id, "n") {
        Some(Value::DInt(v)) => Some(*v as i64),
        _ => None,
    }
}

pub fn run(args: &[String]) -> i32 {
    let seed = arg_u64(args, "--seed", 1);
    let runs = arg_u64(args, "--runs", 20) as usize;
    let mut o = Out::create(arg(args, "--out").expect("--out"));
    let mut rng = StdRng::seed_from_u64(seed ^ 0x7e5);
    let mut stuck_runs = 0;
    for _ in 0..runs {
        match one_run(&mut rng) {
            Ok(ev) => {
                // a run in which a thread did not react in time costs tens of seconds; three of them are
                // evidence enough, the remaining runs are not started
                let stuck = ev["ctl"].as_array().unwrap().iter().any(|e| {
                    e["timeout"] == true || ["PauseNotObserved", "SnapshotNotAnswered", "FaultNotObserved", "NoProgressAfterFault"].contains(&e["a"].as_str().unwrap_or(""))
                });
                o.line(&ev);
                if stuck {
                    stuck_runs += 1;
                    if stuck_runs >= 3 {
                        break;
                    }
                }
            }
            Err(e) => {
                eprintln!("resource-run: {e}");
                return 2;
            }
        }
    }
    o.flush();
    0
}

fn one_run(rng: &mut StdRng) -> Result<J, String> {
    let nres = rng.gen_range(2..=4usize);
    let interval = if rng.gen_bool(0.5) { 0 } else { 1 };
    let gated = rng.gen_bool(0.2);
    let slow_us = if rng.gen_bool(0.35) { [200u64, 600, 1500][rng.gen_range(0..3)] } else { 0 };
    let slow_switch = Arc::new(AtomicU64::new(0));
    let rt0 = TestHarness::from_source(SRC).map_err(|e| e.to_string())?.into_runtime();
    let shared = SharedGlobals::from_runtime(vec!["a".into(), "b".into()], &rt0).map_err(|e| e.to_string())?;
    let clock = ManualClock::new();
    let log = Arc::new(Mutex::new(Vec::new()));
    let gate = Arc::new(StartGate::new());
    let mut handles: Vec<ResourceHandle<ManualClock>> = Vec::new();
    let mut saves = Vec::new();
    let names: Vec<String> = (1..=nres).map(|i| format!("r{i}")).collect();
    for name in &names {
        let mut rt = TestHarness::from_source(SRC).map_err(|e| e.to_string())?.into_runtime();
        rt.io_mut().resize(0, 12, 0);
        rt.add_io_driver(name.clone(), Box::new(LogDrv { r: name.clone(), log: log.clone(), slow_us: slow_switch.clone() }));
        let cnt = Arc::new(AtomicU64::new(0));
        rt.set_retain_store(Some(Box::new(CountStore(cnt.clone()))), None);
        saves.push(cnt);
        let mut runner = ResourceRunner::new(rt, clock.clone(), Duration::from_millis(interval));
        if gated {
            runner = runner.with_start_gate(gate.clone());
        }
        handles.push(runner.spawn_with_shared(name.clone(), shared.clone()).map_err(|e| e.to_string())?);
    }
    let ctl: Vec<ResourceControl<ManualClock>> = handles.iter().map(|h| h.control()).collect();
    let mut ev: Vec<J> = Vec::new();
    let mut alive: Vec<bool> = vec![true; nres];
    let mut paused: Vec<bool> = vec![false; nres];
    let mut opened = !gated;
    // a resource stopped while still gated
    let mut gated_stop: Vec<bool> = vec![false; nres];
    if gated && rng.gen_bool(0.5) {
        let r = rng.gen_range(0..nres);
        ctl[r].stop();
        ev.push(json!({"a": "Stop", "r": names[r]}));
        gated_stop[r] = true;
        alive[r] = false;
    }
    if gated {
        std::thread::sleep(std::time::Duration::from_micros(rng.gen_range(0..2000)));
        gate.open();
        opened = true;
    }
    let _ = opened;
    let steps = rng.gen_range(3..14);
    for _ in 0..steps {
        std::thread::sleep(std::time::Duration::from_micros([0, 20, 100, 400][rng.gen_range(0..4)]));
        let r = rng.gen_range(0..nres);
        match rng.gen_range(0..10) {
            0 | 1 if alive[r] && !paused[r] => {
                ctl[r].pause().map_err(|e| e.to_string())?;
                ev.push(json!({"a": "Pause", "r": names[r]}));
                if wait_state(&ctl[r], ResourceState::Paused, &clock, 20) {
                    ev.push(json!({"a": "ObservePaused", "r": names[r]}));
                    paused[r] = true;
                    // while paused: the cycle count must not move, whatever the clock does
                    for _ in 0..rng.gen_range(1..=2) {
                        if let Some(n) = snap_n(&ctl[r], &clock) {
                            ev.push(json!({"a": "Snap", "r": names[r], "n": n}));
                        }
                        clock.advance(Duration::from_millis(2));
                        std::thread::sleep(std::time::Duration::from_micros(300));
                    }
                    if let Some(n) = snap_n(&ctl[r], &clock) {
                        ev.push(json!({"a": "Snap", "r": names[r], "n": n}));
                    }
                    if rng.gen_bool(0.6) {
                        ctl[r].resume().map_err(|e| e.to_string())?;
                        ev.push(json!({"a": "Resume", "r": names[r]}));
                        paused[r] = false;
                    }
                } else if ctl[r].state() == ResourceState::Faulted {
                    ev.push(json!({"a": "ObserveFaulted", "r": names[r]}));
                    alive[r] = false;
                } else {
                    ev.push(json!({"a": "PauseNotObserved", "r": names[r], "state": st(ctl[r].state())}));
                }
            }
            2 if alive[r] && paused[r] => {
                ctl[r].resume().map_err(|e| e.to_string())?;
                ev.push(json!({"a": "Resume", "r": names[r]}));
                paused[r] = false;
            }
            3 | 4 | 5 if alive[r] => {
                if let Some(n) = snap_n(&ctl[r], &clock) {
                    ev.push(json!({"a": "Snap", "r": names[r], "n": n}));
                } else if ctl[r].state() != ResourceState::Faulted {
                    ev.push(json!({"a": "SnapshotNotAnswered", "r": names[r], "state": st(ctl[r].state())}));
                }
            }
            6 => {
                clock.advance(Duration::from_millis(rng.gen_range(1..4)));
                ev.push(json!({"a": "Advance"}));
            }
            7 if alive[r] && !paused[r] && alive.iter().filter(|x| **x).count() > 1 && rng.gen_bool(0.5) => {
                // fault one resource, then require the others to keep cycling
                let mut up = IndexMap::new();
                up.insert("boom".into(), Value::Bool(true));
                ctl[r].send_command(ResourceCommand::MeshApply { updates: up }).map_err(|e| e.to_string())?;
                ev.push(json!({"a": "Fault", "r": names[r]}));
                if wait_state(&ctl[r], ResourceState::Faulted, &clock, 20) {
                    ev.push(json!({"a": "ObserveFaulted", "r": names[r]}));
                    alive[r] = false;
                    if let Some(o2) = (0..nres).find(|k| alive[*k] && !paused[*k]) {
                        let n0 = snap_n(&ctl[o2], &clock).unwrap_or(-1);
                        let t0 = std::time::Instant::now();
                        let mut n1 = n0;
                        while n1 <= n0 && t0.elapsed().as_secs() < 20 {
                            clock.advance(Duration::from_millis(1));
                            std::thread::sleep(std::time::Duration::from_micros(300));
                            n1 = snap_n(&ctl[o2], &clock).unwrap_or(-1);
                        }
                        if n1 > n0 {
                            ev.push(json!({"a": "Progress", "r": names[o2], "n": n1}));
                        } else {
                            ev.push(json!({"a": "NoProgressAfterFault", "r": names[o2], "n": n1}));
                        }
                    }
                } else {
                    ev.push(json!({"a": "FaultNotObserved", "r": names[r], "state": st(ctl[r].state())}));
                }
            }
            _ => {}
        }
    }
    // stop everything: running, paused, sleeping and gated resources alike
    // In half of the runs the stop is aimed at the middle of a cycle: the clock moves on by one interval (the
    // resource wakes up and starts a cycle), the stop follows after a moment, and the clock then moves by LESS
    // than an interval.  Nobody touches the clock afterwards: the stop itself has to get the thread out.
    let mid_cycle = interval > 0 && rng.gen_bool(0.5);
    if mid_cycle {
        slow_switch.store(slow_us, Ordering::SeqCst);
    }
    for r in 0..nres {
        if !gated_stop[r] {
            if mid_cycle {
                clock.advance(Duration::from_millis(1));
                let t = std::time::Instant::now();
                let wait = rng.gen_range(0..(slow_us.max(60) as u128 * 1000));
                while t.elapsed().as_nanos() < wait {
                    std::hint::spin_loop();
                }
            }
            handles[r].stop();
            if mid_cycle {
                clock.advance(Duration::from_micros(200));
            }
            ev.push(json!({"a": "Stop", "r": names[r]}));
        }
    }
    for (r, mut h) in handles.into_iter().enumerate() {
        let (tx, rx) = std::sync::mpsc::channel();
        let name = names[r].clone();
        let t = std::thread::spawn(move || {
            let _ = h.join();
            let _ = tx.send(st(h.state()));
        });
        match rx.recv_timeout(std::time::Duration::from_secs(30)) {
            Ok(state) => {
                let _ = t.join();
                ev.push(json!({"a": "Join", "r": name, "state": state, "saves": saves[r].load(Ordering::SeqCst), "timeout": false, "gated": gated_stop[r]}));
            }
            Err(_) => {
                ev.push(json!({"a": "Join", "r": name, "state": st(ctl[r].state()), "saves": saves[r].load(Ordering::SeqCst), "timeout": true, "gated": gated_stop[r]}));
            }
        }
    }
    let cyc = log.lock().unwrap().clone();
    Ok(json!({"a": "Reset", "res": names, "interval": interval, "gated": gated, "cyc": cyc, "ctl": ev, "shared_a": match shared.get("a") { Some(Value::DInt(v)) => v as i64, _ => -1 }}))
}
