//! ResourceFault domain (C08 through the resource thread loop of scheduler.rs): a real resource
//! thread (`spawn` or `spawn_with_shared`) runs a program with directly addressed outputs; one kind
//! of fault is provoked (run-time error, wall-clock watchdog, failing I/O driver) under a fault
//! policy / watchdog action and a safe-state map.  Every driver call is logged (with the image it
//! was given) in one totally ordered log together with the controller's observations of
//! `ResourceControl::state()` / `last_error()`; `ResourceFaultTrace` judges the log.
use crate::util::*;
use indexmap::IndexMap;
use rand::{rngs::StdRng, Rng, SeedableRng};
use serde_json::{json, Value as J};
use std::sync::atomic::{AtomicBool, Ordering};
use std::sync::{Arc, Mutex};
use trust_runtime::error::RuntimeError;
use trust_runtime::harness::TestHarness;
use trust_runtime::io::IoDriver;
use trust_runtime::scheduler::{ManualClock, ResourceCommand, ResourceRunner, ResourceState, SharedGlobals};
use trust_runtime::value::{Duration, Value};

const SRC: &str = r#"
CONFIGURATION C
VAR_GLOBAL
    a : DINT := DINT#0; boom : BOOL := FALSE; slow : BOOL := FALSE; zero : DINT := DINT#0;
END_VAR
PROGRAM I1 : Main;
END_CONFIGURATION
PROGRAM Main
VAR_EXTERNAL a : DINT; boom : BOOL; slow : BOOL; zero : DINT; END_VAR
VAR
    n : DINT := DINT#0; t : DINT; k : DINT;
    q0 AT %QB0 : BYTE; q1 AT %QB1 : BYTE; q2 AT %QB2 : BYTE; q3 AT %QB3 : BYTE;
END_VAR
n := n + DINT#1;
a := a + DINT#1;
q0 := BYTE#16#A0; q1 := BYTE#16#A1; q2 := BYTE#16#A2; q3 := BYTE#16#A3;
IF slow THEN
  FOR k := DINT#0 TO DINT#400000 DO t := t + DINT#1; END_FOR;
END_IF;
IF boom THEN t := DINT#1 / zero; END_IF;
END_PROGRAM
"#;
const IMG: usize = 4;

struct Drv {
    d: usize,
    log: Arc<Mutex<Vec<J>>>,
    fail: Arc<AtomicBool>,
}
impl IoDriver for Drv {
    fn read_inputs(&mut self, _inputs: &mut [u8]) -> Result<(), RuntimeError> {
        self.log.lock().unwrap().push(json!({"a": "R", "d": self.d}));
        Ok(())
    }
    fn write_outputs(&mut self, o: &[u8]) -> Result<(), RuntimeError> {
        let failing = self.fail.load(Ordering::SeqCst);
        self.log.lock().unwrap().push(json!({"a": "W", "d": self.d, "img": o.iter().take(IMG).map(|b| *b as i64).collect::<Vec<_>>(), "failed": failing}));
        if failing {
            return Err(RuntimeError::IoDriver("zq-driver-down".into()));
        }
        Ok(())
    }
}


/// The configuration front of the shipped runtime: the policies are written as a `runtime.toml` / `io.toml` pair
/// (the texts a project folder holds), read with the real loaders and applied to the runtime the way
/// bin/trust-runtime/run.rs does.  The trace carries the names and numbers that were WRITTEN, so a wrong mapping in
/// the loaders shows as wrong behaviour.
pub(crate) const RUNTIME_TOML: &str = r#"[bundle]
version = 1

[resource]
name = "ZqRes"
cycle_interval_ms = 1

[runtime.control]
endpoint = "unix:///tmp/zq-trust-runtime.sock"
mode = "production"
debug_enabled = false

[runtime.web]
enabled = false
listen = "127.0.0.1:8080"
auth = "local"
tls = false

[runtime.tls]
mode = "disabled"
require_remote = false

[runtime.discovery]
enabled = false
service_name = "truST"
advertise = false
interfaces = []

[runtime.mesh]
enabled = false
listen = "127.0.0.1:5200"
tls = false
auth_token = ""
publish = []

[runtime.log]
level = "info"

[runtime.retain]
mode = "none"
save_interval_ms = @SAVE_MS@

[runtime.watchdog]
enabled = @WD_ENABLED@
timeout_ms = @WD_MS@
action = "@WD_ACTION@"

[runtime.fault]
policy = "@POLICY@"
"#;
pub(crate) fn load_runtime_toml(dir: &std::path::Path, policy: &str, wd_enabled: bool, wd_ms: u64, wd_action: &str, save_ms: u64) -> Result<trust_runtime::config::RuntimeConfig, String> {
    std::fs::create_dir_all(dir).map_err(|e| e.to_string())?;
    let text = RUNTIME_TOML.replace("@SAVE_MS@", &save_ms.to_string()).replace("@WD_ENABLED@", if wd_enabled { "true" } else { "false" })
        .replace("@WD_MS@", &wd_ms.to_string()).replace("@WD_ACTION@", wd_action).replace("@POLICY@", policy);
    let p = dir.join("runtime.toml");
    std::fs::write(&p, text).map_err(|e| e.to_string())?;
    trust_runtime::config::RuntimeConfig::load(&p).map_err(|e| format!("runtime.toml: {e}"))
}
fn load_io_toml(dir: &std::path::Path, safe: &[(usize, i64)], k: usize) -> Result<trust_runtime::config::IoConfig, String> {
    let mut text = String::from("[io]\ndriver = \"simulated\"\nparams = {}\n");
    for (i, (b, v)) in safe.iter().enumerate() {
        // decimal and both hexadecimal spellings in turn
        let vt = match (k + i) % 3 { 0 => format!("{v}"), 1 => format!("0x{v:02X}"), _ => format!("0X{v:x}") };
        text.push_str(&format!("\n[[io.safe_state]]\naddress = \"%QB{b}\"\nvalue = \"{vt}\"\n"));
    }
    let p = dir.join("io.toml");
    std::fs::write(&p, text).map_err(|e| e.to_string())?;
    trust_runtime::config::IoConfig::load(&p).map_err(|e| format!("io.toml: {e}"))
}

fn err_kind(e: &Option<RuntimeError>) -> String {
    match e {
        None => "none".into(),
        Some(e) => format!("{e:?}").split(|c: char| !c.is_alphanumeric()).next().unwrap_or("").to_string(),
    }
}

pub fn run(args: &[String]) -> i32 {
    let seed = arg_u64(args, "--seed", 1);
    let runs = arg_u64(args, "--runs", 40) as usize;
    let mut o = Out::create(arg(args, "--out").expect("--out"));
    // (a fixture of the live-configuration runs leaves threads behind: the driver runs this in chunks, `--offset`
    // being the index of the chunk's first run)
    let offset = arg_u64(args, "--offset", 0) as usize;
    let mut rng = StdRng::seed_from_u64(seed ^ 0xc08_f ^ (offset as u64).wrapping_mul(0x9e37_79b9));
    for k in offset..offset + runs {
        match one_run(&mut rng, k) {
            Ok(evs) => {
                for e in evs {
                    o.line(&e);
                }
            }
            Err(e) => {
                eprintln!("resfault-run: {e}");
                return 2;
            }
        }
    }
    o.flush();
    0
}

fn one_run(rng: &mut StdRng, k: usize) -> Result<Vec<J>, String> {
    // the combination is enumerated (kind x policy x watchdog action x runner), the rest is random
    let kind = ["error", "watchdog", "driver", "simulation"][k % 4];
    let policy = ["halt", "safe_halt", "restart"][(k / 4) % 3];
    let wd = ["halt", "safe_halt", "restart"][(k / 12) % 3];
    let shared_runner = (k / 36) % 2 == 0;
    // how the policies reach the runtime: from the configuration files at start, or -- started with OTHER policies --
    // by one `config.set` request to a real control endpoint whose resource commands go to this resource thread
    let live = (k / 72) % 2 == 1;
    let rot = |x: &str| match x { "halt" => "safe_halt", "safe_halt" => "restart", _ => "halt" };
    let ndrv = rng.gen_range(1..=3usize);
    let failing_drv = rng.gen_range(0..ndrv);
    let mut safe: Vec<(usize, i64)> = Vec::new();
    for b in 0..IMG {
        if rng.gen_bool(0.6) {
            safe.push((b, [0i64, 1, 0x5A, 0xFF][rng.gen_range(0..4)]));
        }
    }
    let mut rt = TestHarness::from_source(SRC).map_err(|e| e.to_string())?.into_runtime();
    let shared = SharedGlobals::from_runtime(vec!["a".into()], &rt).map_err(|e| e.to_string())?;
    rt.io_mut().resize(0, IMG, 0);
    let log = Arc::new(Mutex::new(Vec::<J>::new()));
    let fail = Arc::new(AtomicBool::new(false));
    for d in 0..ndrv {
        let f = if d == failing_drv { fail.clone() } else { Arc::new(AtomicBool::new(false)) };
        rt.add_io_driver(format!("d{d}"), Box::new(Drv { d: d + 1, log: log.clone(), fail: f }));
    }
    // the watchdog measures wall time: it is enabled only in watchdog runs (a slow cycle takes >> 3 ms, a
    // normal one a few microseconds; a normal cycle that is descheduled for longer trips it early, which
    // the specification allows -- the fault kind is then still the watchdog's)
    let cfgdir = std::env::temp_dir().join(format!("zq-resfault-{}-{k}", std::process::id()));
    let loaded = if live { load_runtime_toml(&cfgdir, rot(policy), false, 1000, rot(wd), 1000) } else { load_runtime_toml(&cfgdir, policy, kind == "watchdog", 3, wd, 1000) }
        .and_then(|c| load_io_toml(&cfgdir, &safe, k).map(|i| (c, i)));
    let _ = std::fs::remove_dir_all(&cfgdir);
    let (rcfg, iocfg) = loaded?;
    rt.set_watchdog_policy(rcfg.watchdog);
    rt.set_fault_policy(rcfg.fault_policy);
    rt.set_io_safe_state(iocfg.safe_state.clone());
    let clock = ManualClock::new();
    let mut runner = ResourceRunner::new(rt, clock.clone(), Duration::from_millis(1));
    // a fault disturbance of the simulation layer, due after a few cycles (the loop applies it before a cycle)
    let sim_at = rng.gen_range(2..7i64) + if live { 40 } else { 0 };
    if kind == "simulation" {
        use trust_runtime::simulation::{SimulationConfig, SimulationController, SimulationDisturbance, SimulationDisturbanceKind};
        let cfg = SimulationConfig { enabled: true, seed: 1, time_scale: 1, couplings: vec![],
            disturbances: vec![SimulationDisturbance { at: Duration::from_millis(sim_at), kind: SimulationDisturbanceKind::Fault { message: "zq-injected".into() } }] };
        runner = runner.with_simulation(SimulationController::new(cfg));
    }
    let mut handle = if shared_runner { runner.spawn_with_shared("zq", shared).map_err(|e| e.to_string())? } else { runner.spawn("zq").map_err(|e| e.to_string())? };
    let ctl = handle.control();
    let push = |e: J| log.lock().unwrap().push(e);
    let writes = || log.lock().unwrap().iter().filter(|e| e["a"] == "W").count();
    let tick = || {
        clock.advance(Duration::from_millis(1));
        std::thread::sleep(std::time::Duration::from_micros(200));
    };
    // a few normal cycles first (the simulation fault comes by itself, at its time)
    let warm = if kind == "simulation" { 1 } else { rng.gen_range(1..5) };
    let t0 = std::time::Instant::now();
    while writes() < warm * ndrv && t0.elapsed().as_secs() < 20 && ctl.state() != ResourceState::Faulted {
        tick();
    }
    if live {
        let fxdir = std::env::temp_dir().join(format!("zq-resfault-fx-{}-{k}", std::process::id()));
        std::fs::create_dir_all(&fxdir).map_err(|e| e.to_string())?;
        let mut fx = crate::ctrlauth::Fx::build_with_pairing(&fxdir, &crate::ctrlauth::Cfg { token: false, debug: false, mode: "debug".into() }, None);
        let target = ctl.clone();
        *fx.forward.lock().unwrap() = Some(Box::new(move |c| {
            let _ = target.send_command(c);
        }));
        let line = json!({"id": 7, "type": "config.set", "params": {"fault.policy": policy, "watchdog.enabled": kind == "watchdog", "watchdog.timeout_ms": 3, "watchdog.action": wd}}).to_string();
        let reply = fx.ask(&line).line().unwrap_or_default();
        let ok = serde_json::from_str::<J>(&reply).map(|r| r["ok"] == json!(true)).unwrap_or(false);
        push(json!({"a": "Inject", "config_set": ok}));
        if !ok {
            return Err(format!("config.set was not accepted: {reply}"));
        }
        // the stub behind the endpoint hands the commands on from a thread of its own: wait until the last of the
        // three has passed it
        let t0 = std::time::Instant::now();
        while !fx.commands().iter().any(|c| c.starts_with("UpdateRetainSaveInterval")) {
            if t0.elapsed().as_secs() > 20 {
                return Err("config.set did not send its resource commands".into());
            }
            std::thread::sleep(std::time::Duration::from_millis(1));
        }
        std::thread::sleep(std::time::Duration::from_millis(2));
        // the loop drains its commands at the top of an iteration: two more cycles and they are in force
        let w0 = writes();
        let t0 = std::time::Instant::now();
        while writes() < w0 + 2 * ndrv && t0.elapsed().as_secs() < 20 && ctl.state() != ResourceState::Faulted {
            tick();
        }
        *fx.forward.lock().unwrap() = None;
        drop(fx);
        let _ = std::fs::remove_dir_all(&fxdir);
    }
    // provoke
    let mut up = IndexMap::new();
    match kind {
        "error" => { up.insert("boom".into(), Value::Bool(true)); }
        "watchdog" => { up.insert("slow".into(), Value::Bool(true)); }
        "simulation" => {
            // the disturbance comes by itself: let the clock reach its time
            use trust_runtime::scheduler::Clock;
            let t0 = std::time::Instant::now();
            while clock.now().as_nanos() < (sim_at - 1) * 1_000_000 && t0.elapsed().as_secs() < 20 && ctl.state() != ResourceState::Faulted {
                tick();
            }
        }
        _ => fail.store(true, Ordering::SeqCst),
    }
    push(json!({"a": "Inject"}));
    if !up.is_empty() {
        // (under load the wall-clock watchdog of a watchdog run may already have ended the loop: the command
        // then has nowhere to go, and the fault the run is about has happened all the same)
        let _ = ctl.send_command(ResourceCommand::MeshApply { updates: up });
    }
    // observe: Faulted, or (restart policies) cycles that keep coming
    let w0 = writes();
    let t1 = std::time::Instant::now();
    let mut verdict = "timeout";
    while t1.elapsed().as_secs() < 30 {
        if ctl.state() == ResourceState::Faulted {
            verdict = "faulted";
            break;
        }
        if writes() >= w0 + 6 * ndrv {
            verdict = "running";
            break;
        }
        tick();
    }
    // the observation is appended while the log is locked: every driver call logged before it happened before
    {
        let mut l = log.lock().unwrap();
        let state = ctl.state();
        l.push(json!({"a": "Obs", "state": if state == ResourceState::Faulted { "Faulted" } else { "Running" }, "verdict": verdict, "err": err_kind(&ctl.last_error())}));
    }
    if verdict == "faulted" {
        // nothing may run any more
        for _ in 0..6 {
            tick();
        }
        push(json!({"a": "Quiet"}));
    }
    ctl.stop();
    for _ in 0..50 {
        clock.advance(Duration::from_millis(1));
        if ctl.state() == ResourceState::Stopped || ctl.state() == ResourceState::Faulted {
            break;
        }
        std::thread::sleep(std::time::Duration::from_millis(1));
    }
    let joined = {
        let (tx, rx) = std::sync::mpsc::channel();
        std::thread::spawn(move || {
            let _ = handle.join();
            let _ = tx.send(());
        });
        let t = std::time::Instant::now();
        let mut ok = false;
        while t.elapsed().as_secs() < 20 {
            clock.advance(Duration::from_millis(1));
            if rx.recv_timeout(std::time::Duration::from_millis(2)).is_ok() {
                ok = true;
                break;
            }
        }
        ok
    };
    let mut evs = vec![json!({"a": "Reset", "k": k, "kind": kind, "policy": policy, "wd": wd, "runner": if shared_runner { "shared" } else { "plain" }, "cfgvia": if live { "config.set" } else { "files" }, "ndrv": ndrv,
                              "failing": failing_drv + 1, "safe": safe.iter().map(|(b, v)| json!({"b": b + 1, "v": v})).collect::<Vec<_>>()})];
    evs.extend(log.lock().unwrap().drain(..));
    evs.push(json!({"a": "End", "joined": joined}));
    Ok(evs)
}
