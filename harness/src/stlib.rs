//! Standard-library call matrix (C01): every registered standard function (names scraped from the
//! sources of /repo by the driver) and every `<A>_TO_<B>` conversion, called with boundary values.
//!
//! Phase A calls `StandardLibrary::call` directly (no compiler in the loop, so millions of tuples are
//! cheap) in a child process and records per (function, argument types) which outcomes occur.
//! Phase B takes every tuple that panicked / aborted, and every tuple whose outcome is a static-class
//! error although another tuple OF THE SAME TYPES succeeded (a value-dependent "type" error), writes
//! it as a one-statement ST program, and keeps it only if the compiler ACCEPTS that program (C01
//! speaks about accepted programs) and the real cycle shows the same outcome.
use crate::util::*;
use serde_json::{json, Value as J};
use std::collections::{BTreeMap, BTreeSet};
use trust_runtime::harness::TestHarness;
use trust_runtime::stdlib::StandardLibrary;
use trust_runtime::value::Value;

/// (type name, literal text); the Value of each literal is obtained by running it through the
/// compiler, so literal and value cannot disagree.  Literals that do not compile are dropped.
const POOL: &[(&str, &str)] = &[
    ("BOOL", "TRUE"), ("BOOL", "FALSE"),
    ("SINT", "SINT#-128"), ("SINT", "SINT#-1"), ("SINT", "SINT#0"), ("SINT", "SINT#1"), ("SINT", "SINT#127"),
    ("INT", "INT#-32768"), ("INT", "INT#-1"), ("INT", "INT#0"), ("INT", "INT#1"), ("INT", "INT#2"), ("INT", "INT#3"), ("INT", "INT#4"), ("INT", "INT#255"), ("INT", "INT#32767"),
    ("DINT", "DINT#-2147483648"), ("DINT", "DINT#-1"), ("DINT", "DINT#0"), ("DINT", "DINT#1"), ("DINT", "DINT#65"), ("DINT", "DINT#2147483647"),
    ("LINT", "(LINT#-9223372036854775807 - LINT#1)"), ("LINT", "LINT#-1"), ("LINT", "LINT#0"), ("LINT", "LINT#2"), ("LINT", "LINT#9223372036854775807"),
    ("USINT", "USINT#0"), ("USINT", "USINT#1"), ("USINT", "USINT#200"), ("USINT", "USINT#255"),
    ("UINT", "UINT#0"), ("UINT", "UINT#2"), ("UINT", "UINT#65535"),
    ("UDINT", "UDINT#0"), ("UDINT", "UDINT#3"), ("UDINT", "UDINT#4294967295"),
    ("ULINT", "ULINT#0"), ("ULINT", "ULINT#1"), ("ULINT", "ULINT#18446744073709551615"),
    ("REAL", "REAL#0.0"), ("REAL", "REAL#-1.5"), ("REAL", "REAL#2.5"), ("REAL", "REAL#3.4E38"), ("REAL", "REAL#-3.4E38"), ("REAL", "REAL#1.0E-38"), ("REAL", "REAL#70000.0"),
    ("LREAL", "LREAL#0.0"), ("LREAL", "LREAL#-2.5"), ("LREAL", "LREAL#1.7E308"), ("LREAL", "LREAL#-1.7E308"), ("LREAL", "LREAL#1.0E19"), ("LREAL", "LREAL#0.5"),
    ("BYTE", "BYTE#16#0"), ("BYTE", "BYTE#16#9A"), ("BYTE", "BYTE#16#FF"),
    ("WORD", "WORD#16#0"), ("WORD", "WORD#16#9999"), ("WORD", "WORD#16#FFFF"),
    ("DWORD", "DWORD#16#0"), ("DWORD", "DWORD#16#99999999"), ("DWORD", "DWORD#16#FFFFFFFF"),
    ("LWORD", "LWORD#16#0"), ("LWORD", "LWORD#16#FFFFFFFFFFFFFFFF"), ("LWORD", "LWORD#16#8000000000000000"),
    ("TIME", "T#0ms"), ("TIME", "T#1ms"), ("TIME", "T#-5ms"), ("TIME", "T#24d"), ("TIME", "T#106751d"),
    ("LTIME", "LTIME#0ns"), ("LTIME", "LTIME#1s"), ("LTIME", "LTIME#106751d"),
    ("DATE", "D#1970-01-01"), ("DATE", "D#2024-02-29"), ("DATE", "D#2106-02-07"), ("DATE", "D#9999-12-31"),
    ("TOD", "TOD#00:00:00"), ("TOD", "TOD#12:30:00"), ("TOD", "TOD#23:59:59.999"),
    ("DT", "DT#1970-01-01-00:00:00"), ("DT", "DT#2024-02-29-12:30:00"), ("DT", "DT#2106-02-07-06:28:15"),
    ("LDATE", "LDATE#1970-01-01"), ("LDATE", "LDATE#2262-04-11"),
    ("LTOD", "LTOD#00:00:00"), ("LTOD", "LTOD#23:59:59.999999999"),
    ("LDT", "LDT#1970-01-01-00:00:00"), ("LDT", "LDT#2262-04-11-23:47:16"),
    ("STRING", "''"), ("STRING", "'a'"), ("STRING", "'abc'"), ("STRING", "'12'"), ("STRING", "'-7'"), ("STRING", "'1.5'"), ("STRING", "'TRUE'"), ("STRING", "'ä'"), ("STRING", "'aä€😀b'"),
    ("STRING", "'xxxxxxxxxxxxxxxxxxxxxxxxxxxxxxxxxxxxxxxxxxxxxxxxxxxxxxxxxxxxxxxxxxxxxxxxxxxxxxxxxxxxxxxxxxxxxxxxxxxxxxxxxxxxxxxxxxxxxxxxxxxxxxxxxxxxxxxxxxxxxxxxxxxxxxxxxxxxxxxxxxxxxxxxxxxxxxxxxxxxxxxxxxxxxxxxxxxxxxxxxxxxxxxxxxxxxxxxxxxxxxxxxxxxxxxxxxxxxxxxxxxxxxxxxxxxxxxxxx'"),
    ("WSTRING", "\"\""), ("WSTRING", "\"a\""), ("WSTRING", "\"abc\""), ("WSTRING", "\"aä€😀b\""), ("WSTRING", "\"42\""),
    ("CHAR", "CHAR#'a'"), ("WCHAR", "WCHAR#\"a\""),
];
const TYPES: &[&str] = &["BOOL", "SINT", "INT", "DINT", "LINT", "USINT", "UINT", "UDINT", "ULINT", "REAL", "LREAL", "BYTE", "WORD", "DWORD", "LWORD",
                         "TIME", "LTIME", "DATE", "TOD", "DT", "LDATE", "LTOD", "LDT", "STRING", "WSTRING", "CHAR", "WCHAR"];
const STATIC_ERRORS: &[&str] = &["TypeMismatch", "UndefinedVariable", "UndefinedFunction", "UndefinedField", "InvalidArgumentCount", "ConditionNotBool", "CaseSelectorType",
                                 "InvalidControlFlow", "UndefinedProgram", "UndefinedFunctionBlock", "InvalidArgumentName", "UnsupportedOperation"];

fn kind_of<E: std::fmt::Debug>(e: &E) -> String {
    format!("{e:?}").split(|c: char| !c.is_alphanumeric()).next().unwrap_or("").to_string()
}

/// The pool with its values: (type, literal, value).
fn pool() -> Vec<(&'static str, &'static str, Value)> {
    let mut v = Vec::new();
    for (t, lit) in POOL {
        let src = format!("PROGRAM P\nVAR\n  x : {t} := {lit};\nEND_VAR\nEND_PROGRAM\n");
        if let Ok(Ok(mut h)) = std::panic::catch_unwind(|| TestHarness::from_source(&src)) {
            let r = h.cycle();
            if r.errors.is_empty() {
                if let Some(x) = h.get_output("x") {
                    v.push((*t, *lit, x));
                }
            }
        }
    }
    v
}

/// `stlib-child --funcs F.json --from K`: phase A for function K.. ; one line per function.
pub fn child(args: &[String]) -> i32 {
    let funcs: Vec<J> = read_ndjson(arg(args, "--funcs").expect("--funcs"));
    let from = arg_u64(args, "--from", 0) as usize;
    let budget = arg_u64(args, "--budget", 400_000) as usize;
    let seed = arg_u64(args, "--seed", 1) as usize;
    let trace = arg_u64(args, "--trace", 0) == 1; // print every tuple before the call (to find the one that kills the process)
    let only = arg_u64(args, "--only", u64::MAX);
    std::panic::set_hook(Box::new(|_| {}));
    let pool = pool();
    let lib = StandardLibrary::new();
    let by_type: BTreeMap<&str, Vec<usize>> = {
        let mut m: BTreeMap<&str, Vec<usize>> = BTreeMap::new();
        for (i, p) in pool.iter().enumerate() {
            m.entry(p.0).or_default().push(i);
        }
        m
    };
    let call = |name: &str, idx: &[usize]| -> String {
        if trace {
            println!("T {}", json!(idx.iter().map(|&i| pool[i].1).collect::<Vec<_>>()));
        }
        let vals: Vec<Value> = idx.iter().map(|&i| pool[i].2.clone()).collect();
        match std::panic::catch_unwind(std::panic::AssertUnwindSafe(|| lib.call(name, &vals))) {
            Err(_) => "Panic".into(),
            Ok(Ok(_)) => "ok".into(),
            Ok(Err(e)) => kind_of(&e),
        }
    };
    for (k, f) in funcs.iter().enumerate().skip(from) {
        if only != u64::MAX && k as u64 != only {
            continue;
        }
        let name = f["name"].as_str().unwrap();
        let arities: Vec<usize> = f["arities"].as_array().unwrap().iter().map(|a| a.as_u64().unwrap() as usize).collect();
        println!("BEGIN {k}");
        let mut classes: BTreeMap<String, BTreeMap<String, Vec<Vec<usize>>>> = BTreeMap::new(); // types -> outcome -> examples
        let mut calls = 0usize;
        for &n in &arities {
            // which types are plausible at each position: some call with that type there is not a TypeMismatch
            let reps: Vec<usize> = by_type.values().map(|v| v[v.len() / 2]).collect();
            let mut plausible: Vec<BTreeSet<&str>> = vec![BTreeSet::new(); n];
            let mut tuple = vec![0usize; n];
            let total = reps.len().pow(n as u32);
            if total <= 800_000 {
                for code in 0..total {
                    let mut c = code;
                    for p in 0..n {
                        tuple[p] = reps[c % reps.len()];
                        c /= reps.len();
                    }
                    calls += 1;
                    let o = call(name, &tuple);
                    if o != "TypeMismatch" && o != "InvalidArgumentCount" && o != "UndefinedFunction" {
                        for p in 0..n {
                            plausible[p].insert(pool[tuple[p]].0);
                        }
                    }
                }
            }
            if plausible.iter().any(|s| s.is_empty()) {
                continue;
            }
            // the boundary product over the plausible types, thinned to the budget
            let cands: Vec<Vec<usize>> = plausible.iter().map(|s| s.iter().flat_map(|t| by_type[t].iter().copied()).collect()).collect();
            let total: usize = cands.iter().map(|c| c.len()).product();
            let stride = (total / budget).max(1);
            let mut code = if stride > 1 { seed.wrapping_mul(7919) % stride } else { 0 };
            while code < total {
                let mut c = code;
                for p in 0..n {
                    tuple[p] = cands[p][c % cands[p].len()];
                    c /= cands[p].len();
                }
                calls += 1;
                let o = call(name, &tuple);
                let types: Vec<&str> = tuple.iter().map(|&i| pool[i].0).collect();
                let e = classes.entry(types.join(",")).or_default().entry(o).or_default();
                if e.len() < 3 {
                    e.push(tuple.clone());
                }
                code += if stride > 1 { stride + (code % 7) } else { 1 };
            }
        }
        // report: per type class the outcomes with examples (as literal texts)
        let mut out = Vec::new();
        for (types, outs) in &classes {
            let has_ok = outs.contains_key("ok");
            for (o, exs) in outs {
                let suspicious = o == "Panic" || (STATIC_ERRORS.contains(&o.as_str()) && has_ok);
                if suspicious {
                    for ex in exs {
                        out.push(json!({"types": types, "outcome": o, "lits": ex.iter().map(|&i| pool[i].1).collect::<Vec<_>>()}));
                    }
                }
            }
        }
        println!("END {k} {}", json!({"name": name, "calls": calls, "classes": classes.len(), "okClasses": classes.values().filter(|o| o.contains_key("ok")).count(), "suspicious": out}));
    }
    0
}

/// Phase B: the suspicious tuple as an ST program; Some(outcome) if the compiler accepts it with some
/// result type (the first that does), None if no program with this call is accepted.
fn confirm(name: &str, lits: &[&str]) -> Option<(String, String, String)> {
    for t in TYPES {
        let src = format!("PROGRAM P\nVAR\n  r : {t};\nEND_VAR\nr := {name}({});\nEND_PROGRAM\n", lits.join(", "));
        let Ok(Ok(mut h)) = std::panic::catch_unwind(|| TestHarness::from_source(&src)) else { continue };
        let r = std::panic::catch_unwind(std::panic::AssertUnwindSafe(|| h.cycle()));
        let res = match &r {
            Err(_) => "Panic".to_string(),
            Ok(c) => if c.errors.is_empty() { "ok".into() } else { kind_of(&c.errors[0]) },
        };
        return Some((t.to_string(), res, src));
    }
    None
}

/// `stlib-confirm --name F --lits JSON`: one confirmation in this process (may die: that is data).
pub fn confirm_child(args: &[String]) -> i32 {
    std::panic::set_hook(Box::new(|_| {}));
    let name = arg(args, "--name").expect("--name");
    let lits: Vec<String> = serde_json::from_str(arg(args, "--lits").expect("--lits")).expect("lits");
    let l: Vec<&str> = lits.iter().map(|s| s.as_str()).collect();
    println!("BEGIN");
    match confirm(name, &l) {
        Some((t, res, src)) => println!("END {}", json!({"accepted": true, "rtype": t, "res": res, "src": src})),
        None => println!("END {}", json!({"accepted": false})),
    }
    0
}

/// `stlib-run --funcs F.ndjson --out trace.ndjson [--budget N]`
pub fn run(args: &[String]) -> i32 {
    let fpath = arg(args, "--funcs").expect("--funcs");
    let funcs: Vec<J> = read_ndjson(fpath);
    let budget = arg_u64(args, "--budget", 400_000).to_string();
    let seed = arg_u64(args, "--seed", 1).to_string();
    let mut o = Out::create(arg(args, "--out").expect("--out"));
    let exe = crate::util::self_exe();
    let mut next = 0usize;
    let mut reports: Vec<J> = Vec::new();
    while next < funcs.len() {
        let out = std::process::Command::new(&exe).args(["stlib-child", "--funcs", fpath, "--from", &next.to_string(), "--budget", &budget, "--seed", &seed]).output().unwrap();
        let text = String::from_utf8_lossy(&out.stdout).to_string();
        let mut began: Option<usize> = None;
        for line in text.lines() {
            if let Some(k) = line.strip_prefix("BEGIN ") {
                began = k.parse().ok();
            } else if let Some(rest) = line.strip_prefix("END ") {
                let (k, js) = rest.split_once(' ').unwrap();
                reports.push(serde_json::from_str(js).unwrap());
                next = k.parse::<usize>().unwrap() + 1;
                began = None;
            }
        }
        if let Some(k) = began {
            // the child died inside this function (abort / stack overflow / kill): run it again printing every
            // tuple before the call; the last one printed is the one that kills the process
            let out = std::process::Command::new(&exe).args(["stlib-child", "--funcs", fpath, "--only", &k.to_string(), "--trace", "1", "--budget", &budget, "--seed", &seed]).output().unwrap();
            let text = String::from_utf8_lossy(&out.stdout).to_string();
            let last = text.lines().rev().find_map(|l| l.strip_prefix("T ")).map(|j| serde_json::from_str::<J>(j).unwrap_or(J::Null)).unwrap_or(J::Null);
            let sus = if last.is_null() { vec![] } else { vec![json!({"types": "?", "outcome": "Abort", "lits": last})] };
            reports.push(json!({"name": funcs[k]["name"], "calls": 0, "classes": 0, "okClasses": 0, "died": true, "suspicious": sus}));
            next = k + 1;
        } else if text.lines().count() == 0 {
            eprintln!("stlib-run: child produced no output: {}", String::from_utf8_lossy(&out.stderr));
            return 2;
        }
    }
    for r in &reports {
        let name = r["name"].as_str().unwrap();
        let mut confirmed = Vec::new();
        let mut seen: BTreeSet<String> = BTreeSet::new();
        for s in r["suspicious"].as_array().unwrap() {
            let key = format!("{}|{}", s["types"].as_str().unwrap(), s["outcome"].as_str().unwrap());
            if seen.contains(&key) {
                continue; // one confirmed example per (types, outcome) is enough
            }
            let lits = serde_json::to_string(&s["lits"]).unwrap();
            let out = std::process::Command::new(&exe).args(["stlib-confirm", "--name", name, "--lits", &lits]).output().unwrap();
            let text = String::from_utf8_lossy(&out.stdout).to_string();
            let end = text.lines().find_map(|l| l.strip_prefix("END "));
            let c: J = match end {
                Some(js) => serde_json::from_str(js).unwrap(),
                None if text.contains("BEGIN") => json!({"accepted": true, "rtype": "?", "res": "Abort", "src": format!("r := {name}({});", s["lits"])}),
                None => json!({"accepted": false}),
            };
            if c["accepted"] == true {
                let res = c["res"].as_str().unwrap();
                if res == "Panic" || res == "Abort" || STATIC_ERRORS.contains(&res) {
                    seen.insert(key);
                    confirmed.push(json!({"types": s["types"], "lits": s["lits"], "direct": s["outcome"], "res": res, "rtype": c["rtype"], "src": c["src"]}));
                }
            }
        }
        o.line(&json!({"a": "StdFn", "name": name, "calls": r["calls"], "classes": r["classes"], "okClasses": r["okClasses"], "died": r["died"] == true,
                       "suspicious": r["suspicious"].as_array().unwrap().len(), "confirmed": confirmed}));
    }
    o.flush();
    0
}
