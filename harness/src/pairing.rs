//! Pairing domain (second stage of C18): the life cycle of pairing tokens.
//!
//! `pairing-gen` — writes scripts: hand-written boundary scenarios (code / token expiry at TTL-1,
//!                 TTL, TTL+1; single use; stale and wrong codes; shared ids; the cap on enabled
//!                 tokens; legacy file entries; prune-without-save paths followed by a restart) and
//!                 seeded random scripts whose ticks aim at the expiry instants.
//! `pairing-run` — executes scripts on the REAL `PairingStore::with_clock(file, clock)` with a clock
//!                 the script controls, either directly (fixture "store") or inside the control
//!                 endpoint fixture of `ctrlauth` (fixture "endpoint": a real `ControlServer` on a unix
//!                 socket with an auth token configured; steps may go through pair.start / pair.claim /
//!                 pair.list / pair.revoke request lines and `Req` steps send status / restart /
//!                 io.unforce / pair.* with a pairing token as `auth`).  After every step the event
//!                 records the operation's result and the JSON file parsed back; with `probe` also
//!                 list(), validate_with_role of every secret seen so far (plus near misses) and the
//!                 file again.  Codes and tokens are random secrets: the trace names them by the order
//!                 in which they appeared (k-th code, k-th token), never by value.
use crate::ctrlauth::{classify, install_panic_hook, panic_count, template_of, Answer, Cfg, Fx, ADMIN_TOKEN, IN_PROBE, PANICS};
use crate::util::*;
use rand::{rngs::StdRng, Rng, SeedableRng};
use serde_json::{json, Value as J};
use std::path::{Path, PathBuf};
use std::sync::atomic::{AtomicU64, Ordering};
use std::sync::Arc;
use trust_runtime::security::AccessRole;
use trust_runtime::web::pairing::PairingStore;

// the constants of the store (used by the GENERATOR only, to aim ticks at the boundaries; the
// expected behaviour comes from spec/PairingTrace.cfg)
const CODE_TTL: u64 = 300;
const TOKEN_TTL: u64 = 30 * 24 * 60 * 60;
const MAX_TOKENS: usize = 256;
const T0: u64 = 10_000_000;

const ROLES: [&str; 4] = ["viewer", "operator", "engineer", "admin"];
fn role_of(r: AccessRole) -> i64 {
    match r {
        AccessRole::Viewer => 0,
        AccessRole::Operator => 1,
        AccessRole::Engineer => 2,
        AccessRole::Admin => 3,
    }
}
fn role_idx(name: &str) -> i64 {
    ROLES.iter().position(|r| *r == name).map(|i| i as i64).unwrap_or(-1)
}
fn access_role(i: i64) -> Option<AccessRole> {
    match i {
        0 => Some(AccessRole::Viewer),
        1 => Some(AccessRole::Operator),
        2 => Some(AccessRole::Engineer),
        3 => Some(AccessRole::Admin),
        _ => None,
    }
}
fn id_num(id: &str) -> i64 {
    id.strip_prefix("pair-").and_then(|n| n.parse::<i64>().ok()).filter(|n| *n >= 0 && id == format!("pair-{n}")).unwrap_or(-1)
}
fn tail4(s: &str) -> String {
    let t: Vec<char> = s.chars().rev().take(4).collect();
    t.into_iter().rev().collect()
}

/// Two secrets of one run cannot be told apart by the trace (equal codes, equal token tails): the
/// run is repeated with fresh randomness.
struct Collision;

struct Sess {
    clock: Arc<AtomicU64>,
    path: PathBuf,
    store: Arc<PairingStore>,
    endpoint: bool,
    codes: Vec<String>,
    toks: Vec<String>,
    rng: StdRng,
    req_id: u64,
}

fn clock_fn(c: &Arc<AtomicU64>) -> Arc<dyn Fn() -> u64 + Send + Sync> {
    let c = c.clone();
    Arc::new(move || c.load(Ordering::SeqCst))
}

/// Runs `f` (a direct call into the store) so that a panic of the code under test is data.
fn guarded<T>(f: impl FnOnce() -> T) -> Result<T, String> {
    IN_PROBE.store(true, Ordering::SeqCst);
    let before = panic_count();
    let r = std::panic::catch_unwind(std::panic::AssertUnwindSafe(f));
    IN_PROBE.store(false, Ordering::SeqCst);
    match r {
        Ok(v) => Ok(v),
        Err(_) => {
            let msg = PANICS.lock().map(|g| g.get(before).cloned().unwrap_or_default()).unwrap_or_default();
            Err(msg)
        }
    }
}

impl Sess {
    fn now(&self) -> u64 {
        self.clock.load(Ordering::SeqCst)
    }
    fn fresh_digits(&mut self) -> String {
        loop {
            let s = format!("{:06}", self.rng.gen_range(0..1_000_000u32));
            if !self.codes.contains(&s) {
                return s;
            }
        }
    }
    fn fresh_secret(&mut self) -> String {
        const A: &[u8] = b"ABCDEFGHIJKLMNOPQRSTUVWXYZabcdefghijklmnopqrstuvwxyz0123456789-_";
        loop {
            let s: String = (0..43).map(|_| A[self.rng.gen_range(0..A.len())] as char).collect();
            if !self.toks.contains(&s) {
                return s;
            }
        }
    }
    /// (text sent, abstract code it stands for: k if the store will see code k, 0 otherwise)
    fn code_text(&mut self, k: i64, var: &str) -> (String, i64) {
        if k < 1 || k as usize > self.codes.len() {
            let w = self.fresh_digits();
            return (if var == "ws" { format!(" {w} ") } else { w }, 0);
        }
        let s = self.codes[k as usize - 1].clone();
        match var {
            "ws" => (format!(" {s}\t"), k), // claim() trims what it is given
            "prefix" => (s[..s.len() - 1].to_string(), 0),
            "ext" => (format!("{s}0"), 0),
            "empty" => (String::new(), 0),
            _ => (s, k),
        }
    }
    fn token_text(&mut self, k: i64, var: &str) -> (String, i64) {
        if k < 1 || k as usize > self.toks.len() {
            return (self.fresh_secret(), 0);
        }
        let s = self.toks[k as usize - 1].clone();
        let t = match var {
            "prefix" => s[..s.len() - 1].to_string(),
            "ext" => format!("{s}A"),
            "ws" => format!("{s} "),
            "lws" => format!(" {s}"),
            "empty" => String::new(),
            "case" => {
                let mut done = false;
                s.chars()
                    .map(|c| {
                        if !done && c.is_ascii_alphabetic() {
                            done = true;
                            if c.is_ascii_lowercase() { c.to_ascii_uppercase() } else { c.to_ascii_lowercase() }
                        } else {
                            c
                        }
                    })
                    .collect()
            }
            _ => return (s, k),
        };
        if self.toks.contains(&t) {
            return (self.fresh_secret(), 0);
        }
        (t, 0)
    }
    fn id_text(&self, id: i64, var: &str) -> (String, i64) {
        if id < 0 {
            return ("pair-x".into(), -1);
        }
        match var {
            "ws" => (format!("pair-{id} "), -1),
            "prefix" => (format!("pair-{}", id / 10), -1),
            "upper" => (format!("PAIR-{id}"), -1),
            "bare" => (format!("{id}"), -1),
            "all" => ("all".into(), -1), // only the request handler gives "all" a meaning
            _ => (format!("pair-{id}"), id),
        }
    }
    fn reg_code(&mut self, code: &str) -> Result<i64, Collision> {
        if self.codes.iter().any(|c| c == code) {
            return Err(Collision);
        }
        self.codes.push(code.to_string());
        Ok(self.codes.len() as i64)
    }
    fn reg_token(&mut self, tok: &str) -> Result<i64, Collision> {
        if self.toks.iter().any(|t| t == tok || tail4(t) == tail4(tok)) {
            return Err(Collision);
        }
        self.toks.push(tok.to_string());
        Ok(self.toks.len() as i64)
    }
    /// abstract name of the secret an entry carries (0 = none of the secrets seen so far)
    fn tok_index(&self, tok: &str) -> i64 {
        self.toks.iter().position(|t| t == tok).map(|i| i as i64 + 1).unwrap_or(0)
    }
    fn tail_index(&self, tail: &str) -> i64 {
        let t = tail.trim_start_matches('…');
        self.toks.iter().position(|x| tail4(x) == t).map(|i| i as i64 + 1).unwrap_or(0)
    }

    /// The JSON file as the store's own deserializer reads it (absent role = operator, absent
    /// expiry = 0).  `ok` = the file is absent or has the shape of a pairing file.
    fn disk(&self) -> (Vec<J>, bool) {
        let Ok(text) = std::fs::read_to_string(&self.path) else { return (vec![], !self.path.exists()) };
        let Ok(j) = serde_json::from_str::<J>(&text) else { return (vec![], false) };
        let Some(arr) = j["tokens"].as_array() else { return (vec![], false) };
        let mut ok = true;
        let items = arr
            .iter()
            .map(|t| {
                let role = match t.get("role") {
                    None => 1,
                    Some(r) => role_idx(r.as_str().unwrap_or("")),
                };
                if role < 0 || !t["enabled"].is_boolean() || !t["created_at"].is_u64() {
                    ok = false;
                }
                json!({"id": id_num(t["id"].as_str().unwrap_or("")), "k": self.tok_index(t["token"].as_str().unwrap_or("")), "role": role,
                       "en": t["enabled"].as_bool().unwrap_or(false), "exp": t.get("expires_at").and_then(J::as_u64).unwrap_or(0),
                       "cr": t["created_at"].as_u64().unwrap_or(0)})
            })
            .collect();
        (items, ok)
    }
}

fn item(id: &str, k: i64, role: i64, en: bool, exp: u64, cr: u64) -> J {
    json!({"id": id_num(id), "k": k, "role": role, "en": en, "exp": exp, "cr": cr})
}

fn write_seed(path: &Path, seed: &[J], toks: &[String]) {
    let tokens: Vec<J> = seed
        .iter()
        .enumerate()
        .map(|(i, s)| {
            let mut t = json!({"id": format!("pair-{}", s["id"].as_i64().unwrap()), "token": toks[i], "created_at": s["cr"], "enabled": s["en"]});
            // a legacy entry lacks the fields a newer version added
            if s["role"].as_i64().unwrap_or(-1) >= 0 && !s["norole"].as_bool().unwrap_or(false) {
                t["role"] = json!(ROLES[s["role"].as_i64().unwrap() as usize]);
            }
            if s["exp"].as_u64().unwrap_or(0) != 0 {
                t["expires_at"] = s["exp"].clone();
            } else if s["exp0"].as_bool().unwrap_or(false) {
                t["expires_at"] = json!(0);
            }
            t
        })
        .collect();
    std::fs::write(path, serde_json::to_vec_pretty(&json!({"tokens": tokens})).unwrap()).expect("write seed file");
}

struct Runner {
    work: PathBuf,
    fx: Option<Fx>,
    seq: usize,
    /// endpoint instances started by this process
    servers: usize,
}

impl Runner {
    fn endpoint(&mut self) -> &mut Fx {
        if self.fx.is_none() {
            let cfg = Cfg { token: true, debug: true, mode: "debug".into() };
            self.fx = Some(Fx::build_with_pairing(&self.work, &cfg, None));
        }
        self.fx.as_mut().unwrap()
    }

    fn run_script(&mut self, si: usize, sc: &J, attempt: u64) -> Result<Vec<J>, Collision> {
        self.seq += 1;
        let dir = self.work.join(format!("p{}-{}", std::process::id(), self.seq));
        let _ = std::fs::remove_dir_all(&dir);
        std::fs::create_dir_all(&dir).expect("script dir");
        let r = self.run_in(si, sc, attempt, &dir);
        let _ = std::fs::remove_dir_all(&dir);
        r
    }

    fn run_in(&mut self, si: usize, sc: &J, attempt: u64, dir: &Path) -> Result<Vec<J>, Collision> {
        let t0 = sc["t0"].as_u64().unwrap_or(T0);
        let endpoint = sc["fx"] == "endpoint";
        let path = dir.join("pairings.json");
        let clock = Arc::new(AtomicU64::new(t0));
        let mut rng = StdRng::seed_from_u64(0x9a17 ^ (si as u64) << 8 ^ attempt);
        let seed: Vec<J> = sc["seed"].as_array().cloned().unwrap_or_default();
        // secrets of the seeded entries: like real tokens, pairwise different tails
        let mut toks: Vec<String> = Vec::new();
        for i in 0..seed.len() {
            const A: &[u8] = b"ABCDEFGHIJKLMNOPQRSTUVWXYZabcdefghijklmnopqrstuvwxyz0123456789-_";
            let body: String = (0..39).map(|_| A[rng.gen_range(0..A.len())] as char).collect();
            let tail: String = (0..4).map(|d| A[(i / A.len().pow(3 - d as u32)) % A.len()] as char).collect();
            toks.push(format!("{body}{tail}"));
        }
        if !seed.is_empty() || sc["emptyfile"].as_bool().unwrap_or(false) {
            write_seed(&path, &seed, &toks);
        }
        let store = Arc::new(PairingStore::with_clock(path.clone(), clock_fn(&clock)));
        if endpoint {
            self.endpoint().swap_pairing(store.clone());
            self.servers += 1;
        }
        let mut s = Sess { clock, path, store, endpoint, codes: vec![], toks, rng, req_id: 1000 };
        let steps = sc["steps"].as_array().cloned().unwrap_or_default();
        let seed_ev: Vec<J> = seed
            .iter()
            .enumerate()
            .map(|(i, e)| {
                let role = if e["role"].as_i64().unwrap_or(-1) < 0 || e["norole"].as_bool().unwrap_or(false) { 1 } else { e["role"].as_i64().unwrap() };
                json!({"id": e["id"], "k": i + 1, "role": role, "en": e["en"], "exp": e["exp"].as_u64().unwrap_or(0), "cr": e["cr"]})
            })
            .collect();
        let (d0, dok) = s.disk();
        let mut evs = vec![json!({"a": "Reset", "si": si, "fx": sc["fx"], "now": t0, "seed": seed_ev, "disk": d0, "diskok": dok, "n": steps.len(),
                                  "from": sc["from"], "name": sc["name"]})];
        for (i, st) in steps.iter().enumerate() {
            let mut ev = self.step(&mut s, st)?;
            ev["si"] = json!(si);
            ev["i"] = json!(i);
            evs.push(ev);
        }
        Ok(evs)
    }

    /// One request line with the given `auth`; returns (class, reply, panicked / no reply).
    fn ask(&mut self, s: &mut Sess, ty: &str, params: Option<J>, auth: Option<String>) -> (String, J, bool, String) {
        s.req_id += 1;
        let line = template_of(s.req_id, ty, params.as_ref()).replace(
            "@AUTH@",
            &match auth {
                Some(a) => format!(",\"auth\":{}", J::String(a)),
                None => String::new(),
            },
        );
        let p0 = panic_count();
        let fx = self.endpoint();
        let answer = fx.ask(&line);
        let hang = matches!(answer, Answer::Hang(_));
        if matches!(answer, Answer::Closed) {
            std::thread::sleep(std::time::Duration::from_millis(30));
        }
        let raw = answer.line();
        let panicked = panic_count() > p0;
        let reply: Option<J> = raw.as_deref().and_then(|t| serde_json::from_str(t).ok());
        let (cls, _decl, err) = classify(&reply);
        let cls = if hang { "hang".to_string() } else if raw.is_some() && reply.is_none() { "garbled".to_string() } else { cls };
        (cls, reply.unwrap_or(J::Null), panicked || raw.is_none(), err)
    }

    fn step(&mut self, s: &mut Sess, st: &J) -> Result<J, Collision> {
        let op = st["op"].as_str().unwrap_or("");
        let via = if s.endpoint && st["via"] == "req" || op == "Req" { "req" } else { "api" };
        if op == "Req" && !s.endpoint {
            panic!("Req step in a store script");
        }
        // the requester's credential (request steps only)
        let ckind = st["cred"]["kind"].as_str().unwrap_or("admin");
        let (auth, cred_k): (Option<String>, i64) = match ckind {
            "none" => (None, 0),
            "admin" => (Some(ADMIN_TOKEN.to_string()), 0),
            "wrong" => (Some(s.fresh_secret()), 0),
            _ => {
                let (t, k) = s.token_text(st["cred"]["k"].as_i64().unwrap_or(0), st["cred"]["var"].as_str().unwrap_or("exact"));
                (Some(t), k)
            }
        };
        let cred = if via == "req" {
            json!({"kind": if ckind == "wrong" { "pair" } else { ckind }, "k": cred_k, "var": st["cred"]["var"].as_str().unwrap_or("")})
        } else {
            json!({"kind": "admin", "k": 0, "var": ""})
        };
        let mut ev = json!({"a": "Op", "op": op, "via": via, "cred": cred, "c": 0, "cvar": "", "role": -1, "k": 0, "kvar": "", "id": -1, "ivar": "", "dt": 0,
                            "kind": "", "cls": "api", "err": "", "panic": false, "panicMsg": "",
                            "rcode": 0, "rexp": 0, "rtok": 0, "rrole": -1, "rok": false, "rn": -1, "items": []});
        let mut panic_msg: Option<String> = None;
        match op {
            "Start" => {
                ev["kind"] = json!("pair.start");
                let got: Option<(String, u64)> = if via == "api" {
                    match guarded(|| s.store.start_pairing()) {
                        Ok(c) => Some((c.code, c.expires_at)),
                        Err(m) => {
                            panic_msg = Some(m);
                            None
                        }
                    }
                } else {
                    let (cls, reply, bad, err) = self.ask(s, "pair.start", None, auth);
                    ev["cls"] = json!(cls);
                    ev["err"] = json!(err);
                    ev["panic"] = json!(bad);
                    if cls == "ok" {
                        Some((reply["result"]["code"].as_str().unwrap_or("").to_string(), reply["result"]["expires_at"].as_u64().unwrap_or(0)))
                    } else {
                        None
                    }
                };
                if let Some((code, exp)) = got {
                    let well_formed = code.len() == 6 && code.chars().all(|c| c.is_ascii_digit());
                    ev["rcode"] = json!(if well_formed { s.reg_code(&code)? } else { -1 });
                    ev["rexp"] = json!(exp);
                }
            }
            "Claim" => {
                ev["kind"] = json!("pair.claim");
                let (text, c) = s.code_text(st["c"].as_i64().unwrap_or(0), st["cvar"].as_str().unwrap_or("exact"));
                let rr = st["role"].as_i64().unwrap_or(-1);
                ev["c"] = json!(c);
                ev["cvar"] = st["cvar"].clone();
                ev["role"] = json!(if via == "api" && rr > 3 { -1 } else { rr });
                let got: Option<String> = if via == "api" {
                    match guarded(|| s.store.claim(&text, access_role(rr))) {
                        Ok(t) => t,
                        Err(m) => {
                            panic_msg = Some(m);
                            None
                        }
                    }
                } else {
                    let mut params = json!({"code": text});
                    if rr >= 0 {
                        params["role"] = json!(if rr <= 3 { ROLES[rr as usize] } else { "root" });
                    }
                    let (cls, reply, bad, err) = self.ask(s, "pair.claim", Some(params), auth);
                    ev["cls"] = json!(cls);
                    ev["err"] = json!(err);
                    ev["panic"] = json!(bad);
                    if cls == "ok" { reply["result"]["token"].as_str().map(str::to_string) } else { None }
                };
                if let Some(t) = got {
                    ev["rtok"] = json!(s.reg_token(&t)?);
                }
            }
            "Validate" => {
                let (text, k) = s.token_text(st["k"].as_i64().unwrap_or(0), st["kvar"].as_str().unwrap_or("exact"));
                ev["k"] = json!(k);
                ev["kvar"] = st["kvar"].clone();
                match guarded(|| s.store.validate_with_role(&text)) {
                    Ok(r) => ev["rrole"] = json!(r.map(role_of).unwrap_or(-1)),
                    Err(m) => panic_msg = Some(m),
                }
            }
            "List" => {
                ev["kind"] = json!("pair.list");
                if via == "api" {
                    match guarded(|| s.store.list()) {
                        Ok(l) => ev["items"] = json!(l.iter().map(|p| item(&p.id, s.tail_index(&p.tail), role_of(p.role), p.enabled, p.expires_at, p.created_at)).collect::<Vec<J>>()),
                        Err(m) => panic_msg = Some(m),
                    }
                } else {
                    let (cls, reply, bad, err) = self.ask(s, "pair.list", None, auth);
                    ev["cls"] = json!(cls);
                    ev["err"] = json!(err);
                    ev["panic"] = json!(bad);
                    if cls == "ok" {
                        let arr = reply["result"]["tokens"].as_array().cloned().unwrap_or_default();
                        ev["items"] = json!(arr
                            .iter()
                            .map(|t| item(t["id"].as_str().unwrap_or(""), s.tail_index(t["tail"].as_str().unwrap_or("")), role_idx(t["role"].as_str().unwrap_or("")),
                                          t["enabled"].as_bool().unwrap_or(false), t["expires_at"].as_u64().unwrap_or(0), t["created_at"].as_u64().unwrap_or(0)))
                            .collect::<Vec<J>>());
                    }
                }
            }
            "Revoke" => {
                ev["kind"] = json!("pair.revoke");
                let (text, id) = s.id_text(st["id"].as_i64().unwrap_or(-1), st["ivar"].as_str().unwrap_or("exact"));
                // "all" through the request handler is revoke_all: never sent by a Revoke step
                let text = if via == "req" && text == "all" { "pair-x".to_string() } else { text };
                ev["id"] = json!(id);
                ev["ivar"] = st["ivar"].clone();
                if via == "api" {
                    match guarded(|| s.store.revoke(&text)) {
                        Ok(b) => ev["rok"] = json!(b),
                        Err(m) => panic_msg = Some(m),
                    }
                } else {
                    let (cls, _reply, bad, err) = self.ask(s, "pair.revoke", Some(json!({"id": text})), auth);
                    ev["rok"] = json!(cls == "ok");
                    ev["cls"] = json!(cls);
                    ev["err"] = json!(err);
                    ev["panic"] = json!(bad);
                }
            }
            "RevokeAll" => {
                ev["kind"] = json!("pair.revoke");
                if via == "api" {
                    match guarded(|| s.store.revoke_all()) {
                        Ok(n) => ev["rn"] = json!(n),
                        Err(m) => panic_msg = Some(m),
                    }
                } else {
                    let (cls, reply, bad, err) = self.ask(s, "pair.revoke", Some(json!({"id": "all"})), auth);
                    if cls == "ok" {
                        ev["rn"] = json!(reply["result"]["count"].as_i64().unwrap_or(-1));
                    }
                    ev["cls"] = json!(cls);
                    ev["err"] = json!(err);
                    ev["panic"] = json!(bad);
                }
            }
            "Tick" => {
                let dt = st["dt"].as_u64().unwrap_or(0);
                ev["dt"] = json!(dt);
                s.clock.fetch_add(dt, Ordering::SeqCst);
            }
            "Reload" => {
                // a new process: the old store is gone, a new one reads the file
                let store = Arc::new(PairingStore::with_clock(s.path.clone(), clock_fn(&s.clock)));
                s.store = store.clone();
                if s.endpoint {
                    self.endpoint().swap_pairing(store);
                    self.servers += 1;
                }
            }
            "Req" => {
                let kind = st["kind"].as_str().unwrap_or("status");
                if kind.starts_with("pair.") {
                    panic!("a Req step cannot carry {kind}: use the pairing step with via = req");
                }
                ev["kind"] = json!(kind);
                let params = match kind {
                    "restart" => Some(json!({"mode": "warm"})),
                    "io.unforce" => Some(json!({"address": "%IX0.2"})),
                    _ => None,
                };
                let (cls, _reply, bad, err) = self.ask(s, kind, params, auth);
                ev["cls"] = json!(cls);
                ev["err"] = json!(err);
                ev["panic"] = json!(bad);
            }
            other => panic!("unknown step {other}"),
        }
        if let Some(m) = panic_msg {
            ev["panic"] = json!(true);
            ev["panicMsg"] = json!(m);
        }
        // observation: the file first (reading it perturbs nothing), then -- if asked -- the store's own
        // read operations (which prune and save, and are modelled as such), then the file again
        ev["now"] = json!(s.now());
        let (d1, ok1) = s.disk();
        ev["disk"] = json!(d1);
        ev["diskok"] = json!(ok1);
        let probe = st["probe"].as_bool().unwrap_or(true);
        ev["probe"] = json!(probe);
        ev["list"] = json!([]);
        ev["vals"] = json!([]);
        ev["near"] = json!(0);
        ev["disk2"] = json!([]);
        if probe {
            let toks = s.toks.clone();
            let store = s.store.clone();
            let r = guarded(|| {
                let l = store.list();
                let vals: Vec<i64> = toks.iter().map(|t| store.validate_with_role(t).map(role_of).unwrap_or(-1)).collect();
                let mut near = 0;
                for t in &toks {
                    for v in [format!("{t}A"), t[..t.len() - 1].to_string(), format!("{t} "), t.to_ascii_lowercase(), String::new()] {
                        if v != *t && !toks.contains(&v) && store.validate_with_role(&v).is_some() {
                            near += 1;
                        }
                    }
                }
                (l, vals, near)
            });
            match r {
                Ok((l, vals, near)) => {
                    ev["list"] = json!(l.iter().map(|p| item(&p.id, s.tail_index(&p.tail), role_of(p.role), p.enabled, p.expires_at, p.created_at)).collect::<Vec<J>>());
                    ev["vals"] = json!(vals);
                    ev["near"] = json!(near);
                }
                Err(m) => {
                    ev["panic"] = json!(true);
                    ev["panicMsg"] = json!(m);
                }
            }
            let (d2, ok2) = s.disk();
            ev["disk2"] = json!(d2);
            ev["diskok"] = json!(ok1 && ok2);
        }
        Ok(ev)
    }
}

/// Exit code of a child that stopped between two scripts because it has used up its budget of
/// endpoint instances (every replaced `ControlServer` leaves a listener thread and its socket behind).
const EXIT_RESTART: i32 = 75;
const SERVER_BUDGET: usize = 400;

pub fn run(args: &[String]) -> i32 {
    if args.iter().any(|a| a == "--child") {
        return child(args);
    }
    let scripts_path = arg(args, "--scripts").expect("--scripts");
    let out_path = arg(args, "--out").expect("--out");
    let work = arg(args, "--work").map(PathBuf::from).unwrap_or_else(|| PathBuf::from(format!("{out_path}.work")));
    std::fs::create_dir_all(&work).expect("work dir");
    let n = read_ndjson(scripts_path).len();
    let _ = std::fs::remove_file(out_path);
    let progress = format!("{out_path}.progress");
    let _ = std::fs::remove_file(&progress);
    // spawned through /proc/self/exe: a concurrent rebuild of the harness cannot swap the binary under a run
    let exe = if Path::new("/proc/self/exe").exists() { PathBuf::from("/proc/self/exe") } else { std::env::current_exe().expect("current exe") };
    let mut spawns = 0usize;
    loop {
        spawns += 1;
        let from: usize = std::fs::read_to_string(&progress).ok().and_then(|t| t.trim().parse().ok()).unwrap_or(0);
        if from >= n {
            break;
        }
        if spawns > n + 5 {
            eprintln!("pairing-run: too many child restarts");
            return 2;
        }
        let status = std::process::Command::new(&exe)
            .args(["pairing-run", "--child", "--scripts", scripts_path, "--out", out_path, "--progress", &progress, "--from", &from.to_string(), "--work"])
            .arg(&work)
            .status()
            .expect("spawn child");
        match status.code() {
            Some(0) => break,
            Some(EXIT_RESTART) => continue,
            _ => {
                // a death of the process inside the code under test would be data, but the store has no
                // path that can take a process down; anything else is a failure of the harness
                eprintln!("pairing-run: child ended with {status}");
                return 2;
            }
        }
    }
    let _ = std::fs::remove_file(&progress);
    let _ = std::fs::remove_dir_all(&work);
    eprintln!("pairing-run: {n} scripts in {spawns} process(es)");
    0
}

fn child(args: &[String]) -> i32 {
    install_panic_hook();
    let scripts_path = arg(args, "--scripts").expect("--scripts");
    let out_path = arg(args, "--out").expect("--out");
    let progress = arg(args, "--progress").expect("--progress");
    let from = arg_u64(args, "--from", 0) as usize;
    let work = PathBuf::from(arg(args, "--work").expect("--work"));
    let scripts = read_ndjson(scripts_path);
    let mut rn = Runner { work: work.clone(), fx: None, seq: 0, servers: 0 };
    let file = std::fs::OpenOptions::new().create(true).append(true).open(out_path).expect("trace file");
    let mut o = Out(std::io::BufWriter::new(file));
    let mut retries = 0usize;
    for (si, sc) in scripts.iter().enumerate().skip(from) {
        if rn.servers >= SERVER_BUDGET {
            return EXIT_RESTART;
        }
        let mut attempt = 0u64;
        let evs = loop {
            match rn.run_script(si, sc, attempt) {
                Ok(e) => break e,
                Err(Collision) => {
                    attempt += 1;
                    retries += 1;
                    if attempt > 20 {
                        eprintln!("pairing-run: script {si}: secrets keep colliding");
                        return 2;
                    }
                }
            }
        };
        for e in &evs {
            o.line(e);
        }
        o.flush();
        std::fs::write(progress, format!("{}", si + 1)).expect("progress file");
    }
    if retries > 0 {
        eprintln!("pairing-run: {retries} run(s) repeated for colliding secrets");
    }
    0
}

// ------------------------------------------------------------------ generation
fn st(op: &str) -> J {
    json!({"op": op, "via": "api", "probe": true})
}
fn tick(dt: u64) -> J {
    let mut s = st("Tick");
    s["dt"] = json!(dt);
    s
}
fn claim(c: i64, role: i64) -> J {
    let mut s = st("Claim");
    s["c"] = json!(c);
    s["cvar"] = json!("exact");
    s["role"] = json!(role);
    s
}
fn validate(k: i64) -> J {
    let mut s = st("Validate");
    s["k"] = json!(k);
    s["kvar"] = json!("exact");
    s
}
fn revoke(id: i64) -> J {
    let mut s = st("Revoke");
    s["id"] = json!(id);
    s["ivar"] = json!("exact");
    s
}
fn req(kind: &str, k: i64) -> J {
    json!({"op": "Req", "via": "req", "kind": kind, "cred": {"kind": "pair", "k": k, "var": "exact"}, "probe": true})
}
/// a pairing operation sent as a request line that carries secret k as `auth`
fn by(mut step: J, k: i64) -> J {
    step["via"] = json!("req");
    step["cred"] = json!({"kind": "pair", "k": k, "var": "exact"});
    step
}
fn seed_tok(id: u64, role: i64, en: bool, exp: u64, cr: u64) -> J {
    json!({"id": id, "role": role, "en": en, "exp": exp, "cr": cr})
}

/// The hand-written scenarios, each as (name, seed, steps written for the direct API).
fn scenarios() -> Vec<(String, Vec<J>, Vec<J>)> {
    let mut v: Vec<(String, Vec<J>, Vec<J>)> = Vec::new();
    // life time of a code: claimed TTL-1 / TTL / TTL+1 seconds after it was handed out; the code is
    // consumed by the attempt either way
    for (o, name) in [(CODE_TTL - 1, "code-ttl-1"), (CODE_TTL, "code-ttl"), (CODE_TTL + 1, "code-ttl+1"), (0, "code-at-once"), (1, "code-1s")] {
        v.push((name.into(), vec![], vec![st("Start"), tick(o), claim(1, -1), claim(1, -1), validate(1), st("Start"), claim(2, 0), validate(2)]));
    }
    // life time of a token, seen through validate, through a restart, and through the endpoint
    for (o, name) in [(TOKEN_TTL - 1, "token-ttl-1"), (TOKEN_TTL, "token-ttl"), (TOKEN_TTL + 1, "token-ttl+1")] {
        for role in [0, 1, 2, 3, -1] {
            v.push((format!("{name}:r{role}"), vec![], vec![
                st("Start"), claim(1, role), validate(1), req("status", 1), req("restart", 1), req("io.unforce", 1), by(st("List"), 1), tick(o),
                req("status", 1), req("restart", 1), validate(1), st("Reload"), validate(1), req("status", 1), tick(1), validate(1), req("status", 1), st("Reload"), validate(1), st("List"),
            ]));
        }
    }
    // single use, wrong code keeps the pending code, a newer code replaces the older one
    v.push(("single-use".into(), vec![], vec![st("Start"), claim(1, 1), claim(1, 1), claim(1, 2), st("List")]));
    v.push(("wrong-keeps-pending".into(), vec![], vec![st("Start"), claim(0, 1), claim(0, 3), claim(1, 1), claim(0, 1), st("List")]));
    v.push(("stale-code".into(), vec![], vec![st("Start"), st("Start"), claim(1, 1), claim(2, 1), claim(2, 1), st("Start"), claim(2, 1), claim(1, 1), claim(3, 0), st("List")]));
    v.push(("claim-before-start".into(), vec![], vec![claim(0, 1), claim(1, 1), st("List"), st("Start"), st("Reload"), claim(1, 1), st("List")]));
    for var in ["ws", "prefix", "ext", "empty"] {
        let mut c = claim(1, 1);
        c["cvar"] = json!(var);
        v.push((format!("code-variant-{var}"), vec![], vec![st("Start"), c, claim(1, 2), st("List")]));
    }
    // ids are pair-<second>: two claims within one second share an id, one revoke takes both
    v.push(("shared-id".into(), vec![], vec![
        st("Start"), claim(1, 0), st("Start"), claim(2, 2), tick(1), st("Start"), claim(3, 1), st("List"), revoke(T0 as i64), validate(1), validate(2), validate(3),
        st("Reload"), validate(1), validate(2), validate(3), revoke(T0 as i64), revoke(T0 as i64 + 1), revoke(T0 as i64 + 2), st("Reload"), st("List"),
    ]));
    for var in ["ws", "prefix", "upper", "bare", "all"] {
        let mut r = revoke(T0 as i64);
        r["ivar"] = json!(var);
        v.push((format!("revoke-variant-{var}"), vec![], vec![st("Start"), claim(1, 1), r, validate(1), revoke(-1), validate(1), revoke(T0 as i64), validate(1)]));
    }
    // revocation survives a restart; a revoked token does not come back, also not by a second claim
    v.push(("revoke-persisted".into(), vec![], vec![st("Start"), claim(1, 2), revoke(T0 as i64), st("Reload"), validate(1), req("status", 1), st("Start"), claim(2, 2), validate(1), validate(2), st("Reload"), validate(1), validate(2)]));
    v.push(("revoke-all".into(), vec![], vec![st("Start"), claim(1, 2), tick(5), st("Start"), claim(2, 0), st("RevokeAll"), validate(1), validate(2), st("RevokeAll"), st("Reload"), validate(1), validate(2), st("List")]));
    // the role a claim may ask for
    for role in [-1, 0, 1, 2, 3, 4] {
        v.push((format!("requested-role-{role}"), vec![], vec![st("Start"), claim(1, role), st("List"), req("status", 1), req("restart", 1), req("io.unforce", 1), by(st("List"), 1), by(revoke(T0 as i64), 1), by(st("RevokeAll"), 1),
                                                                by(st("Start"), 1), by(claim(2, 3), 1), st("List"), req("status", 2), req("io.unforce", 2), by(st("Start"), 2), by(claim(3, 0), 2), st("List")]));
    }
    // paths that prune without saving, followed by a restart
    v.push(("prune-no-save:claim".into(), vec![], vec![st("Start"), claim(1, 1), tick(TOKEN_TTL + 1), claim(0, 1), st("Reload"), validate(1), st("List")]));
    v.push(("prune-no-save:revoke".into(), vec![], vec![st("Start"), claim(1, 1), tick(1), st("Start"), claim(2, 1), tick(TOKEN_TTL), revoke(-1), st("Reload"), validate(1), validate(2), st("List")]));
    v.push(("prune-no-save:revoke-all".into(), vec![], vec![st("Start"), claim(1, 1), revoke(T0 as i64), tick(TOKEN_TTL + 1), st("RevokeAll"), st("Reload"), st("List")]));
    v.push(("prune-save:start".into(), vec![], vec![st("Start"), claim(1, 1), tick(TOKEN_TTL + 1), st("Start"), st("Reload"), st("List")]));
    v.push(("expired-pending-consumed".into(), vec![], vec![st("Start"), tick(CODE_TTL + 1), claim(0, 1), claim(1, 1), st("Start"), tick(CODE_TTL + 1), claim(2, 1), claim(2, 1), st("List")]));
    // a file from before: every role (a stored admin is honoured), a disabled entry, an entry that expired
    // while the runtime was down, entries without expiry (legacy) that are overdue / not yet due, an
    // entry without role
    let old = T0 - 1000;
    v.push(("seed-roles".into(),
        vec![seed_tok(old, 0, true, T0 + 50, old), seed_tok(old + 1, 1, true, T0 + 50, old + 1), seed_tok(old + 2, 2, true, T0 + 50, old + 2), seed_tok(old + 3, 3, true, T0 + 50, old + 3),
             seed_tok(old + 4, 2, false, T0 + 50, old + 4), seed_tok(old + 5, 2, true, T0 - 1, old + 5), seed_tok(old + 6, 2, true, T0, old + 6)],
        vec![validate(1), validate(2), validate(3), validate(4), validate(5), validate(6), validate(7), by(st("Start"), 3), by(st("Start"), 4), by(claim(1, 3), 1), by(claim(1, 3), 2), by(st("List"), 4), by(st("List"), 3), by(revoke(old as i64), 4), req("status", 1), req("status", 5), req("status", 6), req("status", 7),
             tick(1), validate(7), tick(49), validate(1), req("status", 1), tick(1), validate(1), req("status", 1), st("Reload"), st("List")]));
    v.push(("seed-disabled-reload".into(), vec![seed_tok(old, 2, false, T0 + 500, old), seed_tok(old, 2, true, T0 + 500, old)],
        vec![validate(1), validate(2), st("Reload"), validate(1), validate(2), st("Start"), claim(1, 1), st("Reload"), validate(1), validate(2), validate(3), revoke(old as i64), st("Reload"), validate(1), validate(2), validate(3)]));
    let mut no_role = seed_tok(old, 1, true, T0 + 500, old);
    no_role["norole"] = json!(true);
    let mut exp0 = seed_tok(old + 1, 0, true, 0, old + 1);
    exp0["exp0"] = json!(true);
    v.push(("seed-legacy".into(),
        vec![seed_tok(T0 - TOKEN_TTL - 5, 2, true, 0, T0 - TOKEN_TTL - 5), seed_tok(T0 - TOKEN_TTL, 2, true, 0, T0 - TOKEN_TTL), seed_tok(T0 - TOKEN_TTL + 1, 2, true, 0, T0 - TOKEN_TTL + 1),
             seed_tok(T0 - 10, 2, false, 0, T0 - 10), no_role, exp0],
        vec![validate(1), validate(2), validate(3), validate(4), validate(5), validate(6), st("List"), tick(1), validate(1), validate(2), validate(3), tick(1), validate(1), validate(2), validate(3), st("Reload"), st("List"),
             tick(TOKEN_TTL - 12), validate(4), validate(6), st("Reload"), st("List")]));
    // the legacy grace second is granted again by every restart as long as nothing was saved in between
    let mut quiet = vec![tick(2), st("Reload"), tick(2), st("Reload"), validate(1), tick(2), validate(1), st("Reload"), validate(1)];
    for s in quiet.iter_mut().take(4) {
        s["probe"] = json!(false);
    }
    v.push(("seed-legacy-rearmed".into(), vec![seed_tok(T0 - TOKEN_TTL - 5, 2, true, 0, T0 - TOKEN_TTL - 5)], quiet));
    // the cap counts ENABLED entries; the attempt that hits it consumes the code
    let many = |n: usize, disabled: usize| -> Vec<J> {
        (0..n + disabled).map(|i| seed_tok(old + i as u64, (i % 3) as i64, i < n, T0 + 100 + (i as u64 % 7), old + i as u64)).collect()
    };
    let light = |mut steps: Vec<J>| -> Vec<J> {
        let n = steps.len();
        for (i, s) in steps.iter_mut().enumerate() {
            s["probe"] = json!(i + 1 == n || i == 2);
        }
        steps
    };
    v.push(("cap-254".into(), many(MAX_TOKENS - 2, 3), light(vec![st("Start"), claim(1, 1), st("Start"), claim(2, 1), st("Start"), claim(3, 1), claim(3, 1), revoke(old as i64), st("Start"), claim(4, 1), st("Start"), claim(5, 1), st("Reload"), st("List")])));
    v.push(("cap-256".into(), many(MAX_TOKENS, 2), light(vec![st("Start"), claim(1, 1), claim(1, 1), revoke(old as i64), claim(1, 1), st("Start"), claim(2, 1), st("Start"), claim(3, 1), tick(100), st("Start"), claim(4, 1), tick(1), st("Start"), claim(5, 1), st("List")])));
    v.push(("cap-257".into(), many(MAX_TOKENS + 1, 0), light(vec![st("Start"), claim(1, 1), revoke(old as i64), st("Start"), claim(2, 1), revoke(old as i64 + 1), st("Start"), claim(3, 1), st("Start"), claim(4, 1), st("RevokeAll"), st("Start"), claim(5, 1), st("List")])));
    v
}

/// The same scenario with its pairing operations sent as request lines by the given credential.
fn via_req(steps: &[J], cred: &J) -> Vec<J> {
    steps
        .iter()
        .map(|s| {
            let mut s = s.clone();
            if matches!(s["op"].as_str().unwrap(), "Start" | "Claim" | "List" | "Revoke" | "RevokeAll") && s["via"] != "req" {
                s["via"] = json!("req");
                s["cred"] = cred.clone();
            }
            s
        })
        .collect()
}
fn probes(steps: &[J], mode: &str) -> Vec<J> {
    let n = steps.len();
    steps
        .iter()
        .enumerate()
        .map(|(i, s)| {
            let mut s = s.clone();
            match mode {
                "end" => s["probe"] = json!(i + 1 == n),
                "none" => s["probe"] = json!(false),
                _ => {}
            }
            s
        })
        .collect()
}
fn has_req(steps: &[J]) -> bool {
    steps.iter().any(|s| s["op"] == "Req" || s["via"] == "req")
}
fn store_only(steps: &[J]) -> Vec<J> {
    steps
        .iter()
        .map(|s| {
            if s["op"] == "Req" {
                let mut v = validate(s["cred"]["k"].as_i64().unwrap_or(0));
                v["kvar"] = s["cred"]["var"].clone();
                v["probe"] = s["probe"].clone();
                v
            } else {
                let mut s = s.clone();
                s["via"] = json!("api");
                s
            }
        })
        .collect()
}

struct Gen {
    rng: StdRng,
    now: u64,
    starts: i64,
    claims: i64,
    seeds: i64,
    instants: Vec<u64>,
    ids: Vec<i64>,
    pending: bool,
}
impl Gen {
    fn pick<'a>(&mut self, xs: &[&'a str]) -> &'a str {
        xs[self.rng.gen_range(0..xs.len())]
    }
    fn secret(&mut self) -> (i64, &'static str) {
        let n = self.seeds + self.claims;
        let k = if n == 0 || self.rng.gen_bool(0.06) { 0 } else { self.rng.gen_range(1..=n) };
        let var = if self.rng.gen_bool(0.88) { "exact" } else { self.pick(&["prefix", "ext", "case", "ws", "lws", "empty"]) };
        (k, var)
    }
    fn cred(&mut self) -> J {
        // before any token can exist a pairing credential is just a wrong string: mostly admin then
        let roll = if self.seeds + self.claims == 0 && self.rng.gen_bool(0.8) { 0 } else { self.rng.gen_range(0..100) };
        match roll {
            0..=44 => json!({"kind": "admin"}),
            45..=49 => json!({"kind": "none"}),
            50..=54 => json!({"kind": "wrong"}),
            _ => {
                let (k, var) = self.secret();
                json!({"kind": "pair", "k": k, "var": var})
            }
        }
    }
    fn step(&mut self, endpoint: bool) -> J {
        let via = if endpoint && self.rng.gen_bool(0.5) { "req" } else { "api" };
        let mut choice = self.rng.gen_range(0..100);
        if (14..=33).contains(&choice) && !self.pending && self.rng.gen_bool(0.75) {
            choice = 0; // a claim needs a code to be interesting
        }
        let mut s = match choice {
            0..=13 => {
                self.starts += 1;
                self.instants.push(self.now + CODE_TTL);
                self.pending = true;
                st("Start")
            }
            14..=33 => {
                // mostly the newest code; sometimes an older one, a wrong one, a near miss
                let c = match self.rng.gen_range(0..10) {
                    0 => 0,
                    1 if self.starts > 1 => self.rng.gen_range(1..=self.starts),
                    _ => self.starts,
                };
                let mut s = claim(c, [-1, 0, 1, 2, 3, 3, 4][self.rng.gen_range(0..if via == "req" { 7 } else { 6 })]);
                if self.rng.gen_bool(0.12) {
                    s["cvar"] = json!(self.pick(&["ws", "prefix", "ext", "empty"]));
                }
                // count the claims that probably yield a token (the runner names a secret that does not
                // exist "unknown", so a wrong guess costs nothing)
                if c == self.starts && c > 0 && (s["cvar"] == "exact" || s["cvar"] == "ws") && s["role"] != 4 {
                    if self.pending || self.rng.gen_bool(0.3) {
                        self.claims += 1;
                        self.instants.push(self.now + TOKEN_TTL);
                        self.ids.push(self.now as i64);
                    }
                    self.pending = false;
                }
                s
            }
            34..=45 => {
                let (k, var) = self.secret();
                let mut s = validate(k);
                s["kvar"] = json!(var);
                s
            }
            46..=51 => st("List"),
            52..=60 => {
                let id = if self.ids.is_empty() || self.rng.gen_bool(0.15) { -1 } else { self.ids[self.rng.gen_range(0..self.ids.len())] };
                let mut s = revoke(id);
                if self.rng.gen_bool(0.12) {
                    s["ivar"] = json!(self.pick(&["ws", "prefix", "upper", "bare", "all"]));
                }
                s
            }
            61..=63 => st("RevokeAll"),
            64..=81 => {
                // aim at an expiry instant (the second before, the second itself, the second after) or move a little
                let future: Vec<u64> = self.instants.iter().copied().filter(|t| *t + 1 >= self.now).collect();
                let dt = if !future.is_empty() && self.rng.gen_bool(0.7) {
                    let t = future[self.rng.gen_range(0..future.len())];
                    let target = t + self.rng.gen_range(0..3) - 1;
                    target.saturating_sub(self.now)
                } else {
                    [0, 1, 1, 2, 7, CODE_TTL - 1, CODE_TTL, CODE_TTL + 1][self.rng.gen_range(0..8)]
                };
                self.now += dt;
                tick(dt)
            }
            82..=89 => {
                self.pending = false;
                st("Reload")
            }
            _ if endpoint => {
                let kind = self.pick(&["status", "status", "restart", "restart", "io.unforce"]);
                let mut s = req(kind, 0);
                s["cred"] = self.cred();
                s
            }
            _ => {
                let (k, var) = self.secret();
                let mut s = validate(k);
                s["kvar"] = json!(var);
                s
            }
        };
        if s["op"] != "Req" && s["op"] != "Validate" && s["op"] != "Tick" && s["op"] != "Reload" {
            s["via"] = json!(via);
            if via == "req" {
                s["cred"] = self.cred();
            }
        }
        s
    }
}

pub fn gen(args: &[String]) -> i32 {
    let seed = arg_u64(args, "--seed", 1);
    let runs = arg_u64(args, "--runs", 0) as usize;
    let endpoint_share = arg_u64(args, "--endpoint-percent", 25);
    let out = arg(args, "--out").expect("--out");
    let mut o = Out::create(out);
    let mut count = 0usize;
    let admin = json!({"kind": "admin"});
    for (name, seedv, steps) in scenarios() {
        let big = seedv.len() > 50;
        // as written (direct API + Req steps through the endpoint), the same through request lines, and on the bare store
        let mut variants: Vec<(&str, &str, Vec<J>)> = vec![("endpoint", "api", steps.clone()), ("endpoint", "req", via_req(&steps, &admin)), ("store", "store", store_only(&steps))];
        if big {
            variants.truncate(2);
        }
        for (fx, how, stp) in variants {
            for pm in if big { vec!["asis"] } else { vec!["all", "end"] } {
                let stp = probes(&stp, pm);
                if fx == "store" && has_req(&stp) {
                    continue;
                }
                o.line(&json!({"fx": fx, "t0": T0, "seed": seedv, "steps": stp, "from": "hand", "name": format!("{name}/{how}/{pm}")}));
                count += 1;
            }
        }
    }
    let mut rng = StdRng::seed_from_u64(seed ^ 0x9a1_21f9);
    for n in 0..runs {
        let endpoint = rng.gen_range(0..100) < endpoint_share;
        let mut g = Gen { rng: StdRng::seed_from_u64(rng.gen()), now: T0, starts: 0, claims: 0, seeds: 0, instants: vec![], ids: vec![], pending: false };
        // a file from before in a third of the runs
        let mut seedv = Vec::new();
        if g.rng.gen_bool(0.33) {
            for _ in 0..g.rng.gen_range(1..4) {
                let cr = T0 - [0, 1, 500, TOKEN_TTL - 1, TOKEN_TTL, TOKEN_TTL + 1][g.rng.gen_range(0..6)];
                let legacy = g.rng.gen_bool(0.3);
                let exp = if legacy { 0 } else { [T0 - 1, T0, T0 + 1, T0 + CODE_TTL, cr + TOKEN_TTL][g.rng.gen_range(0..5)] };
                let mut t = seed_tok(cr, g.rng.gen_range(0..4), g.rng.gen_bool(0.8), exp, cr);
                if g.rng.gen_bool(0.15) {
                    t["norole"] = json!(true);
                }
                if exp != 0 {
                    g.instants.push(exp);
                } else {
                    g.instants.push(cr + TOKEN_TTL);
                    g.instants.push(T0 + 1);
                }
                g.ids.push(cr as i64);
                seedv.push(t);
            }
            g.seeds = seedv.len() as i64;
        }
        // now and then a file that is at the cap on enabled entries (one below .. one above), with some
        // disabled entries that must not count
        let at_cap = seedv.is_empty() && g.rng.gen_range(0..1000) < 15;
        if at_cap {
            let enabled = MAX_TOKENS + g.rng.gen_range(0..5) - 3;
            let disabled = g.rng.gen_range(0..4);
            for i in 0..enabled + disabled {
                let cr = T0 - 5000 + i as u64;
                seedv.push(seed_tok(cr, (i % 4) as i64, i < enabled, T0 + 4000 + (i as u64 % 5), cr));
                if i % 40 == 0 {
                    g.ids.push(cr as i64);
                }
            }
            g.instants.push(T0 + 4000);
            g.seeds = seedv.len() as i64;
        }
        let len = g.rng.gen_range(6..22);
        let pprob = if at_cap { 0.0 } else { [1.0, 0.35, 0.0][g.rng.gen_range(0..3)] };
        let mut steps = Vec::new();
        for i in 0..len {
            let mut s = g.step(endpoint);
            s["probe"] = json!(i + 1 == len || g.rng.gen_bool(pprob));
            steps.push(s);
        }
        o.line(&json!({"fx": if endpoint { "endpoint" } else { "store" }, "t0": T0, "seed": seedv, "steps": steps, "from": "random", "name": format!("r{n}")}));
        count += 1;
    }
    o.flush();
    println!("{}", json!({"scripts": count}));
    0
}
