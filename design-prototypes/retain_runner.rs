use trust_runtime::retain::{FileRetainStore, RetainStore};
use trust_runtime::RetainSnapshot;
use trust_runtime::value::Value;
fn snap(tag: i16) -> RetainSnapshot { let mut s = RetainSnapshot::default(); s.insert("a", Value::Int(tag)); s.insert("name", Value::String(format!("value-{tag}-{}", "x".repeat(40)).into())); s }
fn main() {
    let mode = std::env::args().nth(1).unwrap(); let path = std::env::args().nth(2).unwrap();
    let store = FileRetainStore::new(&path);
    match mode.as_str() {
        "store" => { let tag: i16 = std::env::args().nth(3).unwrap().parse().unwrap(); store.store(&snap(tag)).unwrap(); }
        _ => match store.load() { Ok(s) => { if s == snap(1) { println!("old") } else if s == snap(2) { println!("new") } else if s.values().is_empty() { println!("empty") } else { println!("other") } } Err(e) => println!("err:{e}") },
    }
}
