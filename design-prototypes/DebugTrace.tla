---- MODULE DebugTrace ----
EXTENDS DebugControl, Json, IOUtils
Rec == ndJsonDeserialize(IOEnv.TRACE)
VARIABLES l, run, prog
tvars == <<l, run, prog, vars>>
E == Rec[l + 1]
More == l < Len(Rec)
ToOpt(x) == IF x = -1 THEN None ELSE x
\* the trace module instantiates the design with the program as a variable: Prog is a CONSTANT in the
\* draft, so every run of this prototype uses the same statement list (passed through MCDebugTrace).
TInit == l = 1 /\ run = 1 /\ prog = 0 /\ Rec[1].a = "Reset" /\ Init
TReset == More /\ E.a = "Reset" /\ l' = l + 1 /\ run' = run + 1 /\ prog' = prog
          /\ mode' = "Running" /\ pending' = NoReason /\ step' = NoStep /\ target' = None
          /\ cur' = 1 /\ lastDepth' = 0 /\ lastDepths' = [t \in Threads |-> -1] /\ bps' = {}
          /\ pc' = "run" /\ ip' = 1 /\ cycle' = 1 /\ stops' = <<>> /\ executed' = <<>> /\ ncmd' = 0 /\ stepOrigin' = -1
Unbounded == ncmd' = 0   \* the trace does not bound commands
TAdapter ==
  /\ More /\ E.a = "Adapter" /\ l' = l + 1 /\ UNCHANGED <<run, prog>>
  /\ mode = E.modeBefore
  /\ \/ E.kind = "Pause" /\ Pause(ToOpt(E.th))
     \/ E.kind = "Continue" /\ Continue
     \/ E.kind \in {"StepIn", "StepOver", "StepOut"} /\ StepCmd(CASE E.kind = "StepIn" -> "Into" [] E.kind = "StepOver" -> "Over" [] OTHER -> "Out", ToOpt(E.th))
  /\ mode' = E.modeAfter
TSetBps == /\ More /\ E.a = "SetBps" /\ l' = l + 1 /\ UNCHANGED <<run, prog>>
           /\ \E S \in SUBSET BpLocs : Cardinality(S) = E.n /\ SetBps(S)
PreState == /\ mode = E.mode /\ target = ToOpt(E.target) /\ pending = E.pending
            /\ (IF step.kind = "none" THEN 0 ELSE 1) = E.steps /\ Cardinality(bps) = E.bps
NewStops == SubSeq(stops', Len(stops) + 1, Len(stops'))
TSetCur == More /\ E.a = "HookEnter" /\ pc = "run" /\ cur # E.cur /\ Stmt.th = E.cur /\ SetCur /\ UNCHANGED <<l, run, prog>>
THookEnter ==
  /\ More /\ E.a = "HookEnter" /\ l' = l + 1 /\ UNCHANGED <<run, prog>>
  /\ cur = E.cur /\ Stmt.loc = E.loc /\ Stmt.depth = E.depth /\ PreState
  /\ HookEnter
  /\ [i \in DOMAIN NewStops |-> NewStops[i].reason] = E.stops
  /\ (pc' = "wait") = (E.end = "wait")
THookWake ==
  /\ More /\ E.a = "HookWake" /\ l' = l + 1 /\ UNCHANGED <<run, prog>>
  /\ mode = E.mode /\ target = ToOpt(E.target)
  /\ HookWake
  /\ [i \in DOMAIN NewStops |-> NewStops[i].reason] = E.stops
  /\ (pc' = "wait") = (E.end = "wait")
TNext == TReset \/ TAdapter \/ TSetBps \/ TSetCur \/ THookEnter \/ THookWake
TSpec == TInit /\ [][TNext]_tvars
Accepted == IF \E i \in 0..0 : TLCGet("stats").diameter >= Len(Rec) THEN TRUE
            ELSE Print(<<"REJECT: longest matched prefix", TLCGet("stats").diameter>>, FALSE)
====
