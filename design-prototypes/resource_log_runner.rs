use serde_json::json;
use std::io::Write;
use trust_runtime::harness::TestHarness;
use trust_runtime::scheduler::{ManualClock, ResourceRunner, SharedGlobals, ResourceCommand};
use trust_runtime::value::{Duration, Value};
fn main() {
    let src = r#"
CONFIGURATION C
VAR_GLOBAL
    a : DINT := DINT#0; b : DINT := DINT#0; n : DINT := DINT#0;
    la : ARRAY[0..399] OF DINT; lb : ARRAY[0..399] OF DINT;
END_VAR
PROGRAM I1 : Main;
END_CONFIGURATION
PROGRAM Main
VAR_EXTERNAL a : DINT; b : DINT; n : DINT; la : ARRAY[0..399] OF DINT; lb : ARRAY[0..399] OF DINT; END_VAR
a := a + DINT#1; b := b + DINT#1;
IF n < DINT#399 THEN n := n + DINT#1; la[n] := a; lb[n] := b; END_IF;
END_PROGRAM
"#;
    let rt0 = TestHarness::from_source(src).unwrap().into_runtime();
    let shared = SharedGlobals::from_runtime(vec!["a".into(), "b".into()], &rt0).unwrap();
    let clock = ManualClock::new();
    let mut handles = Vec::new();
    for i in 0..3 { let rt = TestHarness::from_source(src).unwrap().into_runtime(); handles.push(ResourceRunner::new(rt, clock.clone(), Duration::from_millis(0)).spawn_with_shared(format!("r{i}"), shared.clone()).unwrap()); }
    // stop everything once all three logs are nearly full: poll n via Snapshot
    let ctl: Vec<_> = handles.iter().map(|h| h.control()).collect();
    std::thread::sleep(std::time::Duration::from_millis(15));
    for c in &ctl { c.pause().unwrap(); }
    std::thread::sleep(std::time::Duration::from_millis(30));
    let mut out = std::io::BufWriter::new(std::fs::File::create("/tmp/proto/reslog.ndjson").unwrap());
    let mut events = Vec::new(); let mut capped = false;
    for (i, c) in ctl.iter().enumerate() {
        let (tx, rx) = std::sync::mpsc::channel(); c.send_command(ResourceCommand::Snapshot { respond_to: tx }).unwrap();
        let snap = rx.recv_timeout(std::time::Duration::from_secs(2)).unwrap();
        let n = match snap.storage.get_global("n") { Some(Value::DInt(v)) => *v as usize, o => panic!("{o:?}") };
        if n >= 399 { capped = true; }
        let (la, lb) = match (snap.storage.get_global("la"), snap.storage.get_global("lb")) { (Some(Value::Array(x)), Some(Value::Array(y))) => (x.clone(), y.clone()), _ => panic!() };
        for k in 1..=n { if let (Value::DInt(a), Value::DInt(b)) = (&la.elements[k], &lb.elements[k]) { events.push(json!({"r": format!("r{i}"), "a": a, "b": b, "base": 0})); } }
    }
    for e in &events { writeln!(out, "{e}").unwrap(); }
    eprintln!("events={} capped={capped} shared a={:?}", events.len(), shared.get("a"));
    for h in &handles { h.stop(); } for mut h in handles { h.join().unwrap(); }
}
