SPECIFICATION TSpec
CONSTANTS
  Prog <- MCProg
  Threads = {1, 2}
  BpLocs = {1, 2, 3, 4, 5}
  MaxCmds = 1000000
  MaxCycles = 1000000
INVARIANT Reached
POSTCONDITION Accepted
CHECK_DEADLOCK FALSE
