use rand::{Rng, SeedableRng, rngs::StdRng};
use serde_json::{json, Value as J};
use std::io::Write;
use trust_runtime::harness::TestHarness;
use trust_runtime::value::Value;

const TYPES: [&str; 8] = ["SINT", "INT", "DINT", "USINT", "UINT", "BOOL", "BYTE", "WORD"];
fn lo(t: &str) -> i64 { match t { "SINT" => -128, "INT" => -32768, "DINT" => -2147483648, _ => 0 } }
fn hi(t: &str) -> i64 { match t { "SINT" => 127, "INT" => 32767, "DINT" => 2147483647, "USINT" | "BYTE" => 255, "UINT" | "WORD" => 65535, "BOOL" => 1, _ => 0 } }
fn narrower(t: &str) -> Vec<&'static str> { match t { "INT" => vec!["INT", "SINT"], "DINT" => vec!["DINT", "INT", "SINT"], "UINT" => vec!["UINT", "USINT"], "WORD" => vec!["WORD", "BYTE"], "SINT" => vec!["SINT"], "USINT" => vec!["USINT"], "BYTE" => vec!["BYTE"], "BOOL" => vec!["BOOL"], _ => vec![] } }

struct Gen { rng: StdRng, typed_lits: bool }
impl Gen {
    fn pick<'a, T: Copy>(&mut self, xs: &'a [T]) -> T { xs[self.rng.gen_range(0..xs.len())] }
    fn lit(&mut self, t: &str) -> J {
        let (l, h) = (lo(t), hi(t));
        let cands = [l, l + 1, -1, 0, 1, 2, 3, 7, h - 1, h, 10, 100];
        let mut v = self.pick(&cands);
        if v < l || v > h { v = self.rng.gen_range(l.max(-50)..=h.min(50)); }
        json!({"k":"lit","t":t,"v":v})
    }
    fn var_of(&mut self, t: &str) -> J { let tt = if self.rng.gen_bool(0.7) { t } else { let n = narrower(t); n[self.rng.gen_range(0..n.len())] }; json!({"k":"var","n":format!("{}{}", tt.to_lowercase(), self.rng.gen_range(1..=2)), "t": tt}) }
    fn expr(&mut self, t: &str, d: u32) -> J {
        if d == 0 || self.rng.gen_bool(0.25) { return if self.rng.gen_bool(0.5) { self.lit(t) } else { self.var_of(t) }; }
        match t {
            "BOOL" => match self.rng.gen_range(0..4) {
                0 => { let it = self.pick(&["SINT", "INT", "DINT", "USINT", "UINT"]); let op = self.pick(&["eq", "ne", "lt", "le", "gt", "ge"]); json!({"k":"bin","op":op,"l":self.expr(it, d-1),"r":self.expr(it, d-1)}) }
                1 => json!({"k":"un","op":"not","e":self.expr("BOOL", d-1)}),
                _ => { let op = self.pick(&["and", "or", "xor"]); json!({"k":"bin","op":op,"l":self.expr("BOOL", d-1),"r":self.expr("BOOL", d-1)}) }
            },
            "BYTE" | "WORD" => if self.rng.gen_bool(0.5) { self.lit(t) } else { self.var_of(t) },
            _ => {
                if lo(t) < 0 && self.rng.gen_bool(0.12) { return json!({"k":"un","op":"neg","e":self.expr(t, d-1)}); }
                if t == "INT" && self.rng.gen_bool(0.1) { return json!({"k":"idx","n":"arr","i":self.expr("INT", d-1)}); }
                let op = self.pick(&["add", "sub", "mul", "div", "mod", "add", "sub"]);
                json!({"k":"bin","op":op,"l":self.expr(t, d-1),"r":self.expr(t, d-1)})
            }
        }
    }
    fn block(&mut self, d: u32, in_loop: bool) -> Vec<J> { (0..self.rng.gen_range(1..=3)).map(|_| self.stmt(d, in_loop)).collect() }
    fn stmt(&mut self, d: u32, in_loop: bool) -> J {
        let choice = if d == 0 { 0 } else { self.rng.gen_range(0..10) };
        match choice {
            0..=3 => { let t = self.pick(&TYPES);
                       if !self.typed_lits && ["SINT", "INT", "DINT", "USINT", "UINT"].contains(&t) && self.rng.gen_bool(0.35) {
                           let v = self.rng.gen_range(lo(t).max(-100)..=hi(t).min(100));
                           return json!({"k":"assign","n":format!("{}{}", t.to_lowercase(), self.rng.gen_range(1..=2)),"e":{"k":"lit","t":"ANYINT","v":v}}); }
                       json!({"k":"assign","n":format!("{}{}", t.to_lowercase(), self.rng.gen_range(1..=2)),"e":self.expr(t, 2)}) }
            4 => json!({"k":"assignidx","n":"arr","i":self.expr("INT", 1),"e":self.expr("INT", 2)}),
            5 => json!({"k":"if","c":self.expr("BOOL", 2),"t":self.block(d-1, in_loop),"e": if self.rng.gen_bool(0.5) { self.block(d-1, in_loop) } else { vec![] }}),
            6 => { let st = self.pick(&["SINT", "INT", "DINT"]); let nb = self.rng.gen_range(1..=3); let mut br = Vec::new(); let mut base = self.rng.gen_range(-3..3);
                   for _ in 0..nb { let w = self.rng.gen_range(0..=2); br.push(json!({"labels":[{"lo":base,"hi":base+w}],"body":self.block(d-1, in_loop)})); base += w + 1 + self.rng.gen_range(0..2); }
                   json!({"k":"case","s":self.expr(st, 1),"br":br,"e": if self.rng.gen_bool(0.5) { self.block(d-1, in_loop) } else { vec![] }}) }
            7 => { let ct = self.pick(&["SINT", "INT", "DINT", "USINT"]); let by = if lo(ct) < 0 { self.pick(&[1i64, 1, 2, -1, 3, 0]) } else { self.pick(&[1i64, 1, 2, 3, 0]) };
                   let a = self.rng.gen_range(-2i64.max(lo(ct))..5); let b = self.rng.gen_range(-3i64.max(lo(ct))..8);
                   json!({"k":"for","n":format!("{}2", ct.to_lowercase()),"from":{"k":"lit","t":ct,"v":a},"to":{"k":"lit","t":ct,"v":b},"by":{"k":"lit","t":ct,"v":by},"body":self.block(d-1, true)}) }
            8 => { // bounded while on uint2
                   let lim = self.rng.gen_range(0..4);
                   let mut b = self.block(d-1, true);
                   b.push(json!({"k":"assign","n":"uint2","e":{"k":"bin","op":"add","l":{"k":"var","n":"uint2","t":"UINT"},"r":{"k":"lit","t":"UINT","v":1}}}));
                   json!({"k":"while","c":{"k":"bin","op":"lt","l":{"k":"var","n":"uint2","t":"UINT"},"r":{"k":"lit","t":"UINT","v":lim}},"body":b}) }
            _ => if in_loop { if self.rng.gen_bool(0.5) { json!({"k":"exit"}) } else { json!({"k":"if","c":self.expr("BOOL", 1),"t":[{"k":"exit"}],"e":[]}) } } else { let t = self.pick(&TYPES); json!({"k":"assign","n":format!("{}1", t.to_lowercase()),"e":self.expr(t, 3)}) },
        }
    }
}
fn lit_src(t: &str, v: i64, typed: bool) -> String {
    let _ = typed;
    if t == "ANYINT" { return format!("{v}"); }
    let typed = true;
    match t { "BOOL" => if v == 1 { "TRUE".into() } else { "FALSE".into() }, "BYTE" | "WORD" => format!("{t}#16#{v:X}"),
              _ => if typed { if v < 0 { format!("{t}#-{}", -v) } else { format!("{t}#{v}") } } else { format!("{v}") } }
}
fn expr_src(e: &J, typed: bool) -> String {
    match e["k"].as_str().unwrap() {
        "lit" => lit_src(e["t"].as_str().unwrap(), e["v"].as_i64().unwrap(), typed),
        "var" => e["n"].as_str().unwrap().to_string(),
        "idx" => format!("arr[{}]", expr_src(&e["i"], typed)),
        "un" => format!("({} ({}))", if e["op"] == "neg" { "-" } else { "NOT" }, expr_src(&e["e"], typed)),
        _ => { let op = match e["op"].as_str().unwrap() { "add" => "+", "sub" => "-", "mul" => "*", "div" => "/", "mod" => "MOD", "and" => "AND", "or" => "OR", "xor" => "XOR", "eq" => "=", "ne" => "<>", "lt" => "<", "le" => "<=", "gt" => ">", _ => ">=" };
               format!("({} {} {})", expr_src(&e["l"], typed), op, expr_src(&e["r"], typed)) }
    }
}
fn stmts_src(ss: &[J], typed: bool, ind: usize, out: &mut String) {
    let p = " ".repeat(ind);
    for s in ss {
        match s["k"].as_str().unwrap() {
            "assign" => out.push_str(&format!("{p}{} := {};\n", s["n"].as_str().unwrap(), expr_src(&s["e"], typed))),
            "assignidx" => out.push_str(&format!("{p}arr[{}] := {};\n", expr_src(&s["i"], typed), expr_src(&s["e"], typed))),
            "if" => { out.push_str(&format!("{p}IF {} THEN\n", expr_src(&s["c"], typed))); stmts_src(s["t"].as_array().unwrap(), typed, ind+2, out);
                      if !s["e"].as_array().unwrap().is_empty() { out.push_str(&format!("{p}ELSE\n")); stmts_src(s["e"].as_array().unwrap(), typed, ind+2, out); } out.push_str(&format!("{p}END_IF;\n")); }
            "case" => { out.push_str(&format!("{p}CASE {} OF\n", expr_src(&s["s"], typed)));
                        for b in s["br"].as_array().unwrap() { let l = &b["labels"][0]; let (a, z) = (l["lo"].as_i64().unwrap(), l["hi"].as_i64().unwrap());
                            out.push_str(&format!("{p}  {}:\n", if a == z { format!("{a}") } else { format!("{a}..{z}") })); stmts_src(b["body"].as_array().unwrap(), typed, ind+4, out); }
                        if !s["e"].as_array().unwrap().is_empty() { out.push_str(&format!("{p}ELSE\n")); stmts_src(s["e"].as_array().unwrap(), typed, ind+2, out); } out.push_str(&format!("{p}END_CASE;\n")); }
            "for" => { out.push_str(&format!("{p}FOR {} := {} TO {} BY {} DO\n", s["n"].as_str().unwrap(), expr_src(&s["from"], typed), expr_src(&s["to"], typed), expr_src(&s["by"], typed))); stmts_src(s["body"].as_array().unwrap(), typed, ind+2, out); out.push_str(&format!("{p}END_FOR;\n")); }
            "while" => { out.push_str(&format!("{p}WHILE {} DO\n", expr_src(&s["c"], typed))); stmts_src(s["body"].as_array().unwrap(), typed, ind+2, out); out.push_str(&format!("{p}END_WHILE;\n")); }
            "exit" => out.push_str(&format!("{p}EXIT;\n")),
            _ => {}
        }
    }
}
fn val_json(v: &Value) -> J {
    match v { Value::Bool(b) => json!({"t":"BOOL","v": *b as i64}), Value::SInt(x) => json!({"t":"SINT","v":x}), Value::Int(x) => json!({"t":"INT","v":x}), Value::DInt(x) => json!({"t":"DINT","v":x}),
              Value::LInt(x) => json!({"t":"LINT","v":x}), Value::USInt(x) => json!({"t":"USINT","v":x}), Value::UInt(x) => json!({"t":"UINT","v":x}), Value::UDInt(x) => json!({"t":"UDINT","v":x}),
              Value::Byte(x) => json!({"t":"BYTE","v":x}), Value::Word(x) => json!({"t":"WORD","v":x}),
              Value::Array(a) => json!({"t":"ARRAY","lo":a.dimensions[0].0,"el":a.elements.iter().map(val_json).collect::<Vec<_>>()}), o => json!({"t":format!("{o:?}"),"v":0}) }
}
fn main() {
    let seed: u64 = std::env::args().nth(1).and_then(|s| s.parse().ok()).unwrap_or(1);
    let runs: usize = std::env::args().nth(2).and_then(|s| s.parse().ok()).unwrap_or(100);
    let typed = std::env::args().nth(3).map(|s| s != "untyped").unwrap_or(true);
    let mut g = Gen { rng: StdRng::seed_from_u64(seed), typed_lits: typed };
    let _ = g.typed_lits;
    let mut out = std::io::BufWriter::new(std::fs::File::create("/tmp/proto/stcore.ndjson").unwrap());
    let (mut accepted, mut rejected, mut panics) = (0, 0, 0);
    std::panic::set_hook(Box::new(|_| {}));
    for _ in 0..runs {
        let mut decl = serde_json::Map::new(); let mut init = serde_json::Map::new(); let mut src = String::from("PROGRAM P\nVAR\n");
        for t in TYPES { for i in 1..=2 { let n = format!("{}{}", t.to_lowercase(), i); let v = g.lit(t); let vv = v["v"].as_i64().unwrap();
            src.push_str(&format!("  {n} : {t} := {};\n", lit_src(t, vv, true))); decl.insert(n.clone(), json!({"t":t})); init.insert(n, json!({"t":t,"v":vv})); } }
        src.push_str("  arr : ARRAY[0..3] OF INT;\nEND_VAR\n");
        decl.insert("arr".into(), json!({"t":"ARRAY","el":"INT","lo":0,"hi":3}));
        init.insert("arr".into(), json!({"t":"ARRAY","lo":0,"el":[{"t":"INT","v":0},{"t":"INT","v":0},{"t":"INT","v":0},{"t":"INT","v":0}]}));
        let body = g.block(2, false);
        stmts_src(&body, typed, 0, &mut src); src.push_str("END_PROGRAM\n");
        let mut h = match TestHarness::from_source(&src) { Ok(h) => h, Err(e) => { rejected += 1; if rejected <= 0 { eprintln!("REJECTED: {}\n{src}", e.to_string().lines().next().unwrap_or("")); } continue; } };
        accepted += 1;
        writeln!(out, "{}", json!({"a":"Reset","decl":decl,"init":init,"body":body,"src":src})).unwrap();
        for _ in 0..2 {
            let r = std::panic::catch_unwind(std::panic::AssertUnwindSafe(|| h.cycle()));
            let res = match &r { Err(_) => { panics += 1; "Panic".to_string() }, Ok(c) => if c.errors.is_empty() { "ok".into() } else { format!("{:?}", c.errors[0]).split(|c: char| !c.is_alphanumeric()).next().unwrap().to_string() } };
            let mut vars = serde_json::Map::new();
            for n in decl.keys() { vars.insert(n.clone(), h.get_output(n).map(|v| val_json(&v)).unwrap_or(json!({"t":"MISSING","v":0}))); }
            writeln!(out, "{}", json!({"a":"Cycle","res":res,"vars":vars,"frames":h.runtime().storage().frames().len()})).unwrap();
            if res != "ok" { break; }
        }
    }
    eprintln!("accepted={accepted} rejected={rejected} panics={panics}");
}
