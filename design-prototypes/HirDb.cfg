SPECIFICATION Spec
CONSTANTS
  Files = {1, 2, 3}
  Texts = {"t1", "t2"}
  NoText = "absent"
  MaxOps = 7
INVARIANTS InputsInSync AnswerEqualsFresh
CHECK_DEADLOCK FALSE
