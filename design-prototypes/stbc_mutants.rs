use trust_runtime::bytecode::BytecodeModule;
use trust_runtime::harness::{bytecode_bytes_from_source, TestHarness};
const SRC: &str = "TYPE S : STRUCT a : INT; b : ARRAY[0..2] OF BOOL; END_STRUCT END_TYPE\nFUNCTION_BLOCK FB VAR_INPUT i : INT; END_VAR VAR_OUTPUT o : INT; END_VAR o := i + INT#1; END_FUNCTION_BLOCK\nFUNCTION Dbl : INT VAR_INPUT a : INT; END_VAR Dbl := a * INT#2; END_FUNCTION\nCONFIGURATION C VAR_GLOBAL g : INT; t : BOOL; END_VAR TASK T1 (INTERVAL := T#10ms, PRIORITY := 1); TASK T2 (SINGLE := t, PRIORITY := 0); PROGRAM I1 WITH T1 : P; PROGRAM I2 WITH T2 : Q; END_CONFIGURATION\nPROGRAM P VAR x AT %IX0.0 : BOOL; y AT %QW2 : WORD; s : S; f : FB; n : INT; END_VAR f(i := n, o => n); n := Dbl(a := n); IF x THEN y := WORD#16#1; END_IF; END_PROGRAM\nPROGRAM Q VAR k : INT; END_VAR k := k + INT#1; END_PROGRAM\n";
fn fix_crc(b: &mut [u8]) { let off = u32::from_le_bytes([b[16], b[17], b[18], b[19]]) as usize; if off <= b.len() { let c = crc32fast::hash(&b[off..]); b[20..24].copy_from_slice(&c.to_le_bytes()); } }
fn mutant(base: &[u8], idx: usize, val: u32) -> Vec<u8> { let mut b = base.to_vec(); b[idx..idx + 4].copy_from_slice(&val.to_le_bytes()); fix_crc(&mut b); b }
fn main() {
    let args: Vec<String> = std::env::args().collect();
    let base = bytecode_bytes_from_source(SRC).expect("compile");
    if args.len() == 2 && args[1] == "dump" { std::fs::write("/tmp/proto/base.stbc", &base).unwrap(); return; }
    if args.len() == 4 && args[1] == "one" {
        let b = mutant(&base, args[2].parse().unwrap(), args[3].parse().unwrap());
        let r = BytecodeModule::decode(&b);
        match r { Err(_) => println!("decode-err"), Ok(m) => match m.validate() { Err(_) => println!("validate-err"), Ok(()) => {
            let enc = m.encode(); let same = enc.as_ref().map(|e| e == &b).unwrap_or(false);
            let mut h = TestHarness::from_source(SRC).unwrap(); let ap = h.runtime_mut().apply_bytecode_bytes(&b, None);
            println!("valid reencode_same={same} apply={}", if ap.is_ok() { "ok" } else { "err" }); } } }
        return;
    }
    println!("container {} bytes; base decode ok={} validate ok={}", base.len(), BytecodeModule::decode(&base).is_ok(), BytecodeModule::decode(&base).and_then(|m| m.validate()).is_ok());
    let m = BytecodeModule::decode(&base).unwrap(); println!("roundtrip encode==bytes: {}", m.encode().unwrap() == base);
    let exe = std::env::current_exe().unwrap();
    let mut tally: std::collections::BTreeMap<String, usize> = Default::default();
    let mut shown = 0;
    for idx in (24..base.len() - 3).step_by(4) {
        for val in [0u32, 1, 0xFFFF, 0x7FFF_FFFF, 0x8000_0000, 0xFFFF_FFFF] {
            let out = std::process::Command::new("sh").arg("-c").arg(format!("ulimit -v 2000000; exec {} one {idx} {val}", exe.display())).output().unwrap();
            let key = if out.status.success() { String::from_utf8_lossy(&out.stdout).split_whitespace().next().unwrap_or("?").to_string() } else { let e = String::from_utf8_lossy(&out.stderr); if e.contains("panicked") { "PANIC".to_string() } else if e.contains("memory allocation") { "ALLOC-ABORT".to_string() } else if e.contains("overflow") { "STACK".into() } else { format!("CRASH({:?})", out.status.code()) } };
            if key == "PANIC" || key.starts_with("CRASH") || key == "STACK" || (key == "ALLOC-ABORT" && shown < 3) { shown += 1; println!("{key} at offset {idx} val {val:#x}: {}", String::from_utf8_lossy(&out.stderr).lines().filter(|l| l.contains("panicked") || l.contains("memory") || l.contains("overflow")).next().unwrap_or("")); }
            *tally.entry(key).or_default() += 1;
        }
    }
    println!("{tally:?}");
}
