--------------------------------- MODULE HirDb ---------------------------------
(* The analysis database's triple bookkeeping (crates/trust-hir/src/db/queries/database.rs):   *)
(*   sources      : FileId -> text            (Database.sources)                                 *)
(*   inputs       : FileId -> text            (salsa SourceInput per file)                       *)
(*   project      : set of FileId or "none"   (ProjectInputs.files, rebuilt by sync)             *)
(*   revision / synced                        (lazy re-sync trigger)                             *)
(* plus salsa's memo table, trusted to be correct *relative to the inputs it is given*:          *)
(*   memo[f] = the answer computed from (project, inputs) when f was last queried, reused while  *)
(*   neither the project file set nor any input text it read has changed.                        *)
(* The property: every Query answer equals the answer a fresh database gives for `sources`.      *)
EXTENDS Integers, FiniteSets, TLC
CONSTANTS Files, Texts, NoText, MaxOps
VARIABLES sources, inputs, project, revision, synced, memo, nops, lastAnswerOK
vars == <<sources, inputs, project, revision, synced, memo, nops, lastAnswerOK>>

Dom(m) == {f \in Files : m[f] # NoText}
NoProject == {-1}
NoMemo == [own |-> NoText, others |-> {}]
\* abstract analysis: the answer for file f depends on f's text and on the texts of all files in the set
Answer(fileset, texts, f) == [own |-> texts[f], others |-> {<<g, texts[g]>> : g \in fileset \ {f}}]
Fresh(f) == Answer(Dom(sources), sources, f)

Init == /\ sources = [f \in Files |-> NoText] /\ inputs = [f \in Files |-> NoText]
        /\ project = NoProject /\ revision = 1 /\ synced = 0
        /\ memo = [f \in Files |-> NoMemo] /\ nops = 0 /\ lastAnswerOK = TRUE

SyncProject(inp) == Dom(inp)          \* sync_project_inputs: project file set := the salsa inputs' files

\* set_source_text: three code paths
SetText(f, t) ==
  /\ nops < MaxOps /\ nops' = nops + 1 /\ t # NoText
  /\ IF sources[f] = t THEN UNCHANGED <<sources, inputs, project, revision, synced, memo>>
     ELSE /\ sources' = [sources EXCEPT ![f] = t]
          /\ revision' = revision + 1
          /\ inputs' = [inputs EXCEPT ![f] = t]
          /\ project' = IF inputs[f] = NoText \/ project = NoProject THEN SyncProject(inputs') ELSE project
          /\ synced' = revision + 1
          /\ UNCHANGED memo                       \* salsa invalidates by input change, modelled at Query
  /\ lastAnswerOK' = lastAnswerOK

Remove(f) ==
  /\ nops < MaxOps /\ nops' = nops + 1
  /\ IF sources[f] = NoText THEN UNCHANGED <<sources, inputs, project, revision, synced, memo>>
     ELSE /\ sources' = [sources EXCEPT ![f] = NoText]
          /\ revision' = revision + 1
          /\ inputs' = [inputs EXCEPT ![f] = NoText]
          /\ project' = SyncProject(inputs')
          /\ synced' = revision + 1
          /\ UNCHANGED memo
  /\ lastAnswerOK' = lastAnswerOK

\* diagnostics / analyze / type_of: with_synced_salsa_state then a tracked query
Query(f) ==
  /\ nops < MaxOps /\ nops' = nops + 1 /\ sources[f] # NoText
  /\ LET needSync == synced # revision
         inp2 == IF needSync THEN sources ELSE inputs                 \* prepare_salsa_project copies every text
         proj2 == IF needSync \/ project = NoProject THEN SyncProject(inp2) ELSE project
         \* salsa: recompute iff what the memo read differs from what it would read now
         now == Answer(proj2, inp2, f)
         ans == IF memo[f] = now THEN memo[f] ELSE now
     IN /\ inputs' = inp2 /\ project' = proj2 /\ synced' = revision
        /\ memo' = [memo EXCEPT ![f] = ans]
        /\ lastAnswerOK' = (f \in proj2 /\ ans = Fresh(f))
  /\ UNCHANGED <<sources, revision>>

Next == \E f \in Files : (\E t \in Texts : SetText(f, t)) \/ Remove(f) \/ Query(f)
Spec == Init /\ [][Next]_vars

InputsInSync == inputs = sources /\ (project = NoProject \/ project = Dom(sources))
AnswerEqualsFresh == lastAnswerOK
=================================================================================
