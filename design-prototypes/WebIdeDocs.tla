------------------------------ MODULE WebIdeDocs ------------------------------
(* Optimistic concurrency of the web IDE's open/write on one file, at the code's grain:  *)
(* the disk is read outside the state lock; refresh + version check + write are inside.  *)
EXTENDS Integers, Sequences, FiniteSets, TLC
CONSTANTS Sessions, MaxOps
VARIABLES disk,                \* current file content (a content id)
          entry,               \* [content, version] or absent (version 0)
          sess,                \* per session: [base (content it last saw), ver (version it knows), pc, seen, op]
          nextContent, nops,
          lastSuccess          \* ghost: content written by the last successful write (or initial)
vars == <<disk, entry, sess, nextContent, nops, lastSuccess>>

Init == /\ disk = 0 /\ entry = [content |-> -1, version |-> 0] /\ nextContent = 1 /\ nops = 0 /\ lastSuccess = 0
        /\ sess = [s \in Sessions |-> [base |-> -1, ver |-> 0, pc |-> "idle", seen |-> -1, op |-> "none", new |-> -1]]

Refresh(e, seen) == IF e.version = 0 THEN [content |-> seen, version |-> 1]
                    ELSE IF e.content # seen THEN [content |-> seen, version |-> e.version + 1] ELSE e

BeginOpen(s)  == /\ sess[s].pc = "idle" /\ nops < MaxOps /\ nops' = nops + 1
                 /\ sess' = [sess EXCEPT ![s].pc = "read", ![s].op = "open"] /\ UNCHANGED <<disk, entry, nextContent, lastSuccess>>
BeginWrite(s) == /\ sess[s].pc = "idle" /\ sess[s].ver > 0 /\ nops < MaxOps /\ nops' = nops + 1
                 /\ sess' = [sess EXCEPT ![s].pc = "read", ![s].op = "write", ![s].new = nextContent]
                 /\ nextContent' = nextContent + 1 /\ UNCHANGED <<disk, entry, lastSuccess>>
ReadDisk(s)   == /\ sess[s].pc = "read" /\ sess' = [sess EXCEPT ![s].seen = disk, ![s].pc = "locked"]
                 /\ UNCHANGED <<disk, entry, nextContent, nops, lastSuccess>>
CommitOpen(s) == /\ sess[s].pc = "locked" /\ sess[s].op = "open"
                 /\ LET e == Refresh(entry, sess[s].seen) IN
                    /\ entry' = e
                    /\ sess' = [sess EXCEPT ![s].pc = "idle", ![s].base = sess[s].seen, ![s].ver = e.version]
                 /\ UNCHANGED <<disk, nextContent, nops, lastSuccess>>
CommitWrite(s) == /\ sess[s].pc = "locked" /\ sess[s].op = "write"
                  /\ LET e == Refresh(entry, sess[s].seen) IN
                     IF e.version # sess[s].ver
                     THEN /\ entry' = e /\ sess' = [sess EXCEPT ![s].pc = "idle"]            \* conflict(current)
                          /\ UNCHANGED <<disk, lastSuccess>>
                     ELSE /\ disk' = sess[s].new /\ lastSuccess' = sess[s].new
                          /\ entry' = [content |-> sess[s].new, version |-> e.version + 1]
                          /\ sess' = [sess EXCEPT ![s].pc = "idle", ![s].base = sess[s].new, ![s].ver = e.version + 1]
                  /\ UNCHANGED <<nextContent, nops>>
Next == \E s \in Sessions : BeginOpen(s) \/ BeginWrite(s) \/ ReadDisk(s) \/ CommitOpen(s) \/ CommitWrite(s)
Spec == Init /\ [][Next]_vars

DiskIsLastSuccess == disk = lastSuccess
\* a successful write was based on the latest content: the writer had seen what it overwrites
NoLostUpdate == [][ \A s \in Sessions :
                      (sess[s].pc = "locked" /\ sess[s].op = "write" /\ disk' # disk /\ sess'[s].pc = "idle" /\ disk' = sess[s].new)
                        => sess[s].base = disk ]_vars
VersionsGrow == [][entry'.version >= entry.version]_vars
=================================================================================
