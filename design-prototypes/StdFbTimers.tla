----------------------------- MODULE StdFbTimers -----------------------------
(* TON / TOF / TP: history-based definitions from the IEC timing diagrams under the  *)
(* runtime's documented sampling rule (the time between two calls of an instance is  *)
(* attributed to the input seen at the later call), and the state machines that the  *)
(* trace specification steps. TLC checks machine = definition on every prefix.       *)
EXTENDS Integers, Sequences, FiniteSets

VARIABLES h,          \* history of calls: sequence of [in, pt, dt]
          ton, tof, tp \* machine memories
vars == <<h, ton, tof, tp>>

Pos(x) == IF x < 0 THEN 0 ELSE x
Min(a, b) == IF a < b THEN a ELSE b
RECURSIVE SumDt(_, _, _)
SumDt(s, a, b) == IF a > b THEN 0 ELSE s[a].dt + SumDt(s, a + 1, b)
In(s, i) == IF i < 1 THEN FALSE ELSE s[i].in

\* ------------------------------ definitions (history) ------------------------------
\* start of the maximal run of calls with in = v ending at k
RunStart(s, k, v) == CHOOSE j \in 1..k : (\A i \in j..k : s[i].in = v) /\ (j = 1 \/ s[j - 1].in # v)

DefTON(s) ==
  LET k == Len(s) IN
  IF ~s[k].in THEN [q |-> FALSE, et |-> 0]
  ELSE LET acc == SumDt(s, RunStart(s, k, TRUE), k)
           pt  == Pos(s[k].pt)
       IN [q |-> acc >= pt, et |-> Min(acc, pt)]

DefTOF(s) ==
  LET k == Len(s) IN
  IF s[k].in THEN [q |-> TRUE, et |-> 0, timing |-> FALSE]
  ELSE LET f == RunStart(s, k, FALSE) IN
       IF f = 1 THEN [q |-> FALSE, et |-> 0, timing |-> FALSE]          \* IN has never been true
       ELSE LET alive == \A m \in f..k : SumDt(s, f, m) < Pos(s[m].pt)  \* not yet expired
            IN [q |-> alive, et |-> IF alive THEN SumDt(s, f, k) ELSE -1, timing |-> alive]  \* et = -1: unconstrained

\* TP: pulses start at rising edges seen while no pulse is active
RECURSIVE PulseStart(_, _)
\* index at which the pulse active at call k started, 0 if none is active at k
PulseStart(s, k) ==
  IF k < 1 THEN 0
  ELSE LET prev == PulseStart(s, k - 1)
           rising == s[k].in /\ ~In(s, k - 1)
           start == IF prev # 0 THEN prev ELSE IF rising THEN k ELSE 0
       IN IF start = 0 THEN 0
          ELSE IF SumDt(s, start, k) >= Pos(s[k].pt) THEN 0 ELSE start
DefTP(s) ==
  LET k == Len(s) st == PulseStart(s, k) IN
  [q |-> st # 0, et |-> IF st # 0 THEN SumDt(s, st, k) ELSE -1]

\* -------------------------------- state machines --------------------------------
TonInit == [et |-> 0, q |-> FALSE]
TonStep(m, in, ptRaw, dt) ==
  LET pt == Pos(ptRaw) IN
  IF ~in THEN [et |-> 0, q |-> FALSE]
  ELSE [et |-> m.et + dt, q |-> m.et + dt >= pt]
TonOut(m, ptRaw) == [q |-> m.q, et |-> Min(m.et, Pos(ptRaw))]

TofInit == [et |-> 0, q |-> FALSE, prev |-> FALSE, timing |-> FALSE]
TofStep(m, in, ptRaw, dt) ==
  LET pt == Pos(ptRaw) IN
  IF in THEN [et |-> 0, q |-> TRUE, prev |-> TRUE, timing |-> FALSE]
  ELSE LET t0 == IF m.prev THEN TRUE ELSE m.timing
           e0 == IF m.prev THEN 0 ELSE m.et
       IN IF t0 THEN (IF e0 + dt >= pt THEN [et |-> e0 + dt, q |-> FALSE, prev |-> FALSE, timing |-> FALSE]
                      ELSE [et |-> e0 + dt, q |-> TRUE, prev |-> FALSE, timing |-> TRUE])
          ELSE [et |-> 0, q |-> FALSE, prev |-> FALSE, timing |-> FALSE]

TpInit == [et |-> 0, prev |-> FALSE, active |-> FALSE]
TpStep(m, in, ptRaw, dt) ==
  LET pt == Pos(ptRaw)
      rising == in /\ ~m.prev
      a0 == m.active \/ rising
      e0 == IF rising /\ ~m.active THEN 0 ELSE m.et        \* non-retriggerable
  IN IF a0 THEN (IF e0 + dt >= pt THEN [et |-> pt, prev |-> in, active |-> FALSE]
                 ELSE [et |-> e0 + dt, prev |-> in, active |-> TRUE])
     ELSE [et |-> m.et, prev |-> in, active |-> FALSE]

\* --------------------------------- exploration ---------------------------------
CONSTANTS DTs, PTs, MaxLen
Init == h = <<>> /\ ton = TonInit /\ tof = TofInit /\ tp = TpInit
Call(in, pt, dt) ==
  /\ Len(h) < MaxLen
  /\ h' = Append(h, [in |-> in, pt |-> pt, dt |-> IF h = <<>> THEN 0 ELSE dt])
  /\ ton' = TonStep(ton, in, pt, IF h = <<>> THEN 0 ELSE dt)
  /\ tof' = TofStep(tof, in, pt, IF h = <<>> THEN 0 ELSE dt)
  /\ tp'  = TpStep(tp, in, pt, IF h = <<>> THEN 0 ELSE dt)
Next == \E in \in BOOLEAN, pt \in PTs, dt \in DTs : Call(in, pt, dt)
Spec == Init /\ [][Next]_vars

TonRefines == h # <<>> => LET d == DefTON(h) o == TonOut(ton, h[Len(h)].pt) IN d.q = o.q /\ d.et = o.et
TofRefines == h # <<>> => LET d == DefTOF(h) IN d.q = tof.q /\ (d.timing => d.et = tof.et /\ tof.et < Pos(h[Len(h)].pt))
TpRefines  == h # <<>> => LET d == DefTP(h) IN d.q = tp.active /\ (d.q => d.et = tp.et /\ tp.et < Pos(h[Len(h)].pt))
=============================================================================
