use trust_runtime::harness::TestHarness;
use trust_runtime::value::{Duration, Value};
use trust_runtime::RestartMode;
const SRC: &str = r#"
FUNCTION_BLOCK Acc
VAR_INPUT inc : INT; END_VAR
VAR_OUTPUT total : INT; END_VAR
total := total + inc;
END_FUNCTION_BLOCK

CONFIGURATION C
VAR_GLOBAL
    trig : BOOL := FALSE;
    g_plain : INT := INT#5;
END_VAR
VAR_GLOBAL RETAIN
    g_ret : INT := INT#7;
END_VAR
TASK Fast (INTERVAL := T#10ms, PRIORITY := 1);
TASK Ev (SINGLE := trig, PRIORITY := 0);
PROGRAM P1 WITH Fast : Main;
PROGRAM P2 WITH Ev : Evt;
VAR_ACCESS
    AccCount : P1.count : INT READ_WRITE;
END_VAR
END_CONFIGURATION

PROGRAM Main
VAR_EXTERNAL g_plain : INT; g_ret : INT; END_VAR
VAR
    inp AT %IX0.0 : BOOL;
    outp AT %QX0.0 : BOOL;
    outw AT %QW2 : WORD;
    count : INT := INT#0;
    acc : Acc;
END_VAR
VAR RETAIN
    keep : INT := INT#1;
END_VAR
outp := inp;
count := count + INT#1;
keep := keep + INT#1;
g_plain := g_plain + INT#1;
g_ret := g_ret + INT#1;
acc(inc := INT#2);
IF inp THEN outw := WORD#16#ABCD; ELSE outw := WORD#16#0001; END_IF;
END_PROGRAM

PROGRAM Evt
VAR hits : INT; END_VAR
hits := hits + INT#1;
END_PROGRAM
"#;
fn obs(h: &TestHarness) -> String {
    let rt = h.runtime();
    let mut v = Vec::new();
    for n in ["count", "keep", "g_plain", "g_ret", "hits", "outp", "inp", "outw", "trig"] { v.push(format!("{n}={:?}", h.get_output(n))); }
    if let Some(Value::Instance(id)) = rt.storage().get_global("P1") { if let Some(Value::Instance(a)) = rt.storage().get_instance_var(*id, "acc") { v.push(format!("acc.total={:?}", rt.storage().get_instance_var(*a, "total"))); } }
    v.push(format!("access={:?}", h.get_access("AccCount")));
    v.push(format!("Q={:?} I={:?}", rt.io().outputs(), rt.io().inputs()));
    v.push(format!("t={} over={:?} faulted={} frames={}", rt.current_time().as_nanos() / 1_000_000, rt.task_overrun_count("Fast"), rt.faulted(), rt.storage().frames().len()));
    v.join(" ")
}
fn drive(h: &mut TestHarness, label: &str) {
    for (dt, inp, trig) in [(10, true, false), (10, false, true), (25, true, true), (10, true, false)] {
        h.advance_time(Duration::from_millis(dt)); h.set_direct_input("%IX0.0", Value::Bool(inp)).unwrap(); h.set_input("trig", Value::Bool(trig));
        let r = h.cycle(); println!("  [{label}] err={:?} {}", r.errors, obs(h));
    }
}
fn main() {
    for mode in [RestartMode::Cold, RestartMode::Warm] {
        println!("===== {mode:?}");
        let mut a = TestHarness::from_source(SRC).unwrap();
        drive(&mut a, "pre");
        let _ = a.set_access("AccCount", Value::Int(100));
        a.restart(mode).unwrap();
        println!("  after restart: {}", obs(&a));
        let mut f = TestHarness::from_source(SRC).unwrap();
        println!("  fresh:         {}", obs(&f));
        drive(&mut a, "restarted"); drive(&mut f, "fresh    ");
    }
}
