---- MODULE StCoreTrace ----
EXTENDS StCore, Json, IOUtils
Rec == ndJsonDeserialize(IOEnv.TRACE)
VARIABLES l, st, dst, decl, body, run, skip, badVal, badTag, known
tvars == <<l, st, dst, decl, body, run, skip, badVal, badTag, known>>
E == Rec[l + 1]
More == l < Len(Rec)

\* JSON store -> spec store: scalars {t,v}; arrays {t:"ARRAY",lo,el:[{t,v}...]}
ToVal(j) == IF j.t = "ARRAY" THEN [t |-> "ARRAY", lo |-> j.lo, el |-> [i \in DOMAIN j.el |-> Val(j.el[i].t, j.el[i].v)]]
            ELSE Val(j.t, j.v)
ToStore(vs) == [n \in DOMAIN vs |-> ToVal(vs[n])]

\* numeric agreement (C02) and tag agreement (C03), per variable
NumEq(a, b) == IF a.t = "ARRAY" THEN \A i \in DOMAIN a.el : a.el[i].v = b.el[i].v ELSE a.v = b.v
TagEq(a, b) == IF a.t = "ARRAY" THEN \A i \in DOMAIN a.el : a.el[i].t = b.el[i].t ELSE a.t = b.t
\* the implementation's value is outside the declared type's range or tag differs from the declaration
ImplTagOK(d, j) == IF d.t = "ARRAY" THEN \A i \in DOMAIN j.el : j.el[i].t = d.el ELSE j.t = d.t

Init == /\ l = 1 /\ Rec[1].a = "Reset" /\ run = 1 /\ skip = FALSE /\ badVal = {} /\ badTag = {} /\ known = {}
        /\ decl = Rec[1].decl /\ body = Rec[1].body /\ st = ToStore(Rec[1].init) /\ dst = ToStore(Rec[1].init)

DoReset == /\ decl' = E.decl /\ body' = E.body /\ st' = ToStore(E.init) /\ dst' = ToStore(E.init) /\ run' = run + 1 /\ skip' = FALSE
           /\ l' = l + 1 /\ UNCHANGED <<badVal, badTag, known>>

FlowOk(r, res) == (r.flow = "next" /\ res = "ok") \/ r.flow = res \/ (r.flow = "ForPastEnd" /\ res \in {"ok", "Overflow"})
FullEq(a, b) == IF a.t = "ARRAY" THEN \A i \in DOMAIN a.el : a.el[i].v = b.el[i].v /\ a.el[i].t = b.el[i].t ELSE a.v = b.v /\ a.t = b.t
Cyc ==
  /\ More /\ ~skip /\ E.a = "Cycle" /\ l' = l + 1
  /\ LET impl == ToStore(E.vars)
         r == RunCycle(body, st, decl, TRUE)          \* reference
         d == RunCycle(body, dst, decl, FALSE)        \* recorded deviation: no coercion on assignment
         refOk == FlowOk(r, E.res) /\ (r.flow = "ForPastEnd" \/ \A n \in DOMAIN r.st : FullEq(r.st[n], impl[n]))
         devOk == FlowOk(d, E.res) /\ (d.flow = "ForPastEnd" \/ \A n \in DOMAIN d.st : FullEq(d.st[n], impl[n]))
     IN /\ known' = IF ~refOk /\ devOk THEN known \cup {run} ELSE known
        /\ badVal' = IF refOk \/ devOk THEN badVal ELSE badVal \cup {run}
        /\ badTag' = badTag
        /\ skip' = (~(refOk \/ devOk) \/ E.res # "ok")
        /\ st' = IF refOk \/ devOk THEN r.st ELSE st
        /\ dst' = IF refOk \/ devOk THEN d.st ELSE dst
  /\ UNCHANGED <<decl, body, run>>

Skip == More /\ skip /\ E.a # "Reset" /\ l' = l + 1 /\ UNCHANGED <<st, dst, decl, body, run, skip, badVal, badTag, known>>
Reset == More /\ E.a = "Reset" /\ DoReset
Next == Cyc \/ Skip \/ Reset
Spec == Init /\ [][Next]_tvars
Done == l = Len(Rec) => PrintT(<<"RESULT runs", run, "violations", badVal, "known-finding runs", Cardinality(known)>>)
Accepted == TLCGet("stats").diameter = Len(Rec)
====
