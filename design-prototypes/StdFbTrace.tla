---- MODULE StdFbTrace ----
EXTENDS StdFbTimers, TLC, Json, IOUtils
Rec == ndJsonDeserialize(IOEnv.TRACE)
VARIABLES l, kind
tvars == <<l, kind, vars>>
TInit == l = 1 /\ Rec[1].a = "Reset" /\ kind = Rec[1].kind /\ Init
E == Rec[l + 1]
IsEv(a) == l < Len(Rec) /\ E.a = a /\ l' = l + 1
Reset == IsEv("Reset") /\ kind' = E.kind /\ h' = <<>> /\ ton' = TonInit /\ tof' = TofInit /\ tp' = TpInit
CallEv == IsEv("Call") /\ kind' = kind
  /\ h' = Append(h, [in |-> E.in, pt |-> E.pt, dt |-> E.dt])
  /\ ton' = TonStep(ton, E.in, E.pt, E.dt) /\ tof' = TofStep(tof, E.in, E.pt, E.dt) /\ tp' = TpStep(tp, E.in, E.pt, E.dt)
  /\ CASE kind = "TON" -> LET o == TonOut(ton', E.pt) IN E.q = o.q /\ E.et = o.et
       [] kind = "TOF" -> E.q = tof'.q /\ (tof'.timing => E.et = tof'.et) /\ E.et <= Pos(E.pt)
       [] kind = "TP"  -> E.q = tp'.active /\ (tp'.active => E.et = tp'.et) /\ E.et <= Pos(E.pt)
TNext == Reset \/ CallEv
TSpec == TInit /\ [][TNext]_tvars
Accepted == IF TLCGet("stats").diameter = Len(Rec) THEN TRUE
            ELSE Print(<<"REJECT first unmatched event index", TLCGet("stats").diameter + 1>>, FALSE)
====
