use std::collections::BTreeMap;
use std::path::{Path, PathBuf};
use trust_runtime::web::ide::{IdeRole, WebIdeState};
fn snapshot(root: &Path) -> BTreeMap<String, String> {
    let mut out = BTreeMap::new(); let mut stack = vec![root.to_path_buf()];
    while let Some(d) = stack.pop() { for e in std::fs::read_dir(&d).unwrap().flatten() { let p = e.path(); let md = std::fs::symlink_metadata(&p).unwrap();
        let rel = p.strip_prefix(root).unwrap().to_string_lossy().to_string();
        if md.file_type().is_symlink() { out.insert(rel, format!("link->{}", std::fs::read_link(&p).unwrap().display())); } else if md.is_dir() { out.insert(rel.clone(), "dir".into()); stack.push(p); } else { out.insert(rel, std::fs::read_to_string(&p).unwrap_or_default()); } } }
    out
}
fn build(base: &Path) {
    let _ = std::fs::remove_dir_all(base);
    std::fs::create_dir_all(base.join("project/src")).unwrap(); std::fs::create_dir_all(base.join("project/.hidden")).unwrap(); std::fs::create_dir_all(base.join("outside/sub")).unwrap();
    std::fs::write(base.join("outside/secret.st"), "SECRET-OUT").unwrap(); std::fs::write(base.join("outside/sub/deep.st"), "DEEP-OUT").unwrap();
    std::fs::write(base.join("project/src/main.st"), "PROGRAM P END_PROGRAM").unwrap(); std::fs::write(base.join("project/top.st"), "TOP").unwrap();
    std::fs::write(base.join("project/.hidden/h.st"), "HIDDEN").unwrap(); std::fs::write(base.join("project/.dot.st"), "DOT").unwrap();
    std::os::unix::fs::symlink("../outside/secret.st", base.join("project/flink.st")).unwrap();
    std::os::unix::fs::symlink("../outside", base.join("project/dlink")).unwrap();
    std::os::unix::fs::symlink("src", base.join("project/inlink")).unwrap();
}
fn main() {
    let base = PathBuf::from("/tmp/scratch/sentinel2");
    let comps = ["src", "main.st", "top.st", "new.st", "newdir", "..", ".", "", ".hidden", "h.st", ".dot.st", "flink.st", "dlink", "inlink", "secret.st", "sub", "deep.st", "outside", "/", "a\\..\\..\\outside", "%2e%2e", "..;", " ..", ".. "];
    let mut paths = std::collections::BTreeSet::new();
    for a in comps { paths.insert(a.to_string()); for b in comps { paths.insert(format!("{a}/{b}")); for c in ["secret.st", "..", "main.st", "new.st", "sub/deep.st", "outside/secret.st"] { paths.insert(format!("{a}/{b}/{c}")); } } }
    paths.insert("/tmp/scratch/sentinel2/outside/secret.st".into()); paths.insert("../outside/secret.st".into()); paths.insert("..//outside/secret.st".into()); paths.insert("src/../../outside/secret.st".into());
    eprintln!("paths: {}", paths.len());
    let mut tally: BTreeMap<String, usize> = BTreeMap::new(); let mut shown = 0;
    for p in &paths {
        for op in ["open", "create", "createdir", "delete", "rename_to", "rename_from", "write"] {
            build(&base);
            let before = snapshot(&base);
            let ide = WebIdeState::new(Some(base.join("project")));
            let s = ide.create_session(IdeRole::Editor).unwrap();
            let mut leaked = false;
            let res: Result<(), String> = match op {
                "open" => ide.open_source(&s.token, p).map(|f| { if f.content.contains("-OUT") || f.content == "HIDDEN" || f.content == "DOT" { leaked = true; } }).map_err(|e| format!("{:?}", e.kind())),
                "create" => ide.create_entry(&s.token, p, false, Some("NEW".into()), true).map(|_| ()).map_err(|e| format!("{:?}", e.kind())),
                "createdir" => ide.create_entry(&s.token, p, true, None, true).map(|_| ()).map_err(|e| format!("{:?}", e.kind())),
                "delete" => ide.delete_entry(&s.token, p, true).map(|_| ()).map_err(|e| format!("{:?}", e.kind())),
                "rename_to" => ide.rename_entry(&s.token, "top.st", p, true).map(|_| ()).map_err(|e| format!("{:?}", e.kind())),
                "rename_from" => ide.rename_entry(&s.token, p, "moved.st", true).map(|_| ()).map_err(|e| format!("{:?}", e.kind())),
                _ => ide.apply_source(&s.token, p, 1, "WRITTEN".into(), true).map(|_| ()).map_err(|e| format!("{:?}", e.kind())),
            };
            let after = snapshot(&base);
            let mut outside_changed = false; let mut hidden_changed = false;
            let keys: std::collections::BTreeSet<_> = before.keys().chain(after.keys()).cloned().collect();
            for k in keys { if before.get(&k) != after.get(&k) { if !k.starts_with("project/") && k != "project" { outside_changed = true; } if k.contains("/.") { hidden_changed = true; } } }
            let verdict = if outside_changed { "OUTSIDE-MODIFIED" } else if leaked { "OUTSIDE/HIDDEN-READ" } else if hidden_changed { "HIDDEN-MODIFIED" } else if res.is_ok() { "ok-inside" } else { "refused" };
            *tally.entry(format!("{op}:{verdict}")).or_default() += 1;
            if (outside_changed || leaked || hidden_changed) && shown < 14 { shown += 1; println!("{verdict} op={op} path={p:?} res={res:?}"); }
        }
    }
    println!("{tally:#?}");
}
