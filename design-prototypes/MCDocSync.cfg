SPECIFICATION Spec
CONSTANTS
  Alphabet <- MCAlphabet
  MaxLen = 4
  MaxEdits = 4
INVARIANT RoundTrip
VIEW View
CHECK_DEADLOCK FALSE
