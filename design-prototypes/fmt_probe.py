import json, subprocess, glob, sys, random
def server(init_opts):
    p = subprocess.Popen(["/repo/target/debug/trust-lsp"], stdin=subprocess.PIPE, stdout=subprocess.PIPE, stderr=subprocess.DEVNULL)
    def send(msg):
        b = json.dumps(msg).encode(); p.stdin.write(b"Content-Length: %d\r\n\r\n" % len(b) + b); p.stdin.flush()
    def recv():
        hdr = b""
        while not hdr.endswith(b"\r\n\r\n"):
            c = p.stdout.read(1)
            if not c: return None
            hdr += c
        n = int([l for l in hdr.split(b"\r\n") if l.lower().startswith(b"content-length")][0].split(b":")[1])
        return json.loads(p.stdout.read(n))
    def request(id, method, params):
        send({"jsonrpc":"2.0","id":id,"method":method,"params":params})
        while True:
            m = recv()
            if m is None: return None
            if m.get("id") == id and "method" not in m: return m
            if "method" in m and "id" in m: send({"jsonrpc":"2.0","id":m["id"],"result":None})
    request(1, "initialize", {"processId": None, "rootUri": None, "capabilities": {}, "initializationOptions": init_opts})
    send({"jsonrpc":"2.0","method":"initialized","params":{}})
    send({"jsonrpc":"2.0","method":"workspace/didChangeConfiguration","params":{"settings": init_opts}})
    return p, send, request
def apply_edits(text, edits):
    # positions in (line, char) with char as UTF-16 units; docs here are ASCII-only
    lines = text.split("\n")
    def off(pos):
        return sum(len(l) + 1 for l in lines[:pos["line"]]) + pos["character"]
    for e in sorted(edits, key=lambda e: (e["range"]["start"]["line"], e["range"]["start"]["character"]), reverse=True):
        s, t = off(e["range"]["start"]), off(e["range"]["end"])
        text = text[:s] + e["newText"] + text[t:]
    return text
docs = []
for f in sorted(glob.glob("/repo/examples/**/*.st", recursive=True) + glob.glob("/repo/conformance/**/*.st", recursive=True))[:12]:
    t = open(f, encoding="utf-8", errors="ignore").read()
    if t.isascii() and len(t) < 8000: docs.append((f.split("/")[-1], t))
docs.append(("strcomma", "PROGRAM P\nVAR s : STRING; a : INT; b : INT; c : INT; END_VAR\ns := CONCAT('alpha, beta, gamma, delta', 'one, two, three, four, five, six, seven');\na := MAX(a, b, c, a, b, c, a, b, c, a, b, c, a, b, c, a, b, c); (* x, y *)\nb:=a**2;c:=a<=b;\nEND_PROGRAM\n"))
docs.append(("ops", "PROGRAM P\nVAR a:INT;b:INT;r:BOOL; END_VAR\nr:=a<>b;r:=a<=b;r:=a>=b;a:=a**b;a:=-a;a:=a- -b;r:=NOT r;a:=16#FF;a:=INT#-5;\nr:=a=b;a:=a MOD b;a:=b.%X0;\nEND_PROGRAM\n"))
configs = {"default": {}, "compact": {"stLsp": {"format": {"spacingStyle": "compact"}}}, "wrap30upper": {"stLsp": {"format": {"maxLineLength": 30, "keywordCase": "upper"}}}, "lowerindented": {"stLsp": {"format": {"keywordCase": "lower", "endKeywordStyle": "indented", "indentWidth": 2}}}}
out = open("/tmp/proto/fmt_pairs.ndjson", "w")
rng = random.Random(1)
for cname, opts in configs.items():
    p, send, request = server(opts)
    rid = 10
    for i, (name, text) in enumerate(docs):
        print(cname, i, name, flush=True)
        uri = f"file:///tmp/scratch/fmt_{i}.st"
        send({"jsonrpc":"2.0","method":"textDocument/didOpen","params":{"textDocument":{"uri":uri,"languageId":"st","version":1,"text":text}}})
        rid += 1; r = request(rid, "textDocument/formatting", {"textDocument":{"uri":uri},"options":{"tabSize":4,"insertSpaces":True}})
        full = apply_edits(text, r.get("result") or [])
        out.write(json.dumps({"id": f"{cname}/full/{name}", "before": text, "after": full}) + "\n")
        # idempotence
        send({"jsonrpc":"2.0","method":"textDocument/didChange","params":{"textDocument":{"uri":uri,"version":2},"contentChanges":[{"text":full}]}})
        rid += 1; r2 = request(rid, "textDocument/formatting", {"textDocument":{"uri":uri},"options":{"tabSize":4,"insertSpaces":True}})
        again = apply_edits(full, r2.get("result") or [])
        if again != full: out.write(json.dumps({"id": f"{cname}/NOTIDEMPOTENT/{name}", "before": full, "after": again + "\n(* NOT IDEMPOTENT *)"}) + "\n")
        send({"jsonrpc":"2.0","method":"textDocument/didChange","params":{"textDocument":{"uri":uri,"version":3},"contentChanges":[{"text":text}]}})
        nlines = text.count("\n")
        for _ in range(3):
            a = rng.randrange(0, max(1, nlines)); b = min(nlines, a + rng.randrange(0, 4))
            rid += 1; r3 = request(rid, "textDocument/rangeFormatting", {"textDocument":{"uri":uri},"range":{"start":{"line":a,"character":0},"end":{"line":b,"character":0}},"options":{"tabSize":4,"insertSpaces":True}})
            ranged = apply_edits(text, r3.get("result") or [])
            out.write(json.dumps({"id": f"{cname}/range{a}-{b}/{name}", "before": text, "after": ranged}) + "\n")
    p.kill()
out.close()
print("done")
