-------------------------------- MODULE Rename --------------------------------
(* Lexical scoping with case-folded names: when does renaming a declaration preserve every  *)
(* reference's binding?  TLC checks the stated Safe predicate is necessary and sufficient.   *)
EXTENDS Integers, Sequences, FiniteSets, TLC
CONSTANTS Scopes, Root, Names, MaxDecls, MaxRefs
VARIABLES parent, decls, refs, done
vars == <<parent, decls, refs, done>>

\* ancestors-or-self chain of a scope under parent function par
RECURSIVE Chain(_, _)
Chain(par, s) == IF s = Root THEN <<Root>> ELSE <<s>> \o Chain(par, par[s])
InChain(par, s, t) == \E i \in DOMAIN Chain(par, s) : Chain(par, s)[i] = t      \* t encloses (or is) s
Depth(par, s) == Len(Chain(par, s))

\* the declaration a name resolves to from site s: the one in the nearest enclosing scope
Resolve(par, ds, s, n) ==
  LET cands == {d \in ds : d.name = n /\ InChain(par, s, d.scope)} IN
  IF cands = {} THEN 0
  ELSE (CHOOSE d \in cands : \A e \in cands : Depth(par, d.scope) >= Depth(par, e.scope)).id

Binding(par, ds, rs) == [r \in {x.id : x \in rs} |-> LET x == CHOOSE y \in rs : y.id = r IN Resolve(par, ds, x.scope, x.name)]

WellFormed(par, ds) == \A d, e \in ds : (d.scope = e.scope /\ d.name = e.name) => d.id = e.id   \* no duplicate in a scope

RenameDecls(ds, d, new) == {IF e.id = d.id THEN [e EXCEPT !.name = new] ELSE e : e \in ds}
RenameRefs(par, ds, rs, d, new) == {IF Resolve(par, ds, r.scope, r.name) = d.id THEN [r EXCEPT !.name = new] ELSE r : r \in rs}

Preserved(par, ds, rs, d, new) ==
  LET ds2 == RenameDecls(ds, d, new) rs2 == RenameRefs(par, ds, rs, d, new) IN
  WellFormed(par, ds2) /\ Binding(par, ds2, rs2) = Binding(par, ds, rs)

\* ---- the predicate a correct rename must evaluate (every reference site, not only the declaring scope)
Safe(par, ds, rs, d, new) ==
  /\ ~\E e \in ds : e.id # d.id /\ e.scope = d.scope /\ e.name = new                       \* 1. clash in the declaring scope
  /\ \A r \in rs : Resolve(par, ds, r.scope, r.name) = d.id =>                             \* 2. capture of a reference to d
        ~\E e \in ds : e.name = new /\ InChain(par, r.scope, e.scope) /\ e.scope # d.scope
                        /\ Depth(par, e.scope) > Depth(par, d.scope)
  /\ \A r \in rs : (r.name = new /\ InChain(par, r.scope, d.scope)) =>                     \* 3. d would capture a reference to new
        LET b == Resolve(par, ds, r.scope, new) IN
        b # 0 /\ \E e \in ds : e.id = b /\ Depth(par, e.scope) > Depth(par, d.scope)
\* what the implementation checks today
DeclaringScopeOnly(par, ds, rs, d, new) == ~\E e \in ds : e.id # d.id /\ e.scope = d.scope /\ e.name = new

Init == /\ parent \in [Scopes \ {Root} -> Scopes] /\ \A s \in Scopes \ {Root} : parent[s] < s      \* acyclic by construction
        /\ decls \in SUBSET [id : 1..MaxDecls, scope : Scopes, name : Names]
        /\ Cardinality(decls) <= MaxDecls /\ Cardinality({d.id : d \in decls}) = Cardinality(decls) /\ WellFormed(parent, decls)
        /\ refs \in SUBSET [id : 1..MaxRefs, scope : Scopes, name : Names]
        /\ Cardinality(refs) <= MaxRefs /\ Cardinality({r.id : r \in refs}) = Cardinality(refs)
        /\ done = FALSE
Next == ~done /\ done' = TRUE /\ UNCHANGED <<parent, decls, refs>>
Spec == Init /\ [][Next]_vars

SafeIsExact == \A d \in decls, new \in Names : new # d.name =>
                 (Safe(parent, decls, refs, d, new) <=> Preserved(parent, decls, refs, d, new))
\* expected to FAIL: shows the declaring-scope check admits captures
DeclScopeSuffices == \A d \in decls, new \in Names : new # d.name =>
                 (DeclaringScopeOnly(parent, decls, refs, d, new) => Preserved(parent, decls, refs, d, new))
=================================================================================
