---------------------------- MODULE ResourceThreads ----------------------------
(* Resource threads sharing configuration globals (scheduler.rs run_resource_loop_with_ *)
(* shared), step by step, plus a controller. ManualClock with its sticky interrupt.      *)
EXTENDS Integers, Sequences, FiniteSets, TLC

CONSTANTS Res, MaxCycles, MaxCmds, Interval   \* Interval = 0: free running (yield), > 0: sleep on the clock

VARIABLES pc, paused, state, queue, stopFlag,      \* per resource
          shared, lockOwner, localA, n,            \* shared counter + per-resource local copy and cycle count
          clockNow, interrupted, deadline,         \* manual clock
          saves, ncmd, obsPaused, nAtObs           \* ghosts

vars == <<pc, paused, state, queue, stopFlag, shared, lockOwner, localA, n, clockNow, interrupted, deadline, saves, ncmd, obsPaused, nAtObs>>
None == "none"

Init ==
  /\ pc = [r \in Res |-> "top"] /\ paused = [r \in Res |-> FALSE] /\ state = [r \in Res |-> "Running"]
  /\ queue = [r \in Res |-> <<>>] /\ stopFlag = [r \in Res |-> FALSE]
  /\ shared = 0 /\ lockOwner = None /\ localA = [r \in Res |-> 0] /\ n = [r \in Res |-> 0]
  /\ clockNow = 0 /\ interrupted = FALSE /\ deadline = [r \in Res |-> 0]
  /\ saves = [r \in Res |-> 0] /\ ncmd = 0 /\ obsPaused = [r \in Res |-> FALSE] /\ nAtObs = [r \in Res |-> 0]

\* ------------------------------ resource loop ------------------------------
Top(r) == /\ pc[r] = "top"
          /\ IF stopFlag[r]
             THEN pc' = [pc EXCEPT ![r] = "exit"] /\ saves' = [saves EXCEPT ![r] = @ + 1] /\ state' = [state EXCEPT ![r] = "Stopped"]
             ELSE pc' = [pc EXCEPT ![r] = "drain"] /\ UNCHANGED <<saves, state>>
          /\ UNCHANGED <<paused, queue, stopFlag, shared, lockOwner, localA, n, clockNow, interrupted, deadline, ncmd, obsPaused, nAtObs>>

Drain(r) == /\ pc[r] = "drain"
            /\ IF queue[r] = <<>>
               THEN /\ pc' = [pc EXCEPT ![r] = IF paused[r] THEN "psleep" ELSE "lock"]
                    /\ deadline' = [deadline EXCEPT ![r] = clockNow + Interval]
                    /\ UNCHANGED <<paused, state, queue>>
               ELSE /\ queue' = [queue EXCEPT ![r] = Tail(@)]
                    /\ paused' = [paused EXCEPT ![r] = (Head(queue[r]) = "Pause")]
                    /\ state' = [state EXCEPT ![r] = IF Head(queue[r]) = "Pause" THEN "Paused" ELSE "Running"]
                    /\ UNCHANGED <<pc, deadline>>
            /\ UNCHANGED <<stopFlag, shared, lockOwner, localA, n, clockNow, interrupted, saves, ncmd, obsPaused, nAtObs>>

\* sleep_until: returns when interrupted or now >= deadline (Interval = 0: yield)
SleepDone(r) == Interval = 0 \/ interrupted \/ clockNow >= deadline[r]
PSleep(r) == /\ pc[r] = "psleep" /\ SleepDone(r) /\ pc' = [pc EXCEPT ![r] = "top"]
             /\ UNCHANGED <<paused, state, queue, stopFlag, shared, lockOwner, localA, n, clockNow, interrupted, deadline, saves, ncmd, obsPaused, nAtObs>>

Lock(r) == /\ pc[r] = "lock"
           /\ IF n[r] < MaxCycles
              THEN lockOwner = None /\ lockOwner' = r /\ pc' = [pc EXCEPT ![r] = "into"]
              ELSE pc' = [pc EXCEPT ![r] = "sleep"] /\ UNCHANGED lockOwner     \* model bound: idle iteration
           /\ UNCHANGED <<paused, state, queue, stopFlag, shared, localA, n, clockNow, interrupted, deadline, saves, ncmd, obsPaused, nAtObs>>
SyncInto(r) == /\ pc[r] = "into" /\ localA' = [localA EXCEPT ![r] = shared] /\ pc' = [pc EXCEPT ![r] = "exec"]
               /\ UNCHANGED <<paused, state, queue, stopFlag, shared, lockOwner, n, clockNow, interrupted, deadline, saves, ncmd, obsPaused, nAtObs>>
Exec(r) == /\ pc[r] = "exec" /\ localA' = [localA EXCEPT ![r] = @ + 1] /\ n' = [n EXCEPT ![r] = @ + 1] /\ pc' = [pc EXCEPT ![r] = "from"]
           /\ UNCHANGED <<paused, state, queue, stopFlag, shared, lockOwner, clockNow, interrupted, deadline, saves, ncmd, obsPaused, nAtObs>>
SyncFrom(r) == /\ pc[r] = "from" /\ shared' = localA[r] /\ lockOwner' = None /\ pc' = [pc EXCEPT ![r] = "sleep"]
               /\ UNCHANGED <<paused, state, queue, stopFlag, localA, n, clockNow, interrupted, deadline, saves, ncmd, obsPaused, nAtObs>>
Sleep(r) == /\ pc[r] = "sleep" /\ SleepDone(r) /\ pc' = [pc EXCEPT ![r] = "top"]
            /\ UNCHANGED <<paused, state, queue, stopFlag, shared, lockOwner, localA, n, clockNow, interrupted, deadline, saves, ncmd, obsPaused, nAtObs>>

Loop(r) == Top(r) \/ Drain(r) \/ PSleep(r) \/ Lock(r) \/ SyncInto(r) \/ Exec(r) \/ SyncFrom(r) \/ Sleep(r)

\* -------------------------------- controller --------------------------------
Cmd == ncmd < MaxCmds /\ ncmd' = ncmd + 1
Send(r, c) == /\ Cmd /\ queue' = [queue EXCEPT ![r] = Append(@, c)] /\ interrupted' = TRUE
              /\ obsPaused' = IF c = "Resume" THEN [obsPaused EXCEPT ![r] = FALSE] ELSE obsPaused
              /\ UNCHANGED <<pc, paused, state, stopFlag, shared, lockOwner, localA, n, clockNow, deadline, saves, nAtObs>>
Stop(r) == /\ Cmd /\ stopFlag' = [stopFlag EXCEPT ![r] = TRUE] /\ interrupted' = TRUE
           /\ UNCHANGED <<pc, paused, state, queue, shared, lockOwner, localA, n, clockNow, deadline, saves, obsPaused, nAtObs>>
AdvanceClock == /\ Cmd /\ clockNow' = clockNow + Interval
                /\ UNCHANGED <<pc, paused, state, queue, stopFlag, shared, lockOwner, localA, n, interrupted, deadline, saves, obsPaused, nAtObs>>
\* the controller reads state() = Paused with no Resume in flight: from now until it sends Resume, n must not move
Observe(r) == /\ state[r] = "Paused" /\ ~obsPaused[r] /\ \A i \in DOMAIN queue[r] : queue[r][i] # "Resume"
              /\ obsPaused' = [obsPaused EXCEPT ![r] = TRUE] /\ nAtObs' = [nAtObs EXCEPT ![r] = n[r]]
              /\ UNCHANGED <<pc, paused, state, queue, stopFlag, shared, lockOwner, localA, n, clockNow, interrupted, deadline, saves, ncmd>>
Controller == \/ \E r \in Res, c \in {"Pause", "Resume"} : Send(r, c)
              \/ \E r \in Res : Stop(r) \/ Observe(r)
              \/ (Interval > 0 /\ AdvanceClock)

Next == (\E r \in Res : Loop(r)) \/ Controller
Spec == Init /\ [][Next]_vars /\ \A r \in Res : WF_vars(Loop(r))

\* --------------------------------- properties ---------------------------------
Sum(f) == LET RECURSIVE S(_) S(X) == IF X = {} THEN 0 ELSE LET x == CHOOSE x \in X : TRUE IN f[x] + S(X \ {x}) IN S(Res)
NoLostUpdate      == lockOwner = None => shared = Sum(n)
PausedMeansNoExec == \A r \in Res : obsPaused[r] => n[r] = nAtObs[r]
StopSavesOnce     == \A r \in Res : saves[r] <= 1 /\ (pc[r] = "exit" => saves[r] = 1 /\ state[r] = "Stopped")
StopTerminates    == \A r \in Res : stopFlag[r] ~> pc[r] = "exit"
=================================================================================
