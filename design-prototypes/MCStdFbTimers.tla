---- MODULE MCStdFbTimers ----
EXTENDS StdFbTimers
MCDTs == {0, 1, 2, 5}
MCPTs == {-1, 0, 2, 3}
====
