-------------------------------- MODULE DocSync --------------------------------
(* LSP text synchronisation: the editor and the server must hold the same text after every   *)
(* notification. A text is a sequence of code points; each has a UTF-16 width (1 or 2).      *)
(* Lines are separated by "\n"; a "\r" directly before "\n" belongs to the line break, so a   *)
(* column past the line content clamps to before the "\r\n".                                  *)
EXTENDS Integers, Sequences, FiniteSets, TLC

CONSTANTS Alphabet,   \* set of code points: records [c |-> name, w |-> utf16 width]; names "nl" and "cr" are special
          MaxLen, MaxEdits

VARIABLES text, nedits, hist
vars == <<text, nedits, hist>>

NL == [c |-> "nl", w |-> 1]
IsNL(x) == x.c = "nl"

\* index (1-based, position *before* which the cursor sits; Len+1 = end) of line starts
LineStarts(t) == {1} \cup {i + 1 : i \in {j \in 1..Len(t) : IsNL(t[j])}}
NthLineStart(t, n) == LET S == LineStarts(t) IN
                      CHOOSE i \in S : Cardinality({j \in S : j < i}) = n      \* n = 0 is the first line
NumLines(t) == Cardinality(LineStarts(t))
\* end of line content: before "\n", and before a "\r" that directly precedes it
LineContentEnd(t, s) ==
  LET nls == {j \in s..Len(t) : IsNL(t[j])}
      e == IF nls = {} THEN Len(t) + 1 ELSE CHOOSE j \in nls : \A k \in nls : j <= k
  IN IF e > s /\ e <= Len(t) + 1 /\ e - 1 >= s /\ t[e - 1].c = "cr" /\ e <= Len(t) THEN e - 1 ELSE e

RECURSIVE Walk(_, _, _, _)
\* from index i with u UTF-16 units consumed, advance until u >= col or i reaches stop
Walk(t, i, stop, col) == IF i >= stop \/ col <= 0 THEN i ELSE Walk(t, i + 1, stop, col - t[i].w)

\* LSP position -> index; columns past the content clamp; a column inside a surrogate pair rounds up
ToIndex(t, line, col) == LET s == NthLineStart(t, line) IN Walk(t, s, LineContentEnd(t, s), col)
RECURSIVE Units(_, _, _)
Units(t, a, b) == IF a >= b THEN 0 ELSE t[a].w + Units(t, a + 1, b)
\* index -> LSP position (only for indices on a character boundary inside line content or at its end)
ToPos(t, i) == LET S == {s \in LineStarts(t) : s <= i}
                   s == CHOOSE x \in S : \A y \in S : y <= x
               IN <<Cardinality({x \in LineStarts(t) : x < s}), Units(t, s, i)>>

Apply(t, a, b, new) == SubSeq(t, 1, a - 1) \o new \o SubSeq(t, b, Len(t))

Init == text \in {<<>>} /\ nedits = 0 /\ hist = <<>>
\* environment: the editor performs an edit and reports it in LSP positions
Edit == /\ nedits < MaxEdits /\ nedits' = nedits + 1
        /\ \E l1 \in 0..(NumLines(text) - 1), l2 \in 0..(NumLines(text) - 1), c1 \in 0..4, c2 \in 0..4,
              new \in {<<>>} \cup {<<x>> : x \in Alphabet} \cup {<<x, NL>> : x \in Alphabet} :
             LET a == ToIndex(text, l1, c1) b == ToIndex(text, l2, c2) IN
             /\ a <= b /\ Len(text) - (b - a) + Len(new) <= MaxLen
             /\ text' = Apply(text, a, b, new)
             /\ hist' = Append(hist, [l1 |-> l1, c1 |-> c1, l2 |-> l2, c2 |-> c2, new |-> new])
Next == Edit
Spec == Init /\ [][Next]_vars

\* round trip on every boundary that is not between "\r" and "\n"
RoundTrip == \A i \in 1..(Len(text) + 1) :
               (~(i > 1 /\ i <= Len(text) /\ text[i - 1].c = "cr" /\ IsNL(text[i])))
                 => LET p == ToPos(text, i) IN ToIndex(text, p[1], p[2]) = i
=================================================================================
