---- MODULE ResourceLogTrace ----
(* Linearizability of shared-global read-modify-write cycles: per-resource logs of the value each *)
(* cycle observed after its own increment must merge into 1, 2, 3, ... with every log in order.    *)
EXTENDS Integers, Sequences, FiniteSets, TLC, Json, IOUtils
Rec == ndJsonDeserialize(IOEnv.TRACE)
Res == {Rec[i].r : i \in DOMAIN Rec}
Log(r) == SelectSeq(Rec, LAMBDA e : e.r = r)
Logs == [r \in Res |-> Log(r)]
VARIABLES sh, cur
vars == <<sh, cur>>
Init == sh = Rec[1].base /\ cur = [r \in Res |-> 1]
Cycle(r) == /\ cur[r] <= Len(Logs[r]) /\ Logs[r][cur[r]].a = sh + 1 /\ Logs[r][cur[r]].b = sh + 1
            /\ sh' = sh + 1 /\ cur' = [cur EXCEPT ![r] = @ + 1]
Next == \E r \in Res : Cycle(r)
Spec == Init /\ [][Next]_vars
Accepted == IF TLCGet("stats").diameter - 1 = Len(Rec) THEN TRUE ELSE Print(<<"REJECT: merged prefix", TLCGet("stats").diameter - 1, "of", Len(Rec)>>, FALSE)
====
