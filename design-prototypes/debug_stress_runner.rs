use rand::{Rng, SeedableRng, rngs::StdRng};
use serde_json::{json, Value as J};
use std::io::Write;
use std::sync::atomic::{AtomicBool, Ordering};
use std::sync::Arc;
use trust_runtime::debug::{ControlAction, DebugBreakpoint, DebugControl, DebugHook, SourceLocation};

const PROG: [(u32, u32, u32); 5] = [(1, 0, 1), (2, 1, 1), (3, 0, 1), (4, 0, 2), (5, 1, 2)]; // (loc, depth, thread)
fn loc(k: u32) -> SourceLocation { SourceLocation::new(0, k * 10, k * 10 + 5) }
fn field<'a>(line: &'a str, key: &str) -> Option<&'a str> { let i = line.find(&format!("{key}="))? + key.len() + 1; let rest = &line[i..]; Some(rest.split(' ').next().unwrap()) }
fn opt_num(s: &str) -> i64 { if s.starts_with("Some(") { s[5..s.len() - 1].parse().unwrap() } else { -1 } }
fn loc_of(s: &str) -> i64 { s.split(':').nth(1).and_then(|r| r.split("..").next()).and_then(|x| x.parse::<i64>().ok()).map(|x| x / 10).unwrap_or(-1) }

fn parse(lines: &[String], out: &mut Vec<J>) {
    let mut cur: Option<J> = None;
    for raw in lines {
        let line = raw.trim_start_matches("## [trust-runtime][debug] ");
        if line.starts_with("breakpoints.set") { out.push(json!({"a":"SetBps","n":field(line, "requested").unwrap().parse::<i64>().unwrap()})); }
        else if line.starts_with("action=") {
            let act = field(line, "action").unwrap(); let kind = act.split('(').next().unwrap();
            let th = if act.contains("Some(") { act[act.find("Some(").unwrap() + 5..act.rfind("))").unwrap()].parse::<i64>().unwrap() } else { -1 };
            let mode = field(line, "mode").unwrap(); let (mb, ma) = mode.split_once("->").unwrap();
            out.push(json!({"a":"Adapter","kind":kind,"th":th,"modeBefore":mb,"modeAfter":ma,"outcome":field(line, "outcome").unwrap()}));
        } else if line.starts_with("hook.entry") {
            let p = field(line, "pending_stop").unwrap(); let pending = if p == "None" { "none".to_string() } else { p[5..p.len() - 1].to_string() };
            let (l0, d0, m0) = (loc_of(field(line, "location").unwrap()), field(line, "depth").unwrap().parse::<i64>().unwrap(), field(line, "mode").unwrap().to_string());
            let (c0, t0) = (opt_num(field(line, "current_thread").unwrap()), opt_num(field(line, "target_thread").unwrap()));
            let (s0, b0) = (field(line, "steps").unwrap().parse::<i64>().unwrap(), field(line, "breakpoints").unwrap().parse::<i64>().unwrap());
            cur = Some(json!({"a":"HookEnter","loc":l0,"depth":d0,"mode":m0,"cur":c0,"target":t0,"pending":pending,"steps":s0,"bps":b0,"stops":[]}));
        } else if line.starts_with("hook.wake") {
            cur = Some(json!({"a":"HookWake","mode":field(line, "mode").unwrap(),"target":opt_num(field(line, "target_thread").unwrap()),"stops":[]}));
        } else if line.starts_with("stop reason=") { if let Some(c) = cur.as_mut() { c["stops"].as_array_mut().unwrap().push(json!(field(line, "reason").unwrap())); } }
        else if line.starts_with("hook.wait") { if let Some(mut c) = cur.take() { c["end"] = json!("wait"); out.push(c); } }
        else if line.starts_with("hook.exit") { if let Some(mut c) = cur.take() { c["end"] = json!("exit"); out.push(c); } }
    }
}
fn main() {
    let log = "/tmp/proto/dbg_trace.log"; let _ = std::fs::remove_file(log);
    std::env::set_var("ST_DEBUG_TRACE", "1"); std::env::set_var("ST_DEBUG_TRACE_LOG", log);
    let seed: u64 = std::env::args().nth(1).and_then(|s| s.parse().ok()).unwrap_or(1);
    let runs: usize = std::env::args().nth(2).and_then(|s| s.parse().ok()).unwrap_or(50);
    let mut rng = StdRng::seed_from_u64(seed);
    let mut out = std::io::BufWriter::new(std::fs::File::create("/tmp/proto/dbg.ndjson").unwrap());
    let mut consumed = 0usize; let mut wedges = 0;
    for _ in 0..runs {
        let control = DebugControl::new();
        let done = Arc::new(AtomicBool::new(false));
        let cycles = rng.gen_range(1..=3); let delay_hook = rng.gen_range(0..200u64);
        let mut hook = control.clone(); let done2 = done.clone(); let ctl2 = control.clone();
        let t = std::thread::spawn(move || { let mut cur = 1u32;
            for _ in 0..cycles { for (k, d, th) in PROG { if th != cur { ctl2.set_current_thread(Some(th)); cur = th; } hook.on_statement(Some(&loc(k)), d); if delay_hook > 0 { std::thread::sleep(std::time::Duration::from_micros(delay_hook)); } } }
            done2.store(true, Ordering::SeqCst); });
        for _ in 0..rng.gen_range(0..10) {
            std::thread::sleep(std::time::Duration::from_micros(rng.gen_range(0..400)));
            let th = match rng.gen_range(0..3) { 0 => None, 1 => Some(1), _ => Some(2) };
            match rng.gen_range(0..7) { 0 => { control.apply_action(ControlAction::Pause(th)); } 1 => { control.apply_action(ControlAction::Continue); } 2 => { control.apply_action(ControlAction::StepIn(th)); }
                3 => { control.apply_action(ControlAction::StepOver(th)); } 4 => { control.apply_action(ControlAction::StepOut(th)); }
                _ => { let n = rng.gen_range(0..3); let mut ks: Vec<u32> = (1..=5).collect(); let mut bps = Vec::new(); for _ in 0..n { let i = rng.gen_range(0..ks.len()); bps.push(DebugBreakpoint::new(loc(ks.remove(i)))); } control.set_breakpoints_for_file(0, bps); } }
        }
        control.set_breakpoints_for_file(0, vec![]);
        let t0 = std::time::Instant::now();
        while !done.load(Ordering::SeqCst) { control.apply_action(ControlAction::Continue); std::thread::sleep(std::time::Duration::from_micros(300)); if t0.elapsed().as_secs() > 5 { wedges += 1; break; } }
        if done.load(Ordering::SeqCst) { t.join().unwrap(); }
        let all: Vec<String> = std::fs::read_to_string(log).unwrap_or_default().lines().map(|s| s.to_string()).collect();
        let mut evs = Vec::new(); parse(&all[consumed..], &mut evs); consumed = all.len();
        writeln!(out, "{}", json!({"a":"Reset"})).unwrap(); for e in evs { writeln!(out, "{e}").unwrap(); }
    }
    eprintln!("runs={runs} wedges={wedges}");
}
