---- MODULE SchedulerGen ----
EXTENDS Scheduler, TLC, Json
VARIABLES hist
gvars == <<svars, hist>>
Intervals == {0, 2, 3}
TaskOf(i, iv, sg, pr) == [name |-> "T" \o ToString(i), interval |-> iv, single |-> sg, prio |-> pr]
Configs == { <<TaskOf(0, a.iv, a.sg, a.pr), TaskOf(1, b.iv, b.sg, b.pr)>> :
             a \in [iv : Intervals, sg : {"", "s1"}, pr : {0, 1}], b \in [iv : Intervals, sg : {"", "s1"}, pr : {0, 1}] }
GInit == \E c \in Configs : SInitFor(c, {"s1"}) /\ hist = <<[a |-> "Reset", tasks |-> c, singles |-> <<"s1">>]>>
GNext == \/ \E dt \in {0, 1, 2, 5} : AdvanceClock(dt) /\ hist' = Append(hist, [a |-> "Advance", dt |-> dt])
         \/ \E b \in BOOLEAN : SetSingle("s1", b) /\ hist' = Append(hist, [a |-> "SetSingle", s |-> "s1", b |-> b])
         \/ Cycle /\ hist' = Append(hist, [a |-> "Cycle", exec |-> exec', over |-> overruns'])
GSpec == GInit /\ [][GNext]_gvars
Depth == 14
Emit == Len(hist) = Depth => PrintT(<<"SCRIPT", ToJson(hist)>>)
====
