use rand::{Rng, SeedableRng, rngs::StdRng};
use serde_json::json;
use std::io::Write;
use trust_runtime::harness::TestHarness;
use trust_runtime::value::{Duration, Value};

fn main() {
    let seed: u64 = std::env::args().nth(1).and_then(|s| s.parse().ok()).unwrap_or(1);
    let runs: usize = std::env::args().nth(2).and_then(|s| s.parse().ok()).unwrap_or(50);
    let mut rng = StdRng::seed_from_u64(seed);
    let mut out = std::io::BufWriter::new(std::fs::File::create("/tmp/proto/sched.ndjson").unwrap());
    for _ in 0..runs {
        let nt = rng.gen_range(1..=5);
        let singles = ["s1", "s2"];
        let mut tasks = Vec::new();
        for i in 0..nt {
            let interval = *[0, 0, 2, 3, 5, 10].get(rng.gen_range(0..6)).unwrap();
            let single = if rng.gen_bool(0.4) { singles[rng.gen_range(0..2)] } else { "" };
            let prio = rng.gen_range(0..3);
            tasks.push(json!({"name": format!("T{i}"), "interval": interval, "single": single, "prio": prio}));
        }
        let mut src = String::from("CONFIGURATION C\nVAR_GLOBAL\n s1 : BOOL := FALSE;\n s2 : BOOL := FALSE;\n elog : ARRAY[0..31] OF INT;\n lgn : INT := INT#0;\nEND_VAR\n");
        for t in &tasks {
            let mut parts = Vec::new();
            if t["single"].as_str().unwrap() != "" { parts.push(format!("SINGLE := {}", t["single"].as_str().unwrap())); }
            if t["interval"].as_i64().unwrap() > 0 || t["single"].as_str().unwrap() == "" { parts.push(format!("INTERVAL := T#{}ms", t["interval"])); }
            parts.push(format!("PRIORITY := {}", t["prio"]));
            src.push_str(&format!("TASK {} ({});\n", t["name"].as_str().unwrap(), parts.join(", ")));
        }
        for (i, t) in tasks.iter().enumerate() { src.push_str(&format!("PROGRAM I{i} WITH {} : P{i};\n", t["name"].as_str().unwrap())); }
        src.push_str("END_CONFIGURATION\n");
        for i in 0..nt { src.push_str(&format!("PROGRAM P{i}\nVAR_EXTERNAL elog : ARRAY[0..31] OF INT; lgn : INT; END_VAR\nelog[lgn] := INT#{i}; lgn := lgn + INT#1;\nEND_PROGRAM\n")); }
        let mut h = match TestHarness::from_source(&src) { Ok(h) => h, Err(e) => { eprintln!("COMPILE {e}\n{src}"); continue; } };
        writeln!(out, "{}", json!({"a":"Reset","tasks":tasks,"singles":singles})).unwrap();
        for _ in 0..rng.gen_range(3..10) {
            if rng.gen_bool(0.8) { let dt = *[0, 1, 2, 3, 5, 7, 13, 30].get(rng.gen_range(0..8)).unwrap(); h.advance_time(Duration::from_millis(dt)); writeln!(out, "{}", json!({"a":"Advance","dt":dt})).unwrap(); }
            if rng.gen_bool(0.5) { let s = singles[rng.gen_range(0..2)]; let b = rng.gen_bool(0.5); h.set_input(s, Value::Bool(b)); writeln!(out, "{}", json!({"a":"SetSingle","s":s,"b":b})).unwrap(); }
            h.set_input("lgn", Value::Int(0));
            let r = h.cycle();
            assert!(r.errors.is_empty(), "{:?}", r.errors);
            let n = match h.get_output("lgn") { Some(Value::Int(n)) => n as usize, o => panic!("{o:?}") };
            let exec: Vec<String> = match h.get_output("elog") { Some(Value::Array(a)) => a.elements.iter().take(n).map(|v| match v { Value::Int(i) => format!("T{i}"), o => format!("{o:?}") }).collect(), _ => vec![] };
            let over: Vec<u64> = (0..nt).map(|i| h.runtime().task_overrun_count(&format!("T{i}")).unwrap()).collect();
            writeln!(out, "{}", json!({"a":"Cycle","exec":exec,"over":over})).unwrap();
        }
    }
}
