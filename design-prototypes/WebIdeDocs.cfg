SPECIFICATION Spec
CONSTANTS
  Sessions = {"a", "b", "c"}
  MaxOps = 9
INVARIANTS DiskIsLastSuccess
PROPERTIES NoLostUpdate VersionsGrow
CHECK_DEADLOCK FALSE
