SPECIFICATION Spec
INVARIANT Done
POSTCONDITION Accepted
CHECK_DEADLOCK FALSE
