use trust_runtime::harness::bytecode_bytes_from_source;
fn main() {
    // many names: POUs, types, methods, strings
    let mut src = String::new();
    for i in 0..30 { src.push_str(&format!("TYPE S{i} : STRUCT f{i} : INT; g{i} : ARRAY[0..2] OF BOOL; END_STRUCT END_TYPE\n")); }
    for i in 0..30 { src.push_str(&format!("FUNCTION_BLOCK FB{i}\nVAR_INPUT a{i} : INT; END_VAR\nVAR_OUTPUT o{i} : INT; END_VAR\nVAR s : S{i}; END_VAR\nMETHOD PUBLIC M{i} : INT\nVAR_INPUT p : INT; END_VAR\nM{i} := p + INT#{i};\nEND_METHOD\no{i} := a{i} + s.f{i};\nEND_FUNCTION_BLOCK\n")); }
    for i in 0..30 { src.push_str(&format!("FUNCTION Fn{i} : INT\nVAR_INPUT x : INT; END_VAR\nFn{i} := x * INT#{i};\nEND_FUNCTION\n")); }
    src.push_str("PROGRAM Main\nVAR\n");
    for i in 0..30 { src.push_str(&format!("  inst{i} : FB{i}; v{i} : INT; str{i} : STRING := 'text {i}';\n")); }
    src.push_str("END_VAR\n");
    for i in 0..30 { src.push_str(&format!("inst{i}(a{i} := v{i}, o{i} => v{i}); v{i} := Fn{i}(x := v{i}) + inst{i}.M{i}(p := INT#1);\n")); }
    src.push_str("END_PROGRAM\n");
    match bytecode_bytes_from_source(&src) { Ok(b) => { let h = b.iter().fold(0xcbf29ce484222325u64, |h, x| (h ^ *x as u64).wrapping_mul(0x100000001b3)); println!("{} bytes hash {h:016x}", b.len()); } Err(e) => println!("compile error: {}", e.to_string().lines().next().unwrap_or("")) }
}
