---- MODULE SchedulerTrace ----
EXTENDS Scheduler, TLC, Json, IOUtils
Rec == ndJsonDeserialize(IOEnv.TRACE)
VARIABLES l
vars == <<l, svars>>
SetOf(seq) == {seq[i] : i \in DOMAIN seq}
Init == l = 1 /\ Rec[1].a = "Reset" /\ SInitFor(Rec[1].tasks, SetOf(Rec[1].singles))
IsEv(a) == l < Len(Rec) /\ Rec[l + 1].a = a /\ l' = l + 1
E == Rec[l + 1]
Reset   == IsEv("Reset") /\ Tasks' = E.tasks /\ Singles' = SetOf(E.singles) /\ now' = 0
           /\ g' = [s \in SetOf(E.singles) |-> FALSE]
           /\ lastAct' = [t \in 1..Len(E.tasks) |-> 0] /\ lastSingle' = [t \in 1..Len(E.tasks) |-> FALSE]
           /\ overruns' = [t \in 1..Len(E.tasks) |-> 0] /\ exec' = <<>>
Advance == IsEv("Advance") /\ AdvanceClock(E.dt)
SetS    == IsEv("SetSingle") /\ SetSingle(E.s, E.b)
Cyc     == IsEv("Cycle") /\ Cycle
           /\ exec' = E.exec
           /\ \A t \in 1..Len(Tasks) : overruns'[t] = E.over[t]
Next == Reset \/ Advance \/ SetS \/ Cyc
Spec == Init /\ [][Next]_vars
Accepted == IF TLCGet("stats").diameter = Len(Rec) THEN TRUE
            ELSE Print(<<"REJECT first unmatched event index", TLCGet("stats").diameter + 1>>, FALSE)
====
