import json, subprocess, sys, time, threading
p = subprocess.Popen(["/repo/target/debug/trust-lsp"], stdin=subprocess.PIPE, stdout=subprocess.PIPE, stderr=subprocess.DEVNULL)
def send(msg):
    b = json.dumps(msg).encode()
    p.stdin.write(b"Content-Length: %d\r\n\r\n" % len(b) + b); p.stdin.flush()
def recv():
    hdr = b""
    while not hdr.endswith(b"\r\n\r\n"):
        c = p.stdout.read(1)
        if not c: return None
        hdr += c
    n = int([l for l in hdr.split(b"\r\n") if l.lower().startswith(b"content-length")][0].split(b":")[1])
    return json.loads(p.stdout.read(n))
def request(id, method, params):
    send({"jsonrpc":"2.0","id":id,"method":method,"params":params})
    while True:
        m = recv()
        if m is None: return None
        if m.get("id") == id and "method" not in m: return m
        if "method" in m and "id" in m:  # server->client request
            send({"jsonrpc":"2.0","id":m["id"],"result":None})
t0=time.time()
r = request(1, "initialize", {"processId": None, "rootUri": None, "capabilities": {}})
print("init ok", list(r["result"]["capabilities"].keys())[:5], "%.2fs"%(time.time()-t0))
send({"jsonrpc":"2.0","method":"initialized","params":{}})
uri = "file:///tmp/scratch/x.st"
text = "PROGRAM P\nVAR x : INT; END_VAR\n(* \U0001F600 *) x:=1;\nEND_PROGRAM\n"
send({"jsonrpc":"2.0","method":"textDocument/didOpen","params":{"textDocument":{"uri":uri,"languageId":"st","version":1,"text":text}}})
# edit after emoji on line 2: editor (UTF-16) columns: "(* " =3, emoji=2 units -> col 5, " *) " -> col 9 ; insert "y" before "x:=1" at utf16 col 9
send({"jsonrpc":"2.0","method":"textDocument/didChange","params":{"textDocument":{"uri":uri,"version":2},"contentChanges":[{"range":{"start":{"line":2,"character":9},"end":{"line":2,"character":9}},"text":"y"}]}})
r = request(2, "textDocument/formatting", {"textDocument":{"uri":uri},"options":{"tabSize":4,"insertSpaces":True}})
print(json.dumps(r.get("result"), ensure_ascii=False)[:400])
print("total %.2fs"%(time.time()-t0))
p.kill()
