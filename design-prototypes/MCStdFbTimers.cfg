SPECIFICATION Spec
CONSTANTS
  DTs <- MCDTs
  PTs <- MCPTs
  MaxLen = 5
INVARIANTS TonRefines TofRefines TpRefines
CHECK_DEADLOCK FALSE
