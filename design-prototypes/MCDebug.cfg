SPECIFICATION Spec
CONSTANTS
  Prog <- MCProg
  Threads = {1, 2}
  BpLocs = {2, 4}
  MaxCmds = 5
  MaxCycles = 2
INVARIANTS TypeOK Transparent
PROPERTIES OneStopPerPause StepDepth NoWedge
CHECK_DEADLOCK FALSE
