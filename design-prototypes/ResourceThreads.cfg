SPECIFICATION Spec
CONSTANTS
  Res = {"r1", "r2"}
  MaxCycles = 2
  MaxCmds = 4
  Interval = 1
INVARIANTS NoLostUpdate PausedMeansNoExec StopSavesOnce
PROPERTIES StopTerminates
CHECK_DEADLOCK FALSE
