---- MODULE MCDocSync ----
EXTENDS DocSync
MCAlphabet == {[c |-> "a", w |-> 1], [c |-> "e_acute", w |-> 1], [c |-> "emoji", w |-> 2], [c |-> "nl", w |-> 1], [c |-> "cr", w |-> 1]}
View == <<text, nedits>>
====
