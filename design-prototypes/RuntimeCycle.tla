------------------------------ MODULE RuntimeCycle ------------------------------
(* One scan cycle of a resource: driver reads -> latch -> ready tasks -> background        *)
(* programs -> publish -> driver writes, with a fault possible in every phase, the fault   *)
(* latch, fault policy / safe state. Phases are pure operators on a state record so that   *)
(* the fine-grained model (fault between any two phases) and the trace specification's     *)
(* single Cycle step share one definition.                                                 *)
EXTENDS Integers, Sequences, FiniteSets, SequencesExt, TLC

\* ----------------------------------- bytes -----------------------------------
Pow2(n) == CASE n = 0 -> 1 [] n = 1 -> 2 [] n = 2 -> 4 [] n = 3 -> 8 [] n = 4 -> 16 [] n = 5 -> 32 [] n = 6 -> 64 [] n = 7 -> 128
SizeBytes(sz) == CASE sz = "X" -> 1 [] sz = "B" -> 1 [] sz = "W" -> 2 [] sz = "D" -> 4 [] sz = "L" -> 8
\* images are 1-based sequences; byte offset b is index b + 1
GetBit(img, b, k) == (img[b + 1] \div Pow2(k)) % 2
SetBit(img, b, k, v) == [img EXCEPT ![b + 1] = @ - GetBit(img, b, k) * Pow2(k) + v * Pow2(k)]
Decode(img, a) == IF a.size = "X" THEN <<GetBit(img, a.byte, a.bit)>>
                  ELSE SubSeq(img, a.byte + 1, a.byte + SizeBytes(a.size))
Encode(img, a, val) == IF a.size = "X" THEN SetBit(img, a.byte, a.bit, val[1])
                       ELSE [i \in DOMAIN img |-> IF i > a.byte /\ i <= a.byte + SizeBytes(a.size) THEN val[i - a.byte] ELSE img[i]]

\* ----------------------------------- state -----------------------------------
\* cfg: [tasks, programs, bindings, drivers, policy, safe]
\*   tasks[i]    = [name, interval, single, prio]
\*   programs[j] = [name, task ("" = background), copies = << [from, to] >>]     declaration order
\*   bindings[k] = [var, area, size, byte, bit]
\*   drivers[d]  = [off, len]        (input bytes the driver owns)
\*   safe[m]     = [addr |-> [area, size, byte, bit], val]
\* s:   [now, g, lastAct, lastSingle, overruns, img, vars, src, drvLog, exec, faulted, fault, inj, drvFail]

VARIABLES cfg, s
rvars == <<cfg, s>>
TIdx == 1..Len(cfg.tasks)

Fresh(c, imgLen, vars0, gs) ==
  [now |-> 0, g |-> [x \in gs |-> FALSE],
   lastAct |-> [t \in 1..Len(c.tasks) |-> 0], lastSingle |-> [t \in 1..Len(c.tasks) |-> FALSE],
   overruns |-> [t \in 1..Len(c.tasks) |-> 0],
   img |-> [I |-> [i \in 1..imgLen |-> 0], Q |-> [i \in 1..imgLen |-> 0], M |-> [i \in 1..imgLen |-> 0]],
   vars |-> vars0, src |-> [d \in 1..Len(c.drivers) |-> [i \in 1..c.drivers[d].len |-> 0]],
   drvLog |-> <<>>, exec |-> <<>>, faulted |-> FALSE, fault |-> "none",
   inj |-> [prog |-> "", at |-> 0], drvFail |-> [d |-> 0, op |-> ""]]

\* ------------------------------- scheduling (C06) -------------------------------
HasSingle(t)   == cfg.tasks[t].single # ""
SingleNow(x, t)   == HasSingle(t) /\ x.g[cfg.tasks[t].single]
EventDue(x, t)    == SingleNow(x, t) /\ ~x.lastSingle[t]
PeriodicDue(x, t) == cfg.tasks[t].interval > 0 /\ ~SingleNow(x, t) /\ x.now - x.lastAct[t] >= cfg.tasks[t].interval
DueAt(x, t)       == IF EventDue(x, t) THEN x.now ELSE x.lastAct[t] + cfg.tasks[t].interval
Before(x, a, b)   == LET pa == cfg.tasks[a].prio pb == cfg.tasks[b].prio da == DueAt(x, a) db == DueAt(x, b) IN
                       pa < pb \/ (pa = pb /\ da < db) \/ (pa = pb /\ da = db /\ a < b)
Ready(x)          == {t \in TIdx : EventDue(x, t) \/ PeriodicDue(x, t)}
Order(x)          == SortSeq(SetToSeq(Ready(x)), LAMBDA a, b : Before(x, a, b))
Missed(x, t)      == IF PeriodicDue(x, t) /\ (x.now - x.lastAct[t]) \div cfg.tasks[t].interval > 1
                     THEN (x.now - x.lastAct[t]) \div cfg.tasks[t].interval - 1 ELSE 0
Collect(x) == [x EXCEPT !.overruns = [t \in TIdx |-> x.overruns[t] + Missed(x, t)],
                        !.lastAct = [t \in TIdx |-> IF PeriodicDue(x, t) THEN x.now ELSE x.lastAct[t]],
                        !.lastSingle = [t \in TIdx |-> SingleNow(x, t)]]

\* --------------------------------- faults (C08) ---------------------------------
RECURSIVE ApplySafe(_, _)
ApplySafe(q, m) == IF m > Len(cfg.safe) THEN q ELSE ApplySafe(Encode(q, cfg.safe[m].addr, cfg.safe[m].val), m + 1)
SafeWrites(x, q) == [d \in 1..Len(cfg.drivers) |-> <<d, "write", q>>]
RaiseFault(x, kind) ==
  IF cfg.policy = "safe_halt"
  THEN LET q == ApplySafe(x.img.Q, 1) IN
       [x EXCEPT !.img.Q = q, !.drvLog = x.drvLog \o SafeWrites(x, q), !.faulted = TRUE, !.fault = kind]
  ELSE [x EXCEPT !.faulted = TRUE, !.fault = kind]

\* ------------------------------ process image (C07) ------------------------------
RECURSIVE ReadDrivers(_, _)
ReadDrivers(x, d) ==
  IF d > Len(cfg.drivers) THEN x
  ELSE LET dr == cfg.drivers[d]
           inp == [i \in DOMAIN x.img.I |-> IF i > dr.off /\ i <= dr.off + dr.len THEN x.src[d][i - dr.off] ELSE x.img.I[i]]
           x1 == [x EXCEPT !.img.I = inp, !.drvLog = Append(x.drvLog, <<d, "read">>)]
       IN IF x.drvFail.d = d /\ x.drvFail.op = "read" THEN [x1 EXCEPT !.fault = "pending:DriverRead"]
          ELSE ReadDrivers(x1, d + 1)
RECURSIVE Latch(_, _)
Latch(x, k) ==
  IF k > Len(cfg.bindings) THEN x
  ELSE LET b == cfg.bindings[k] IN
       IF b.area \in {"I", "M"} THEN Latch([x EXCEPT !.vars[b.var] = Decode(x.img[b.area], b)], k + 1) ELSE Latch(x, k + 1)
RECURSIVE Publish(_, _)
Publish(x, k) ==
  IF k > Len(cfg.bindings) THEN x
  ELSE LET b == cfg.bindings[k] IN
       IF b.area \in {"Q", "M"} THEN Publish([x EXCEPT !.img[b.area] = Encode(x.img[b.area], b, x.vars[b.var])], k + 1) ELSE Publish(x, k + 1)
RECURSIVE WriteDrivers(_, _)
WriteDrivers(x, d) ==
  IF d > Len(cfg.drivers) THEN x
  ELSE LET x1 == [x EXCEPT !.drvLog = Append(x.drvLog, <<d, "write", x.img.Q>>)] IN
       IF x.drvFail.d = d /\ x.drvFail.op = "write" THEN [x1 EXCEPT !.fault = "pending:DriverWrite"]
       ELSE WriteDrivers(x1, d + 1)

\* ---------------------------------- programs ----------------------------------
\* a program copies bound variables in order; the injected fault strikes before copy number inj.at
RECURSIVE RunCopies(_, _, _)
RunCopies(x, p, i) ==
  IF x.inj.prog = p.name /\ x.inj.at = i THEN [x EXCEPT !.fault = "pending:DivisionByZero"]
  ELSE IF i > Len(p.copies) THEN x
  ELSE RunCopies([x EXCEPT !.vars[p.copies[i].to] = x.vars[p.copies[i].from]], p, i + 1)
RunProgram(x, p) == RunCopies([x EXCEPT !.exec = Append(x.exec, p.name)], p, 1)
Pending(x) == x.fault # "none" /\ ~x.faulted
RECURSIVE RunProgs(_, _, _)
\* run the programs (declaration order) selected by pred, stopping at the first fault
RunProgs(x, j, sel) ==
  IF j > Len(cfg.programs) \/ Pending(x) THEN x
  ELSE IF sel[j] THEN RunProgs(RunProgram(x, cfg.programs[j]), j + 1, sel) ELSE RunProgs(x, j + 1, sel)
RECURSIVE RunTasks(_, _, _)
RunTasks(x, ord, i) ==
  IF i > Len(ord) \/ Pending(x) THEN x
  ELSE RunTasks(RunProgs(x, 1, [j \in 1..Len(cfg.programs) |-> cfg.programs[j].task = cfg.tasks[ord[i]].name]), ord, i + 1)

\* ---------------------------------- one cycle ----------------------------------
Settle(x) == IF Pending(x) THEN RaiseFault(x, x.fault) ELSE x
CycleOf(x0) ==
  IF x0.faulted THEN [x0 EXCEPT !.exec = <<>>]                                   \* refused: nothing changes
  ELSE LET x  == [x0 EXCEPT !.exec = <<>>, !.drvLog = <<>>]
           a  == ReadDrivers(x, 1)                                                IN IF Pending(a) THEN Settle(a) ELSE
       LET b  == Latch(a, 1)
           ord == Order(b)
           c  == Collect(b)
           d  == RunTasks(c, ord, 1)                                              IN IF Pending(d) THEN Settle(d) ELSE
       LET e  == RunProgs(d, 1, [j \in 1..Len(cfg.programs) |-> cfg.programs[j].task = ""]) IN IF Pending(e) THEN Settle(e) ELSE
       LET f  == Publish(e, 1)
           g2 == WriteDrivers(f, 1)                                               IN Settle(g2)

\* environment actions
Advance(dt)      == s' = [s EXCEPT !.now = @ + dt] /\ UNCHANGED cfg
SetSingle(v, b)  == s' = [s EXCEPT !.g[v] = b] /\ UNCHANGED cfg
SetSrc(d, bytes) == s' = [s EXCEPT !.src[d] = bytes] /\ UNCHANGED cfg
Inject(p, at)    == s' = [s EXCEPT !.inj = [prog |-> p, at |-> at]] /\ UNCHANGED cfg
FailDriver(d, op) == s' = [s EXCEPT !.drvFail = [d |-> d, op |-> op]] /\ UNCHANGED cfg
Cycle            == s' = CycleOf(s) /\ UNCHANGED cfg
=================================================================================
