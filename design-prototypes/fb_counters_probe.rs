use trust_runtime::harness::TestHarness;
use trust_runtime::value::Value;
fn main() {
    let src = "PROGRAM P\nVAR\n  c : CTU; d : CTD; u : CTUD; rt : R_TRIG; ft : F_TRIG; sr : SR; rs : RS;\n  x : BOOL; r : BOOL; pv : INT := INT#2;\n  cq : BOOL; ccv : INT; dq : BOOL; dcv : INT; uqu : BOOL; uqd : BOOL; ucv : INT; rq : BOOL; fq : BOOL; sq : BOOL; rsq : BOOL;\nEND_VAR\nc(CU := x, R := r, PV := pv, Q => cq, CV => ccv);\nd(CD := x, LD := r, PV := pv, Q => dq, CV => dcv);\nu(CU := x, CD := r, R := FALSE, LD := FALSE, PV := pv, QU => uqu, QD => uqd, CV => ucv);\nrt(CLK := x, Q => rq);\nft(CLK := x, Q => fq);\nsr(S1 := x, R := r, Q1 => sq);\nrs(S := x, R1 := r, Q1 => rsq);\nEND_PROGRAM\n";
    let mut h = match TestHarness::from_source(src) { Ok(h) => h, Err(e) => { println!("COMPILE: {e}"); return; } };
    for (x, r) in [(false, false), (true, false), (true, false), (false, false), (true, false), (false, true), (true, true), (false, false)] {
        h.set_input("x", Value::Bool(x)); h.set_input("r", Value::Bool(r));
        let res = h.cycle();
        let g = |n: &str| format!("{n}={:?}", h.get_output(n).unwrap());
        println!("x={x} r={r} err={:?} {} {} {} {} {} {} {} {} {} {} {}", res.errors, g("cq"), g("ccv"), g("dq"), g("dcv"), g("uqu"), g("uqd"), g("ucv"), g("rq"), g("fq"), g("sq"), g("rsq"));
    }
}
