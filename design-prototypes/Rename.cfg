SPECIFICATION Spec
CONSTANTS
  Scopes = {0, 1, 2}
  Root = 0
  Names = {"a", "b", "c"}
  MaxDecls = 3
  MaxRefs = 2
INVARIANT SafeIsExact
CHECK_DEADLOCK FALSE
