------------------------------- MODULE Scheduler -------------------------------
(* IEC 61131-3 task model as stated by property C06, evaluated once per scan cycle. *)
EXTENDS Integers, Sequences, FiniteSets, SequencesExt, Functions

VARIABLES Tasks,      \* static config: sequence of [name, interval, single, prio] (single = "" for none), declaration order
          Singles,    \* static config: set of SINGLE variable names
          now, g, lastAct, lastSingle, overruns, exec

svars == <<Tasks, Singles, now, g, lastAct, lastSingle, overruns, exec>>
TIdx == 1..Len(Tasks)

SInitFor(ts, ss) ==
  /\ Tasks = ts /\ Singles = ss
  /\ now = 0 /\ g = [s \in ss |-> FALSE]
  /\ lastAct = [t \in 1..Len(ts) |-> 0] /\ lastSingle = [t \in 1..Len(ts) |-> FALSE]
  /\ overruns = [t \in 1..Len(ts) |-> 0] /\ exec = <<>>

HasSingle(t)   == Tasks[t].single # ""
SingleNow(t)   == HasSingle(t) /\ g[Tasks[t].single]
EventDue(t)    == SingleNow(t) /\ ~lastSingle[t]
PeriodicDue(t) == Tasks[t].interval > 0 /\ ~SingleNow(t) /\ now - lastAct[t] >= Tasks[t].interval
Due(t)         == EventDue(t) \/ PeriodicDue(t)
DueAt(t)       == IF EventDue(t) THEN now ELSE lastAct[t] + Tasks[t].interval
Key(t)         == <<Tasks[t].prio, DueAt(t), t>>
Before(a, b)   == LET ka == Key(a) kb == Key(b) IN
                    \/ ka[1] < kb[1]
                    \/ ka[1] = kb[1] /\ ka[2] < kb[2]
                    \/ ka[1] = kb[1] /\ ka[2] = kb[2] /\ ka[3] < kb[3]
Ready          == {t \in TIdx : Due(t)}
Order          == SortSeq(SetToSeq(Ready), Before)
Missed(t)      == IF PeriodicDue(t) /\ (now - lastAct[t]) \div Tasks[t].interval > 1
                  THEN (now - lastAct[t]) \div Tasks[t].interval - 1 ELSE 0

AdvanceClock(dt) == now' = now + dt /\ UNCHANGED <<Tasks, Singles, g, lastAct, lastSingle, overruns, exec>>
SetSingle(s, b)  == g' = [g EXCEPT ![s] = b] /\ UNCHANGED <<Tasks, Singles, now, lastAct, lastSingle, overruns, exec>>
Cycle ==
  /\ exec' = [i \in 1..Len(Order) |-> Tasks[Order[i]].name]
  /\ overruns' = [t \in TIdx |-> overruns[t] + Missed(t)]
  /\ lastAct' = [t \in TIdx |-> IF PeriodicDue(t) THEN now ELSE lastAct[t]]
  /\ lastSingle' = [t \in TIdx |-> SingleNow(t)]
  /\ UNCHANGED <<Tasks, Singles, now, g>>
=================================================================================
