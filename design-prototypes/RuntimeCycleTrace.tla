---- MODULE RuntimeCycleTrace ----
EXTENDS RuntimeCycle, Json, IOUtils
Rec == ndJsonDeserialize(IOEnv.TRACE)
VARIABLES l, run, bad
tvars == <<l, run, bad, rvars>>
E == Rec[l + 1]
More == l < Len(Rec)
SetOf(q) == {q[i] : i \in DOMAIN q}
FreshFrom(r) == Fresh(r.cfg, r.imgLen, r.vars0, SetOf(r.singles))
Init == l = 1 /\ run = 1 /\ bad = {} /\ Rec[1].a = "Reset" /\ cfg = Rec[1].cfg /\ s = FreshFrom(Rec[1])
Reset == More /\ E.a = "Reset" /\ l' = l + 1 /\ run' = run + 1 /\ cfg' = E.cfg /\ s' = FreshFrom(E) /\ bad' = bad
Env == /\ More /\ l' = l + 1 /\ UNCHANGED <<run, bad>>
       /\ \/ E.a = "Advance" /\ Advance(E.dt)
          \/ E.a = "SetSingle" /\ SetSingle(E.s, E.b)
          \/ E.a = "SetSrc" /\ SetSrc(E.d, E.bytes)
          \/ E.a = "Inject" /\ Inject(E.prog, E.at)
          \/ E.a = "FailDriver" /\ FailDriver(E.d, E.op)
ResOf(x0, x) == IF x0.faulted THEN "refused" ELSE IF x.faulted THEN "fault" ELSE "ok"
Cyc == /\ More /\ E.a = "Cycle" /\ l' = l + 1 /\ run' = run /\ cfg' = cfg
       /\ LET x == CycleOf(s)
              ok == /\ E.res = ResOf(s, x)
                    /\ E.exec = x.exec
                    /\ \A t \in TIdx : E.over[t] = x.overruns[t]
                    /\ E.img.I = x.img.I /\ E.img.Q = x.img.Q /\ E.img.M = x.img.M
                    /\ \A v \in DOMAIN x.vars : E.vars[v] = x.vars[v]
                    /\ (E.res # "refused" => E.drv = x.drvLog)
                    /\ E.faulted = x.faulted
          IN /\ bad' = IF ok THEN bad ELSE bad \cup {<<run, l + 1>>}
             /\ s' = x
Next == Reset \/ Env \/ Cyc
Spec == Init /\ [][Next]_tvars
Done == l = Len(Rec) => PrintT(<<"RESULT runs", run, "bad", bad>>)
Accepted == TLCGet("stats").diameter = Len(Rec)
====
