use std::collections::VecDeque;
use std::io::{BufRead, BufReader, Write};
use std::os::unix::net::UnixStream;
use std::path::PathBuf;
use std::sync::atomic::AtomicBool;
use std::sync::{Arc, Mutex};
use indexmap::IndexMap;
use serde_json::json;
use smol_str::SmolStr;
use trust_runtime::config::ControlMode;
use trust_runtime::control::{ControlEndpoint, ControlServer, ControlState, HmiRuntimeDescriptor, SourceFile, SourceRegistry};
use trust_runtime::debug::DebugVariableHandles;
use trust_runtime::harness::TestHarness;
use trust_runtime::metrics::RuntimeMetrics;
use trust_runtime::scheduler::{ResourceCommand, ResourceControl, StdClock};
use trust_runtime::settings::{BaseSettings, DiscoverySettings, MeshSettings, RuntimeSettings, SimulationSettings, WebSettings};
use trust_runtime::watchdog::{FaultPolicy, RetainMode, WatchdogPolicy};

fn settings() -> RuntimeSettings {
    RuntimeSettings::new(
        BaseSettings { log_level: "info".into(), watchdog: WatchdogPolicy::default(), fault_policy: FaultPolicy::SafeHalt, retain_mode: RetainMode::None, retain_save_interval: None },
        WebSettings { enabled: true, listen: "127.0.0.1:0".into(), auth: "local".into(), tls: false },
        DiscoverySettings { enabled: false, service_name: "truST".into(), advertise: false, interfaces: Vec::new() },
        MeshSettings { enabled: false, listen: "127.0.0.1:0".into(), tls: false, auth_token: None, publish: Vec::new(), subscribe: IndexMap::new() },
        SimulationSettings { enabled: false, time_scale: 1, mode_label: "production".into(), warning: "".into() })
}
fn main() {
    let source = "PROGRAM P VAR x : INT; END_VAR x := x + INT#1; END_PROGRAM";
    let mut harness = TestHarness::from_source(source).unwrap();
    let debug = harness.runtime_mut().enable_debug();
    harness.cycle();
    let snapshot = trust_runtime::debug::DebugSnapshot { storage: harness.runtime().storage().clone(), now: harness.runtime().current_time() };
    let (resource, cmd_rx) = ResourceControl::stub(StdClock::new());
    let cmds = Arc::new(Mutex::new(Vec::<String>::new()));
    let cmds2 = cmds.clone();
    std::thread::spawn(move || { while let Ok(c) = cmd_rx.recv() { cmds2.lock().unwrap().push(format!("{c:?}").split(|ch: char| !ch.is_alphanumeric()).next().unwrap().to_string());
        match c { ResourceCommand::Snapshot { respond_to } => { let _ = respond_to.send(snapshot.clone()); } ResourceCommand::MeshSnapshot { respond_to, .. } => { let _ = respond_to.send(IndexMap::new()); }
                  ResourceCommand::ReloadBytecode { respond_to, .. } => { let _ = respond_to.send(Err(trust_runtime::error::RuntimeError::ControlError("unsupported".into()))); } _ => {} } } });
    let sources = SourceRegistry::new(vec![SourceFile { id: 1, path: PathBuf::from("main.st"), text: source.to_string() }]);
    let hmi_descriptor = Arc::new(Mutex::new(HmiRuntimeDescriptor::from_sources(None, &sources)));
    let state = Arc::new(ControlState { debug, resource, metadata: Arc::new(Mutex::new(harness.runtime().metadata_snapshot())), sources, io_snapshot: Arc::new(Mutex::new(None)),
        pending_restart: Arc::new(Mutex::new(None)), auth_token: Arc::new(Mutex::new(Some(SmolStr::new("secret")))), control_requires_auth: true, control_mode: Arc::new(Mutex::new(ControlMode::Debug)),
        audit_tx: None, metrics: Arc::new(Mutex::new(RuntimeMetrics::default())), events: Arc::new(Mutex::new(VecDeque::new())), settings: Arc::new(Mutex::new(settings())), project_root: None,
        resource_name: "RESOURCE".into(), io_health: Arc::new(Mutex::new(Vec::new())), debug_enabled: Arc::new(AtomicBool::new(true)), debug_variables: Arc::new(Mutex::new(DebugVariableHandles::new())),
        hmi_live: Arc::new(Mutex::new(trust_runtime::hmi::HmiLiveState::default())), hmi_descriptor, historian: None, pairing: None });
    let sock = PathBuf::from("/tmp/scratch/ctl.sock"); let _ = std::fs::remove_file(&sock);
    let _server = ControlServer::start(ControlEndpoint::Unix(sock.clone()), state.clone()).unwrap();
    std::thread::sleep(std::time::Duration::from_millis(100));
    let stream = UnixStream::connect(&sock).unwrap();
    let mut w = stream.try_clone().unwrap(); let mut r = BufReader::new(stream);
    let mut ask = |req: serde_json::Value| -> String { writeln!(w, "{}", req).unwrap(); let mut line = String::new(); r.read_line(&mut line).unwrap(); line.trim().chars().take(110).collect() };
    // candidate request types from string literals in the handlers
    let mut cands = std::collections::BTreeSet::new();
    for f in ["control.rs", "control/handlers/status.rs", "control/handlers/io.rs", "control/handlers/debug.rs", "control/handlers/variables.rs", "control/handlers/program.rs"] {
        let text = std::fs::read_to_string(format!("/repo/crates/trust-runtime/src/{f}")).unwrap();
        let mut rest = text.as_str();
        while let Some(i) = rest.find('"') { let t = &rest[i + 1..]; if let Some(j) = t.find('"') { let lit = &t[..j]; if !lit.is_empty() && lit.len() < 40 && lit.chars().all(|c| c.is_ascii_lowercase() || c == '.' || c == '_') { cands.insert(lit.to_string()); } rest = &t[j + 1..]; } else { break; } }
    }
    println!("candidates: {}", cands.len());
    let mut known = Vec::new();
    for (i, c) in cands.iter().enumerate() {
        let resp = ask(json!({"id": i, "type": c, "auth": "secret"}));
        if !resp.contains("unsupported request") { known.push(c.clone()); }
    }
    println!("known to dispatcher: {} {:?}", known.len(), known);
    println!("no auth status -> {}", ask(json!({"id": 1, "type": "status"})));
    println!("wrong auth pause -> {}", ask(json!({"id": 1, "type": "pause", "auth": "nope"})));
    println!("garbage -> {}", ask(json!([1,2,3])));
    println!("cmds seen: {:?}", cmds.lock().unwrap());
}
