---- MODULE MCDebug ----
EXTENDS DebugControl
MCProg == << [loc |-> 1, depth |-> 0, th |-> 1], [loc |-> 2, depth |-> 1, th |-> 1],
             [loc |-> 3, depth |-> 0, th |-> 1], [loc |-> 4, depth |-> 0, th |-> 2],
             [loc |-> 5, depth |-> 1, th |-> 2] >>
View == <<mode, pending, step, target, cur, lastDepth, lastDepths, bps, pc, ip, cycle, ncmd, stepOrigin, Len(stops), Len(executed)>>
====
