SPECIFICATION GSpec
INVARIANT Emit
CHECK_DEADLOCK FALSE
