use rand::{Rng, SeedableRng, rngs::StdRng};
use serde_json::{json, Value as J};
use std::io::Write;
use std::sync::{Arc, Mutex};
use trust_runtime::error::RuntimeError;
use trust_runtime::harness::TestHarness;
use trust_runtime::io::{IoDriver, IoSafeState, IoAddress};
use trust_runtime::value::{Duration, Value};
use trust_runtime::watchdog::FaultPolicy;

const IMG: usize = 6;
struct Shared { log: Vec<J>, src: Vec<Vec<u8>>, fail: (usize, String) }
struct Drv { id: usize, off: usize, len: usize, sh: Arc<Mutex<Shared>> }
impl IoDriver for Drv {
    fn read_inputs(&mut self, inputs: &mut [u8]) -> Result<(), RuntimeError> {
        let mut sh = self.sh.lock().unwrap();
        for i in 0..self.len { inputs[self.off + i] = sh.src[self.id - 1][i]; }
        sh.log.push(json!([self.id, "read"]));
        if sh.fail == (self.id, "read".to_string()) { return Err(RuntimeError::ControlError("drv read".into())); }
        Ok(())
    }
    fn write_outputs(&mut self, outputs: &[u8]) -> Result<(), RuntimeError> {
        let mut sh = self.sh.lock().unwrap();
        sh.log.push(json!([self.id, "write", outputs.to_vec()]));
        if sh.fail == (self.id, "write".to_string()) { return Err(RuntimeError::ControlError("drv write".into())); }
        Ok(())
    }
}
fn ty(sz: &str) -> &'static str { match sz { "X" => "BOOL", "B" => "BYTE", "W" => "WORD", _ => "DWORD" } }
fn nbytes(sz: &str) -> usize { match sz { "X" | "B" => 1, "W" => 2, _ => 4 } }
fn addr(area: &str, sz: &str, byte: usize, bit: usize) -> String { if sz == "X" { format!("%{area}X{byte}.{bit}") } else { format!("%{area}{sz}{byte}") } }
fn bytes_of(v: &Value) -> Vec<u8> { match v { Value::Bool(b) => vec![*b as u8], Value::Byte(b) => vec![*b], Value::Word(w) => w.to_le_bytes().to_vec(), Value::DWord(w) => w.to_le_bytes().to_vec(), o => panic!("{o:?}") } }

fn main() {
    let seed: u64 = std::env::args().nth(1).and_then(|s| s.parse().ok()).unwrap_or(1);
    let runs: usize = std::env::args().nth(2).and_then(|s| s.parse().ok()).unwrap_or(50);
    let mut rng = StdRng::seed_from_u64(seed);
    let mut out = std::io::BufWriter::new(std::fs::File::create("/tmp/proto/rc.ndjson").unwrap());
    let singles = ["s1", "s2"];
    for _ in 0..runs {
        let nt = rng.gen_range(0..=3); let np = rng.gen_range(1..=4);
        let mut tasks = Vec::new();
        for i in 0..nt { let interval = [0, 2, 3, 5][rng.gen_range(0..4)]; let single = if rng.gen_bool(0.4) { singles[rng.gen_range(0..2)] } else { "" };
            tasks.push(json!({"name": format!("T{i}"), "interval": interval, "single": single, "prio": rng.gen_range(0..2)})); }
        let mut programs = Vec::new(); let mut bindings = Vec::new(); let mut vars0 = serde_json::Map::new();
        let mut src = String::from("CONFIGURATION C\nVAR_GLOBAL\n s1 : BOOL := FALSE;\n s2 : BOOL := FALSE;\n elog : ARRAY[0..31] OF INT;\n lgn : INT := INT#0;\n inj : INT := INT#0;\n zero : INT := INT#0;\nEND_VAR\n");
        for t in &tasks { let mut parts = Vec::new(); if t["single"] != "" { parts.push(format!("SINGLE := {}", t["single"].as_str().unwrap())); }
            parts.push(format!("INTERVAL := T#{}ms", t["interval"])); parts.push(format!("PRIORITY := {}", t["prio"])); src.push_str(&format!("TASK {} ({});\n", t["name"].as_str().unwrap(), parts.join(", "))); }
        let mut bodies = String::new();
        for j in 0..np {
            let task = if nt > 0 && rng.gen_bool(0.7) { format!("T{}", rng.gen_range(0..nt)) } else { String::new() };
            if task.is_empty() { src.push_str(&format!("PROGRAM P{j} : PT{j};\n")); } else { src.push_str(&format!("PROGRAM P{j} WITH {task} : PT{j};\n")); }
            let mut decls = String::new(); let mut stmts = Vec::new(); let mut copies = Vec::new();
            for c in 0..rng.gen_range(1..=2) {
                let sz = ["X", "B", "W", "D"][rng.gen_range(0..4)]; let n = nbytes(sz);
                let (ib, ibit) = (rng.gen_range(0..=IMG - n), rng.gen_range(0..8)); let (ob, obit) = (rng.gen_range(0..=IMG - n), rng.gen_range(0..8));
                let oarea = if rng.gen_bool(0.8) { "Q" } else { "M" };
                let (iv, ov) = (format!("i{j}_{c}"), format!("o{j}_{c}"));
                decls.push_str(&format!("  {iv} AT {} : {};\n  {ov} AT {} : {};\n", addr("I", sz, ib, ibit), ty(sz), addr(oarea, sz, ob, obit), ty(sz)));
                bindings.push(json!({"var": iv, "area": "I", "size": sz, "byte": ib, "bit": if sz == "X" { ibit } else { 0 }}));
                bindings.push(json!({"var": ov, "area": oarea, "size": sz, "byte": ob, "bit": if sz == "X" { obit } else { 0 }}));
                vars0.insert(iv.clone(), json!(vec![0; n])); vars0.insert(ov.clone(), json!(vec![0; n]));
                stmts.push(format!("{ov} := {iv};")); copies.push(json!({"from": iv, "to": ov}));
            }
            let mut body = format!("elog[lgn] := INT#{j}; lgn := lgn + INT#1;\n");
            for (k, st) in stmts.iter().enumerate() { body.push_str(&format!("IF inj = INT#{} THEN zz := INT#1 / zero; END_IF;\n{st}\n", j * 10 + k + 1)); }
            body.push_str(&format!("IF inj = INT#{} THEN zz := INT#1 / zero; END_IF;\n", j * 10 + stmts.len() + 1));
            bodies.push_str(&format!("PROGRAM PT{j}\nVAR_EXTERNAL elog : ARRAY[0..31] OF INT; lgn : INT; inj : INT; zero : INT; END_VAR\nVAR\n{decls}  zz : INT;\nEND_VAR\n{body}END_PROGRAM\n"));
            programs.push(json!({"name": format!("P{j}"), "task": task, "copies": copies}));
        }
        src.push_str("END_CONFIGURATION\n"); src.push_str(&bodies);
        let policy = if rng.gen_bool(0.5) { "safe_halt" } else { "halt" };
        let mut safe = Vec::new(); let mut safe_rt = IoSafeState::default();
        for _ in 0..rng.gen_range(0..=2) { let sz = ["X", "B", "W"][rng.gen_range(0..3)]; let n = nbytes(sz); let (b, bit) = (rng.gen_range(0..=IMG - n), rng.gen_range(0..8));
            let val: Vec<u8> = if sz == "X" { vec![rng.gen_range(0..2)] } else { (0..n).map(|_| rng.gen_range(0..=255)).collect() };
            let v = match sz { "X" => Value::Bool(val[0] == 1), "B" => Value::Byte(val[0]), _ => Value::Word(u16::from_le_bytes([val[0], val[1]])) };
            safe_rt.outputs.push((IoAddress::parse(&addr("Q", sz, b, bit)).unwrap(), v));
            safe.push(json!({"addr": {"area": "Q", "size": sz, "byte": b, "bit": if sz == "X" { bit } else { 0 }}, "val": val})); }
        let drivers = json!([{"off": 0, "len": 3}, {"off": 3, "len": 3}]);
        let mut h = match TestHarness::from_source(&src) { Ok(h) => h, Err(e) => { eprintln!("COMPILE {e}\n{src}"); continue; } };
        let sh = Arc::new(Mutex::new(Shared { log: vec![], src: vec![vec![0; 3], vec![0; 3]], fail: (0, String::new()) }));
        h.runtime_mut().io_mut().resize(IMG, IMG, IMG);
        h.runtime_mut().add_io_driver("d1", Box::new(Drv { id: 1, off: 0, len: 3, sh: sh.clone() }));
        h.runtime_mut().add_io_driver("d2", Box::new(Drv { id: 2, off: 3, len: 3, sh: sh.clone() }));
        h.runtime_mut().set_fault_policy(if policy == "safe_halt" { FaultPolicy::SafeHalt } else { FaultPolicy::Halt });
        h.runtime_mut().set_io_safe_state(safe_rt);
        writeln!(out, "{}", json!({"a":"Reset","cfg":{"tasks":tasks,"programs":programs,"bindings":bindings,"drivers":drivers,"policy":policy,"safe":safe},"imgLen":IMG,"vars0":vars0,"singles":singles,"src":src})).unwrap();
        for _ in 0..rng.gen_range(3..9) {
            if rng.gen_bool(0.8) { let dt = [0, 1, 2, 3, 5, 7][rng.gen_range(0..6)]; h.advance_time(Duration::from_millis(dt)); writeln!(out, "{}", json!({"a":"Advance","dt":dt})).unwrap(); }
            if rng.gen_bool(0.4) { let s = singles[rng.gen_range(0..2)]; let b = rng.gen_bool(0.5); h.set_input(s, Value::Bool(b)); writeln!(out, "{}", json!({"a":"SetSingle","s":s,"b":b})).unwrap(); }
            for d in 1..=2 { if rng.gen_bool(0.6) { let bytes: Vec<u8> = (0..3).map(|_| rng.gen_range(0..=255)).collect(); sh.lock().unwrap().src[d - 1] = bytes.clone(); writeln!(out, "{}", json!({"a":"SetSrc","d":d,"bytes":bytes})).unwrap(); } }
            if rng.gen_bool(0.12) { let j = rng.gen_range(0..np); let nst = programs[j]["copies"].as_array().unwrap().len(); let at = rng.gen_range(1..=nst + 1); h.set_input("inj", Value::Int((j * 10 + at) as i16)); writeln!(out, "{}", json!({"a":"Inject","prog":format!("P{j}"),"at":at})).unwrap(); }
            if rng.gen_bool(0.06) { let d = rng.gen_range(1..=2); let op = if rng.gen_bool(0.5) { "read" } else { "write" }; sh.lock().unwrap().fail = (d, op.to_string()); writeln!(out, "{}", json!({"a":"FailDriver","d":d,"op":op})).unwrap(); }
            h.set_input("lgn", Value::Int(0)); sh.lock().unwrap().log.clear();
            let r = h.cycle();
            let res = if r.errors.is_empty() { "ok".to_string() } else if matches!(r.errors[0], RuntimeError::ResourceFaulted) { "refused".into() } else { "fault".into() };
            let n = match h.get_output("lgn") { Some(Value::Int(n)) => n as usize, o => panic!("{o:?}") };
            let exec: Vec<String> = match h.get_output("elog") { Some(Value::Array(a)) => a.elements.iter().take(n).map(|v| match v { Value::Int(i) => format!("P{i}"), o => format!("{o:?}") }).collect(), _ => vec![] };
            let over: Vec<u64> = (0..nt).map(|i| h.runtime().task_overrun_count(&format!("T{i}")).unwrap()).collect();
            let mut vars = serde_json::Map::new(); for k in vars0.keys() { vars.insert(k.clone(), json!(bytes_of(&h.get_output(k).unwrap()))); }
            let io = h.runtime().io();
            writeln!(out, "{}", json!({"a":"Cycle","res":res,"exec":exec,"over":over,"img":{"I":io.inputs(),"Q":io.outputs(),"M":io.memory()},"vars":vars,"drv":sh.lock().unwrap().log.clone(),"faulted":h.runtime().faulted()})).unwrap();
        }
    }
}
