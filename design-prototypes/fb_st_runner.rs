use rand::{Rng, SeedableRng, rngs::StdRng};
use serde_json::json;
use std::io::Write;
use trust_runtime::harness::TestHarness;
use trust_runtime::value::{Duration, Value};
fn main() {
    let kind = std::env::args().nth(1).unwrap();
    let vary_pt = std::env::args().nth(2).map(|s| s == "vary").unwrap_or(false);
    let mut rng = StdRng::seed_from_u64(11);
    let mut out = std::io::BufWriter::new(std::fs::File::create(format!("/tmp/proto/fbst_{kind}.ndjson")).unwrap());
    let src = format!("PROGRAM P\nVAR\n  t1 : {kind};\n  t2 : {kind};\n  i1 : BOOL; i2 : BOOL; pt : TIME; q1 : BOOL; q2 : BOOL; e1 : TIME; e2 : TIME;\nEND_VAR\nt1(IN := i1, PT := pt, Q => q1, ET => e1);\nt2(IN := i2, PT := pt, Q => q2, ET => e2);\nEND_PROGRAM\n");
    for _ in 0..300 {
        let mut h = TestHarness::from_source(&src).unwrap();
        writeln!(out, "{}", json!({"a":"Reset","kind":kind})).unwrap();
        // only instance 1 is logged into this trace; instance 2 gets the complement input (independence is checked by instance 1 matching its own model)
        let mut pt: i64 = *[0, 2, 3, 7].get(rng.gen_range(0..4)).unwrap();
        for i in 0..rng.gen_range(2..12) {
            if vary_pt && rng.gen_bool(0.3) { pt = *[0, 2, 3, 7].get(rng.gen_range(0..4)).unwrap(); }
            let input = rng.gen_bool(0.55);
            let dt: i64 = if i == 0 { 0 } else { *[0, 1, 2, 5].get(rng.gen_range(0..4)).unwrap() };
            h.advance_time(Duration::from_millis(dt));
            h.set_input("i1", Value::Bool(input)); h.set_input("i2", Value::Bool(!input)); h.set_input("pt", Value::Time(Duration::from_millis(pt)));
            let r = h.cycle(); assert!(r.errors.is_empty(), "{:?}", r.errors);
            let q = matches!(h.get_output("q1"), Some(Value::Bool(true)));
            let et = match h.get_output("e1") { Some(Value::Time(d)) => d.as_nanos() / 1_000_000, o => panic!("{o:?}") };
            writeln!(out, "{}", json!({"a":"Call","in":input,"pt":pt,"dt":dt,"q":q,"et":et})).unwrap();
        }
    }
}
