// reads /tmp/proto/fmt_pairs.ndjson lines {"id","before","after"} and compares non-trivia token sequences
use trust_syntax::lexer::lex;
fn toks(s: &str) -> Vec<String> {
    lex(s).iter().filter(|t| !t.kind.is_trivia() || format!("{:?}", t.kind) != "Whitespace").map(|t| {
        let text = &s[usize::from(t.range.start())..usize::from(t.range.end())];
        if t.kind.is_keyword() { text.to_ascii_uppercase() } else { text.to_string() } }).collect()
}
fn main() {
    let mut bad = 0; let mut n = 0;
    for line in std::fs::read_to_string("/tmp/proto/fmt_pairs.ndjson").unwrap().lines() {
        let v: serde_json::Value = serde_json::from_str(line).unwrap();
        let (b, a) = (v["before"].as_str().unwrap(), v["after"].as_str().unwrap());
        n += 1;
        let (tb, ta) = (toks(b), toks(a));
        if tb != ta { bad += 1; let i = tb.iter().zip(ta.iter()).position(|(x, y)| x != y).unwrap_or(tb.len().min(ta.len()));
            if bad <= 12 { println!("DIFF {} at token {i}: before {:?} after {:?}", v["id"], &tb[i.saturating_sub(2)..(i + 3).min(tb.len())], &ta[i.saturating_sub(2)..(i + 3).min(ta.len())]); } }
    }
    println!("pairs={n} token-sequence-changed={bad}");
}
