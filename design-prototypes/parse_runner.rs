use rand::{Rng, SeedableRng, rngs::StdRng, seq::SliceRandom};
use trust_syntax::lexer::lex;
use trust_syntax::parser::parse;

const ATOMS: &[&str] = &["PROGRAM", "END_PROGRAM", "FUNCTION", "END_FUNCTION", "FUNCTION_BLOCK", "END_FUNCTION_BLOCK", "VAR", "VAR_INPUT", "VAR_GLOBAL", "END_VAR", "IF", "THEN", "ELSIF", "ELSE", "END_IF",
  "CASE", "OF", "END_CASE", "FOR", "TO", "BY", "DO", "END_FOR", "WHILE", "END_WHILE", "REPEAT", "UNTIL", "END_REPEAT", "EXIT", "RETURN", "TYPE", "END_TYPE", "STRUCT", "END_STRUCT", "ARRAY", "CONFIGURATION", "END_CONFIGURATION", "TASK", "WITH", "AT",
  "NOT", "AND", "OR", "XOR", "MOD", "x", "y1", "Foo", "INT", "BOOL", "REAL", "1", "42", "16#FF", "2#1010", "1.5", "1.0E3", "INT#5", "T#5s", "T#1h2m", "D#2024-01-01", "TOD#12:00:00", "'str'", "\"wide\"", "'unterminated", "TRUE", "FALSE",
  ":=", "=>", ":", ";", ",", ".", "..", "(", ")", "[", "]", "+", "-", "*", "**", "/", "=", "<>", "<", ">", "<=", ">=", "&", "^", "#", "%IX0.0", "%QW2", "%", "(*", "*)", "(* c *)", "// line\n", "{pragma}", "{", "}", "\n", "\r\n", " ", "\t", "é", "😀", "$", "@", "?", "\\"];

fn check(s: &str, stats: &mut (u64, u64, u64, u64)) -> Result<(), String> {
    let toks = lex(s);
    let mut pos = 0u32;
    for t in &toks { if u32::from(t.range.start()) != pos { return Err(format!("token gap at {pos}")); } pos = u32::from(t.range.end()); }
    if pos as usize != s.len() { return Err(format!("tokens end at {pos} != {}", s.len())); }
    let p = parse(s);
    let text = p.syntax().text().to_string();
    if text != s { return Err(format!("tree text differs (len {} vs {})", text.len(), s.len())); }
    for e in p.errors() { if u32::from(e.range.end()) as usize > s.len() || e.range.start() > e.range.end() { return Err(format!("error range out of bounds {:?}", e.range)); } }
    let p2 = parse(s);
    if format!("{:?}", p2.syntax()) != format!("{:?}", p.syntax()) || p2.errors() != p.errors() { return Err("parse not pure".into()); }
    stats.0 += 1; if p.ok() { stats.1 += 1; }
    Ok(())
}
fn shape(s: &str) -> Vec<String> {
    let p = parse(s); let mut out = Vec::new();
    for ev in p.syntax().preorder_with_tokens() { if let rowan::WalkEvent::Enter(el) = ev { match el { rowan::NodeOrToken::Node(n) => out.push(format!("N{:?}", n.kind())), rowan::NodeOrToken::Token(t) => { let k = format!("{:?}", t.kind()); if !["Whitespace","LineComment","BlockComment","Pragma"].contains(&k.as_str()) { out.push(format!("T{k}")) } } } } }
    out
}
fn main() {
    let seed: u64 = std::env::args().nth(1).and_then(|s| s.parse().ok()).unwrap_or(1);
    let n: usize = std::env::args().nth(2).and_then(|s| s.parse().ok()).unwrap_or(20000);
    let mut rng = StdRng::seed_from_u64(seed);
    let mut stats = (0u64, 0u64, 0u64, 0u64);
    let mut corpus = Vec::new();
    for dir in ["/repo/examples", "/repo/conformance", "/repo/crates/trust-runtime/tests/fixtures"] { for e in glob(dir) { if let Ok(t) = std::fs::read_to_string(&e) { if t.len() < 20000 { corpus.push(t); } } } }
    eprintln!("corpus files: {}", corpus.len());
    std::panic::set_hook(Box::new(|_| {}));
    let mut fails = 0;
    for i in 0..n {
        let s: String = if i % 2 == 0 || corpus.is_empty() {
            let len = rng.gen_range(1..30); (0..len).map(|_| { let a = *ATOMS.choose(&mut rng).unwrap(); if rng.gen_bool(0.6) { format!("{a} ") } else { a.to_string() } }).collect()
        } else {
            let base = corpus.choose(&mut rng).unwrap(); let toks = lex(base); if toks.is_empty() { continue; }
            let mut parts: Vec<&str> = toks.iter().map(|t| &base[usize::from(t.range.start())..usize::from(t.range.end())]).collect();
            for _ in 0..rng.gen_range(1..4) { let k = rng.gen_range(0..parts.len()); match rng.gen_range(0..4) { 0 => { parts.remove(k); } 1 => { let p = parts[k]; parts.insert(k, p); } 2 => { let j = rng.gen_range(0..parts.len()); parts.swap(k, j); } _ => { parts.truncate(k.max(1)); } } if parts.is_empty() { break; } }
            parts.concat()
        };
        let r = std::panic::catch_unwind(std::panic::AssertUnwindSafe(|| check(&s, &mut stats)));
        match r { Err(_) => { fails += 1; if fails <= 5 { println!("PANIC on {:?}", &s.chars().take(200).collect::<String>()); } } Ok(Err(e)) => { fails += 1; if fails <= 5 { println!("FAIL {e} on {:?}", &s.chars().take(200).collect::<String>()); } } Ok(Ok(())) => {} }
    }
    // metamorphic: trivia insertion on error-free corpus files
    let mut meta_fail = 0; let mut meta = 0;
    for base in corpus.iter().filter(|c| parse(c).ok()).take(60) {
        let toks = lex(base); let sh = shape(base);
        for _ in 0..20 { let k = rng.gen_range(0..=toks.len()); let off = if k == toks.len() { base.len() } else { usize::from(toks[k].range.start()) };
            let ins = *[" ", "\n", "(* c *)", "\t", "\r\n"].choose(&mut rng).unwrap();
            let s2 = format!("{}{}{}", &base[..off], ins, &base[off..]);
            meta += 1; if shape(&s2) != sh { meta_fail += 1; if meta_fail <= 3 { println!("META FAIL insert {ins:?} at {off} before {:?}", &base[off..].chars().take(30).collect::<String>()); } } }
    }
    println!("inputs={} error-free={} fails={} meta={} meta_fail={}", stats.0, stats.1, fails, meta, meta_fail);
}
fn glob(dir: &str) -> Vec<std::path::PathBuf> { let mut out = Vec::new(); let mut stack = vec![std::path::PathBuf::from(dir)]; while let Some(d) = stack.pop() { if let Ok(rd) = std::fs::read_dir(&d) { for e in rd.flatten() { let p = e.path(); if p.is_dir() { stack.push(p); } else if p.extension().map(|x| x == "st").unwrap_or(false) { out.push(p); } } } } out.sort(); out }
