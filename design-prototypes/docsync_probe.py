import json, subprocess, itertools, random
def server():
    p = subprocess.Popen(["/repo/target/debug/trust-lsp"], stdin=subprocess.PIPE, stdout=subprocess.PIPE, stderr=subprocess.DEVNULL)
    def send(msg):
        b = json.dumps(msg).encode(); p.stdin.write(b"Content-Length: %d\r\n\r\n" % len(b) + b); p.stdin.flush()
    def recv():
        hdr = b""
        while not hdr.endswith(b"\r\n\r\n"):
            c = p.stdout.read(1)
            if not c: return None
            hdr += c
        n = int([l for l in hdr.split(b"\r\n") if l.lower().startswith(b"content-length")][0].split(b":")[1])
        return json.loads(p.stdout.read(n))
    def request(id, method, params):
        send({"jsonrpc":"2.0","id":id,"method":method,"params":params})
        while True:
            m = recv()
            if m is None: return None
            if m.get("id") == id and "method" not in m: return m
            if "method" in m and "id" in m: send({"jsonrpc":"2.0","id":m["id"],"result":None})
    request(1, "initialize", {"processId": None, "rootUri": None, "capabilities": {}})
    send({"jsonrpc":"2.0","method":"initialized","params":{}})
    return p, send, request
def u16len(ch): return 2 if ord(ch) > 0xFFFF else 1
def lines_of(text):  # split on \n only; EOL \r\n keeps \r out of the line content
    out=[]; cur=[]; 
    for ch in text:
        if ch=="\n": out.append(cur); cur=[]
        else: cur.append(ch)
    out.append(cur); return out
def pos_to_index(text, line, col):  # editor semantics: UTF-16 columns, clamp to line content (before \r\n)
    idx=0; ls=text.split("\n")
    for l in ls[:line]: idx+=len(l)+1
    content=ls[line]; 
    if content.endswith("\r"): content=content[:-1]
    u=0; k=0
    while k<len(content) and u<col: u+=u16len(content[k]); k+=1
    return idx+k
def all_positions(text):
    res=[]; ls=text.split("\n")
    for li,l in enumerate(ls):
        content=l[:-1] if l.endswith("\r") else l
        u=0; res.append((li,0))
        for ch in content: u+=u16len(ch); res.append((li,u))
    return res
ALPH=["a","é","漢","😀","\n","\r\n"]
rng=random.Random(7)
cases=[]
for n in range(1,5):
    for combo in itertools.product(ALPH, repeat=n):
        body="".join(combo)
        cases.append(body)
rng.shuffle(cases); cases=cases[:260]
p1,send1,req1=server(); p2,send2,req2=server()
SK_PRE="PROGRAM P\nVAR x : INT; END_VAR\n(* "; SK_POST=" *) x := 1;\nEND_PROGRAM\n"
bad=0; n=0; rid=10; kinds={}
for ci,body in enumerate(cases):
    text=SK_PRE+body+SK_POST
    poss=all_positions(text)
    # choose edits located inside/after the body region
    cand=[p for p in poss if p[0]>=2]
    for _ in range(3):
        a=rng.choice(cand); b=rng.choice(cand)
        if (b[0],b[1])<(a[0],a[1]): a,b=b,a
        ins=rng.choice(["","y","😀","\n","zz"])
        i0=pos_to_index(text,*a); i1=pos_to_index(text,*b)
        final=text[:i0]+ins+text[i1:]
        uri1=f"file:///tmp/scratch/ds_{ci}_{n}.st"
        send1({"jsonrpc":"2.0","method":"textDocument/didOpen","params":{"textDocument":{"uri":uri1,"languageId":"st","version":1,"text":text}}})
        send1({"jsonrpc":"2.0","method":"textDocument/didChange","params":{"textDocument":{"uri":uri1,"version":2},"contentChanges":[{"range":{"start":{"line":a[0],"character":a[1]},"end":{"line":b[0],"character":b[1]}},"text":ins}]}})
        send2({"jsonrpc":"2.0","method":"textDocument/didOpen","params":{"textDocument":{"uri":uri1,"languageId":"st","version":1,"text":final}}})
        rid+=1
        r1=req1(rid,"textDocument/formatting",{"textDocument":{"uri":uri1},"options":{"tabSize":4,"insertSpaces":True}})
        r2=req2(rid,"textDocument/formatting",{"textDocument":{"uri":uri1},"options":{"tabSize":4,"insertSpaces":True}})
        s1=req1(rid+100000,"textDocument/semanticTokens/full",{"textDocument":{"uri":uri1}})
        s2=req2(rid+100000,"textDocument/semanticTokens/full",{"textDocument":{"uri":uri1}})
        n+=1
        same = (r1.get("result")==r2.get("result")) and ((s1.get("result") or {}).get("data")==(s2.get("result") or {}).get("data"))
        if not same:
            bad+=1
            k="astral" if ("😀" in text[:i1+1]) else ("crlf" if "\r" in text else "other")
            kinds[k]=kinds.get(k,0)+1
            if bad<=4: print("DIVERGE", repr(body), a, b, repr(ins), k)
        for s in (send1,send2): s({"jsonrpc":"2.0","method":"textDocument/didClose","params":{"textDocument":{"uri":uri1}}})
p1.kill(); p2.kill()
print("scripts",n,"diverging",bad,kinds)
