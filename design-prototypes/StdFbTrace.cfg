SPECIFICATION TSpec
CONSTANTS
  DTs = {0}
  PTs = {0}
  MaxLen = 0
POSTCONDITION Accepted
CHECK_DEADLOCK FALSE
